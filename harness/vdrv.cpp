// vdrv — in-process driver harness.
//
// Links the repository's `stem` objects (everything but main.c) and drives the REAL backend(),
// process_io(), call_heart_beat(), call_out(), add_message()... under a scripted operating
// system: time(), the reactor (async_runtime_*), accept/recv/send, the timer and the console
// worker are replaced at link time (-Wl,--wrap).  One scenario = one forked child of a warmed-up
// parent (master + simul_efun loaded), so every scenario starts from the same C statics and a
// crash kills one scenario only.
//
// usage: vdrv <config-file> <script-file> <out-trace-file> [timeout-seconds]
//
// Script: text lines "op arg...", scenarios start with "reset <id>".
// Trace: ndjson; {"e":"Reset","id":..}, events from the harness (@@H) and from LPC (@@V), then
//        {"e":"End","exit":..,"sig":..,"asan":[...]}.
#include <config.h>
#include <string>
#include <vector>
#include <deque>
#include <map>
#include <set>
#include <sstream>
#include <fstream>
#include <algorithm>
#include <cstdio>
#include <cstdlib>
#include <cstring>
#include <cerrno>
#include <csignal>
#include <csetjmp>
#include <cstdarg>
#include <unistd.h>
#include <fcntl.h>
#include <sys/wait.h>
#include <sys/socket.h>
#include <sys/time.h>
#include <netinet/in.h>
#include <arpa/inet.h>
#include <termios.h>
#include <locale.h>
#include <poll.h>
#include <dirent.h>
#include <sys/stat.h>
#include <sanitizer/lsan_interface.h>

extern "C" {
#include "std.h"
#include "rc.h"
#include "comm.h"
#include "interpret.h"
#include "simul_efun.h"
#include "lpc/compiler.h"
#include "lpc/object.h"
#include "lpc/array.h"
#include "lpc/mapping.h"
#include "lpc/buffer.h"
#include "lpc/program.h"
#include "lpc/include/origin.h"
#include "efuns/call_out.h"
#include "async/async_runtime.h"
#include "async/async_queue.h"
#include "async/console_worker.h"
#include "port/timer.h"

extern int heart_beat_flag;
extern async_queue_t *g_console_queue;
extern long verif_insn_count, verif_fault_countdown;
int verif_error_context_depth(void);
int verif_in_error(void);
int verif_in_mudlib_error_handler(void);
int verif_command_giver_stack_depth(void);
int verif_num_objects_this_thread(void);
void *verif_restrict_destruct(void);
int verif_error_state(void);
int verif_live_sentences(void);
array_t *get_heart_beats(void);
ssize_t __real_write(int, const void *, size_t);
time_t __real_time(time_t *);
FILE *__real_fopen(const char *, const char *);
int __real_fclose(FILE *);
int __real_rename(const char *, const char *);
int __real_unlink(const char *);
int __real_open(const char *, int, ...);
int __real_stat(const char *, struct stat *);
int __real_lstat(const char *, struct stat *);
DIR *__real_opendir(const char *);
int __real_mkdir(const char *, mode_t);
int __real_rmdir(const char *);
int __real_link(const char *, const char *);
int __real_symlink(const char *, const char *);
int __real_isatty(int);
int __real_tcgetattr(int, struct termios *);
int __real_tcsetattr(int, int, const struct termios *);
}

// ------------------------------------------------------------------------------------------
// trace output (child: fd 2; one line per event; single threaded, unbuffered)
static int g_seq = 0;
static long g_emitted = 0;
static void emit(const std::string &body) {
  if (++g_emitted > 300000) _exit(97);   // runaway scenario (e.g. a flush loop that never ends): treated as a hang
  std::string s = "@@H{" + body + "}\n";
  __real_write(2, s.data(), s.size());
}
static std::string jstr(const std::string &s) {
  std::string o = "\"";
  for (unsigned char c : s) {
    if (c == '"' || c == '\\') { o += '\\'; o += (char)c; }
    else if (c < 0x20 || c >= 0x7f) { char b[8]; snprintf(b, sizeof b, "\\u%04x", c); o += b; }
    else o += (char)c;
  }
  return o + "\"";
}
static std::string hex(const void *p, size_t n) {
  static const char *d = "0123456789abcdef";
  std::string o; const unsigned char *b = (const unsigned char *)p;
  for (size_t i = 0; i < n; i++) { o += d[b[i] >> 4]; o += d[b[i] & 15]; }
  return o;
}
static std::string unhex(const std::string &h) {
  std::string o;
  for (size_t i = 0; i + 1 < h.size(); i += 2) o += (char)strtol(h.substr(i, 2).c_str(), 0, 16);
  return o;
}

// ------------------------------------------------------------------------------------------
// scripted world
struct User {
  std::string name;
  int fd = -1, peer = -1;
  std::deque<std::string> inq;   // chunks the client has sent and the driver has not read
  bool eof = false, rst = false, hangup = false, hangup_rd = false, force_w = false;
  std::deque<std::string> plan;  // results of the next send() calls
  uint32_t reg = 0; void *ctx = 0; bool registered = false;
  long sent = 0;
};
static std::vector<std::vector<std::string>> g_ops;   // current scenario
static size_t g_pc = 0;
static std::map<std::string, User> g_users;
static std::map<int, std::string> g_fd2user;
static std::deque<std::string> g_pending_connects;
static time_t g_vtime = 1000000;   // 1000000 = 31250 * 32
static int g_cycle = 0;
static bool g_in_backend = false;
static bool g_listen_registered = false; static void *g_listen_ctx = 0; static int g_listen_fd = -1;
static int g_console_lines = 0;
static int g_console_type = CONSOLE_TYPE_REAL;
static int g_isatty0 = 1;
static bool g_console_mode = false;
static std::set<std::string> g_proj;
static bool g_rev_events = false;
static bool g_log_send_hex = true;
static bool g_log_wait = true;
static int g_dummy_runtime;

static User *user_by_fd(int fd) {
  auto it = g_fd2user.find(fd);
  if (it == g_fd2user.end()) return 0;
  return &g_users[it->second];
}

// --- projections of driver structures to abstract state -----------------------------------
static std::string sv_json(svalue_t *v, int depth = 0);
static std::string arr_json(array_t *a, int depth) {
  std::string o = "[";
  for (int i = 0; i < a->size; i++) { if (i) o += ","; o += sv_json(&a->item[i], depth + 1); }
  return o + "]";
}
static std::string sv_json(svalue_t *v, int depth) {
  char b[64];
  if (!v) return "null";
  switch (v->type) {
  case T_NUMBER: snprintf(b, sizeof b, "%lld", (long long)v->u.number); return b;
  case T_REAL: snprintf(b, sizeof b, "\"f:%.17g\"", v->u.real); return b;
  case T_STRING: return jstr(v->u.string);
  case T_OBJECT: return (v->u.ob->flags & O_DESTRUCTED) ? std::string("0") : jstr(std::string("ob:") + v->u.ob->name);
  case T_ARRAY: return depth > 6 ? std::string("\"...\"") : arr_json(v->u.arr, depth);
  case T_MAPPING: {   // canonical: entries sorted by the JSON text of their keys
    if (depth > 6) return "\"...\"";
    std::vector<std::pair<std::string, std::string>> es;
    mapping_t *m = v->u.map;
    for (int i = 0; i <= (int)m->table_size; i++)
      for (mapping_node_t *n = m->table[i]; n; n = n->next) es.push_back({sv_json(&n->values[0], depth + 1), sv_json(&n->values[1], depth + 1)});
    std::sort(es.begin(), es.end());
    std::string o = "{\"m\":[";
    for (size_t i = 0; i < es.size(); i++) { if (i) o += ","; o += "[" + es[i].first + "," + es[i].second + "]"; }
    return o + "]}";
  }
  case T_FUNCTION: return "\"<function>\"";
  case T_BUFFER: return "{\"b\":\"" + hex((const char *)v->u.buf->item, v->u.buf->size) + "\"}";
  case T_CLASS: return depth > 6 ? std::string("\"...\"") : "{\"c\":" + arr_json(v->u.arr, depth) + "}";
  default: snprintf(b, sizeof b, "\"<type %d>\"", v->type); return b;
  }
}

static void project() {
  char b[256];
  if (g_proj.count("callouts")) {
    array_t *a = get_all_call_outs();
    std::string o = "\"e\":\"Pending\",\"now\":" + std::to_string((long)g_vtime) + ",\"l\":[";
    for (int i = 0; i < a->size; i++) {
      array_t *e = a->item[i].u.arr;
      if (i) o += ",";
      o += "[" + sv_json(&e->item[0]) + "," + sv_json(&e->item[1]) + "," + sv_json(&e->item[2]) + "]";
    }
    o += "]";
    free_array(a);
    emit(o);
  }
  if (g_proj.count("hb")) {
    array_t *a = get_heart_beats();
    std::string o = "\"e\":\"HBList\",\"l\":[";
    for (int i = 0; i < a->size; i++) {
      if (i) o += ",";
      object_t *ob = a->item[i].u.ob;
      snprintf(b, sizeof b, "[%s,%d]", jstr(ob->name).c_str(), query_heart_beat(ob));
      o += b;
    }
    o += "]";
    free_array(a);
    emit(o);
  }
  if (g_proj.count("users")) {
    std::string o = "\"e\":\"Users\",\"max\":" + std::to_string(max_users) + ",\"l\":[";
    bool first = true;
    for (int i = 0; i < max_users; i++) if (all_users && all_users[i]) {
      interactive_t *ip = all_users[i];
      User *u = user_by_fd(ip->fd);
      if (!first) o += ","; first = false;
      snprintf(b, sizeof b, "{\"slot\":%d,\"u\":%s,\"ts\":%ld,\"te\":%ld,\"st\":%d,\"sb\":%d,\"ml\":%d,\"fl\":%d}", i,
               jstr(u ? u->name : (i == 0 ? "console" : "?")).c_str(), (long)ip->text_start, (long)ip->text_end,
               ip->state, ip->sb_pos, ip->message_length, ip->iflags);
      o += b;
    }
    o += "]";
    emit(o);
  }
  if (g_proj.count("world")) {
    // structural walk: every scenario object (name prefix obj/w) in obj_list with its super and contains
    // chain, the destructed list, and the name-table lookup of every such object
    std::string o = "\"e\":\"World\",\"l\":[";
    bool first = true;
    for (object_t *ob = obj_list; ob; ob = ob->next_all) {
      if (strncmp(ob->name, "obj/w", 5) != 0) continue;
      if (!first) o += ","; first = false;
      std::string inv = "[";
      int guard = 0;
      for (object_t *c = ob->contains; c && guard < 1000; c = c->next_inv, guard++) { if (guard) inv += ","; inv += jstr(c->name); }
      inv += "]";
      object_t *f = find_object_by_name(ob->name);
      o += "{\"n\":" + jstr(ob->name) + ",\"env\":" + (ob->super ? jstr(ob->super->name) : std::string("\"0\"")) +
           ",\"inv\":" + inv + ",\"dead\":" + ((ob->flags & O_DESTRUCTED) ? "1" : "0") + ",\"found\":" + (f == ob ? "1" : "0") + "}";
    }
    o += "],\"dlist\":[";
    first = true;
    for (object_t *ob = obj_list_destruct; ob; ob = ob->next_all) {
      if (strncmp(ob->name, "obj/w", 5) != 0) continue;
      if (!first) o += ","; first = false;
      object_t *f = find_object_by_name(ob->name);
      o += "{\"n\":" + jstr(ob->name) + ",\"found\":" + (f ? "1" : "0") + ",\"env\":" + (ob->super ? "1" : "0") + ",\"inv\":" + (ob->contains ? "1" : "0") + "}";
    }
    o += "]";
    emit(o);
  }
  if (g_proj.count("regs")) {
    snprintf(b, sizeof b, "\"e\":\"Regs\",\"sp\":%ld,\"csp\":%ld,\"ctx\":%d,\"cgd\":%d,\"inerr\":%d,\"inmeh\":%d,\"nobj\":%d,\"rd\":%d,\"es\":%d,\"cg\":%s,\"co\":%s",
             (long)(sp - start_of_stack), (long)(csp - control_stack), verif_error_context_depth(),
             verif_command_giver_stack_depth(), verif_in_error(), verif_in_mudlib_error_handler(),
             verif_num_objects_this_thread(), verif_restrict_destruct() ? 1 : 0, verif_error_state(),
             command_giver ? jstr(command_giver->name).c_str() : "0",
             current_object ? jstr(current_object->name).c_str() : "0");
    emit(b);
  }
  if (g_proj.count("stats")) {
    snprintf(b, sizeof b, "\"e\":\"Stats\",\"arrays\":%d,\"asize\":%ld,\"maps\":%d,\"nodes\":%d,\"objs\":%ld,\"progs\":%ld,\"strs\":%d,\"astrs\":%d,\"sent\":%d",
             num_arrays, (long)total_array_size, num_mappings, total_mapping_nodes, (long)tot_alloc_object,
             (long)total_num_prog_blocks, num_distinct_strings, allocd_strings, verif_live_sentences());
    emit(b);
  }
}

// --- top-level evaluation ("call" op): what the driver does around every task -----------------
static object_t *find_ob(const std::string &name) {
  if (name == "master") return master_ob;
  object_t *ob = find_object_by_name(name.c_str());
  return ob;
}

static void top_call(const std::vector<std::string> &op) {
  // call <object> <function> [#int | x:hex | string]...
  error_context_t econ;
  volatile int nargs = 0;
  if (!save_context(&econ)) { emit("\"e\":\"CallErr\",\"why\":\"save_context\""); return; }
  if (setjmp(econ.context)) {
    restore_context(&econ);
    emit("\"e\":\"CallErr\",\"fn\":" + jstr(op[2]));
  } else {
    eval_cost = CONFIG_INT(__MAX_EVAL_COST__);
    object_t *ob = find_ob(op[1]);
    if (!ob) ob = find_or_load_object(op[1].c_str());
    if (!ob) { emit("\"e\":\"CallErr\",\"why\":\"no object\""); }
    else {
      for (size_t i = 3; i < op.size(); i++) {
        const std::string &a = op[i];
        if (a[0] == '#') push_number(atoll(a.c_str() + 1));
        else if (a.rfind("x:", 0) == 0) copy_and_push_string(unhex(a.substr(2)).c_str());
        else copy_and_push_string(a.c_str());
        nargs++;
      }
      svalue_t *r = apply(op[2].c_str(), ob, nargs, ORIGIN_DRIVER);
      emit("\"e\":\"CallRet\",\"fn\":" + jstr(op[2]) + ",\"v\":" + (r ? sv_json(r) : std::string("null")));
    }
  }
  pop_context(&econ);
  // what backend() does at the top of each cycle
  current_object = 0; command_giver = 0; current_interactive = 0;
  remove_destructed_objects();
}

// --- op interpreter shared by top level and reactor ------------------------------------------
// returns true if the op ends the current cycle (only meaningful inside backend)
static std::vector<io_event_t> g_extra_events;
static bool g_fslog = false;
static long g_fscrash = 0;      // crash (exit) before the k-th file-system call from now
static long g_fsfail = 0;       // the k-th file-system call from now fails (ENOSPC) instead of being performed / succeeding


static bool do_op(const std::vector<std::string> &op) {
  const std::string &o = op[0];
  char b[256];
  if (o == "cycle") return true;
  if (o == "tick") {
    long dt = op.size() > 1 ? atol(op[1].c_str()) : 1;
    g_vtime += dt;
    heart_beat_flag = 1;           // what heartbeat_timer_callback() does ...
    io_event_t ev; memset(&ev, 0, sizeof ev);  // ... followed by async_runtime_wakeup(): eventfd word 1
    ev.fd = -1; ev.completion_key = 0; ev.context = 0; ev.event_type = EVENT_READ; ev.bytes_transferred = 1;
    g_extra_events.push_back(ev);
    snprintf(b, sizeof b, "\"e\":\"Tick\",\"to\":%ld,\"dt\":%ld", (long)g_vtime, dt);
    emit(b);
    return false;
  }
  if (o == "settime") { g_vtime = atol(op[1].c_str()); return false; }
  if (o == "advance") { g_vtime += atol(op[1].c_str()); return false; }   // time passes, no tick
  if (o == "connect") {
    { User &old = g_users[op[1]]; if (old.fd >= 0) g_fd2user.erase(old.fd); }
    g_users[op[1]] = User();      // a name may be reused after its connection is gone: fresh client state
    g_users[op[1]].name = op[1];
    g_pending_connects.push_back(op[1]);
    emit("\"e\":\"Connect\",\"u\":" + jstr(op[1]));
    return false;
  }
  if (o == "input" || o == "line") {
    User &u = g_users[op[1]];
    std::string data;
    if (o == "input") data = unhex(op.size() > 2 ? op[2] : "");
    else { for (size_t i = 2; i < op.size(); i++) { if (i > 2) data += " "; data += op[i]; } data += "\r\n"; }
    u.inq.push_back(data);
    emit("\"e\":\"Input\",\"u\":" + jstr(op[1]) + ",\"hex\":\"" + hex(data.data(), data.size()) + "\"");
    return false;
  }
  if (o == "eof") { g_users[op[1]].eof = true; emit("\"e\":\"Eof\",\"u\":" + jstr(op[1])); return false; }
  if (o == "rst") { g_users[op[1]].rst = true; emit("\"e\":\"Rst\",\"u\":" + jstr(op[1])); return false; }
  if (o == "hangup") { User &u = g_users[op[1]]; u.hangup = true; u.hangup_rd = op.size() > 2; emit("\"e\":\"Hangup\",\"u\":" + jstr(op[1])); return false; }
  if (o == "sendplan") { User &u = g_users[op[1]]; for (size_t i = 2; i < op.size(); i++) u.plan.push_back(op[i]); return false; }
  if (o == "writable") { g_users[op[1]].force_w = true; return false; }
  if (o == "unblock") { User &u = g_users[op[1]]; while (!u.plan.empty() && u.plan.front() == "EWOULDBLOCK") u.plan.pop_front(); return false; }
  if (o == "console") {
    std::string data = op.size() > 1 ? unhex(op[1]) : "";
    if (g_console_queue) { async_queue_enqueue(g_console_queue, data.c_str(), data.size() + 1); g_console_lines++; }
    emit("\"e\":\"ConsoleLine\",\"hex\":\"" + hex(data.data(), data.size()) + "\"");
    return false;
  }
  if (o == "consoletype") { g_console_type = atoi(op[1].c_str()); g_isatty0 = (g_console_type == CONSOLE_TYPE_REAL); return false; }
  if (o == "proj") { for (size_t i = 1; i < op.size(); i++) g_proj.insert(op[i]); return false; }
  if (o == "noproj") { for (size_t i = 1; i < op.size(); i++) g_proj.erase(op[i]); return false; }
  if (o == "snapshot") { project(); return false; }
  if (o == "revevents") { g_rev_events = true; return false; }
  // ---- host file manipulation for C17 / C02 (paths relative to the mudlib directory = the driver's cwd)
  if (o == "hostcp" && op.size() > 2) {
    std::ifstream in(op[1], std::ios::binary); std::stringstream ss; ss << in.rdbuf();
    std::string d = op[2]; for (size_t i = 1; i < d.size(); i++) if (d[i] == '/') { std::string dir = d.substr(0, i); __real_mkdir(dir.c_str(), 0770); }
    std::ofstream out(op[2], std::ios::binary | std::ios::trunc); out << ss.str(); out.close();
    emit("\"e\":\"HostCp\",\"src\":" + jstr(op[1]) + ",\"dst\":" + jstr(op[2]) + ",\"ok\":" + (in.good() || in.eof() ? "true" : "false"));
    return false;
  }
  if (o == "hostwrite" && op.size() > 2) {    // hostwrite PATH HEX
    std::string d = op[1]; for (size_t i = 1; i < d.size(); i++) if (d[i] == '/') { std::string dir = d.substr(0, i); __real_mkdir(dir.c_str(), 0770); }
    std::string data = unhex(op[2]);
    std::ofstream out(op[1], std::ios::binary | std::ios::trunc); out << data; out.close();
    return false;
  }
  if (o == "utime" && op.size() > 2) {
    struct timeval tv[2] = {{atol(op[2].c_str()), 0}, {atol(op[2].c_str()), 0}};
    int r = utimes(op[1].c_str(), tv);
    emit("\"e\":\"Utime\",\"path\":" + jstr(op[1]) + ",\"t\":" + op[2] + ",\"ok\":" + (r == 0 ? "true" : "false"));
    return false;
  }
  if (o == "stampnew" && op.size() > 2) {    // every regular file under DIR whose mtime is "real" (after 2017) gets logical time T
    std::vector<std::string> stack{op[1]}; std::string done = "";
    while (!stack.empty()) {
      std::string d = stack.back(); stack.pop_back();
      DIR *dp = __real_opendir(d.c_str()); if (!dp) continue;
      while (struct dirent *de = readdir(dp)) {
        std::string n = de->d_name; if (n == "." || n == "..") continue;
        std::string pth = d + "/" + n; struct stat st; if (__real_stat(pth.c_str(), &st)) continue;
        if (S_ISDIR(st.st_mode)) { stack.push_back(pth); continue; }
        if (st.st_mtime > 1500000000) {
          struct timeval tv[2] = {{atol(op[2].c_str()), 0}, {atol(op[2].c_str()), 0}}; utimes(pth.c_str(), tv);
          done += (done.empty() ? "" : ",") + jstr(pth);
        }
      }
      closedir(dp);
    }
    emit("\"e\":\"Stamped\",\"t\":" + op[2] + ",\"files\":[" + done + "]");
    return false;
  }
  if (o == "patchbytes" && op.size() > 3) {   // patchbytes PATH OFFSET HEX: overwrite bytes, keep the mtime
    struct stat st; int r = __real_stat(op[1].c_str(), &st);
    std::string data = unhex(op[3]);
    FILE *f = __real_fopen(op[1].c_str(), "r+b");
    if (f) { fseek(f, atol(op[2].c_str()), SEEK_SET); fwrite(data.data(), 1, data.size(), f); __real_fclose(f); }
    if (r == 0) { struct timeval tv[2] = {{st.st_mtime, 0}, {st.st_mtime, 0}}; utimes(op[1].c_str(), tv); }
    emit("\"e\":\"Patched\",\"path\":" + jstr(op[1]) + ",\"ok\":" + (f ? "true" : "false"));
    return false;
  }
  if (o == "hostcat" && op.size() > 1) {      // log the content of a host file (hex)
    std::ifstream in(op[1], std::ios::binary); std::stringstream ss; ss << in.rdbuf(); std::string d = ss.str();
    emit("\"e\":\"HostFile\",\"path\":" + jstr(op[1]) + ",\"exists\":" + (in.good() || in.eof() ? "true" : "false") + ",\"hex\":\"" + hex(d.data(), d.size()) + "\"");
    return false;
  }
  if (o == "expire") {        // time passes: every call_out that is due runs (or is dropped) - what backend() does each second
    g_vtime += op.size() > 1 ? atol(op[1].c_str()) : 1;
    error_context_t econ;
    if (save_context(&econ)) {
      if (setjmp(econ.context)) restore_context(&econ);
      else { current_time = g_vtime; eval_cost = CONFIG_INT(__MAX_EVAL_COST__); call_out(); }
      pop_context(&econ);
    }
    current_object = 0; command_giver = 0; current_interactive = 0;
    remove_destructed_objects();
    return false;
  }
  if (o == "leakcheck") {     // LeakSanitizer: allocations nothing points to any more (refcount leaks, cyclic garbage)
    fflush(stderr);
    fprintf(stderr, "@@LEAKCHECK-BEGIN %s\n", op.size() > 1 ? op[1].c_str() : "");
    int r = __lsan_do_recoverable_leak_check();
    fprintf(stderr, "@@LEAKCHECK-END %d\n", r);
    snprintf(b, sizeof b, "\"e\":\"LeakCheck\",\"tag\":%s,\"leaks\":%d", jstr(op.size() > 1 ? op[1] : "").c_str(), r); emit(b);
    return false;
  }
  if (o == "fslog") { g_fslog = atoi(op[1].c_str()) != 0; return false; }
  if (o == "fscrash") { g_fscrash = atol(op[1].c_str()); return false; }
  if (o == "fsfail") { g_fsfail = atol(op[1].c_str()); return false; }
  if (o == "fault") { verif_fault_countdown = atol(op[1].c_str()); return false; }
  if (o == "icount") { snprintf(b, sizeof b, "\"e\":\"ICount\",\"n\":%ld", verif_insn_count); emit(b); return false; }
  if (o == "izero") { verif_insn_count = 0; return false; }
  if (o == "setcfg") {   // setcfg <index-name> <int>
    static const std::map<std::string, int> idx = {
      {"MaxEvaluationCost", __MAX_EVAL_COST__}, {"MaxArraySize", __MAX_ARRAY_SIZE__},
      {"MaxMappingSize", __MAX_MAPPING_SIZE__}, {"MaxStringLength", __MAX_STRING_LENGTH__},
      {"MaxBufferSize", __MAX_BUFFER_SIZE__}, {"MaxCallDepth", __MAX_CALL_DEPTH__},
      {"ResetDuration", __TIME_TO_RESET__}, {"CleanupDuration", __TIME_TO_CLEAN_UP__},
      {"MaxReadFileSize", __MAX_READ_FILE_SIZE__}, {"MaxInheritDepth", __INHERIT_CHAIN_SIZE__}, {"MaxByteTransfer", __MAX_BYTE_TRANSFER__}};
    auto it = idx.find(op[1]);
    if (it != idx.end()) CONFIG_INT(it->second) = atoi(op[2].c_str());
    return false;
  }
  if (o == "portkind") {   // telnet | ascii | binary
    external_port[0].kind = op[1] == "ascii" ? PORT_ASCII : op[1] == "binary" ? PORT_BINARY : PORT_TELNET;
    return false;
  }
  if (o == "consolemode") { g_console_mode = atoi(op[1].c_str()) != 0; MAIN_OPTION(console_mode) = g_console_mode; return false; }
  if (o == "noport") { external_port[0].port = 0; return false; }
  if (o == "call") { top_call(op); return false; }
  if (o == "callreg") {   // callreg <registry name> <function>: a driver-origin apply on a scenario object
    error_context_t econ;
    if (!save_context(&econ)) return false;
    emit("\"e\":\"Call\",\"origin\":\"driver\",\"name\":" + jstr(op[2]));
    if (setjmp(econ.context)) {
      restore_context(&econ);
    } else {
      eval_cost = CONFIG_INT(__MAX_EVAL_COST__);
      object_t *reg = find_object_by_name("reg");
      if (reg) {
        copy_and_push_string(op[1].c_str());
        svalue_t *r = apply("get", reg, 1, ORIGIN_DRIVER);
        if (r && r->type == T_OBJECT && !(r->u.ob->flags & O_DESTRUCTED)) {
          object_t *t = r->u.ob;
          push_number(1);
          static std::map<std::string, char *> lit;     // one stable pointer per name, like a C string literal
          if (!lit.count(op[2])) lit[op[2]] = strdup(op[2].c_str());
          apply(lit[op[2]], t, 1, ORIGIN_DRIVER);
        }
      }
    }
    pop_context(&econ);
    current_object = 0; command_giver = 0;
    emit("\"e\":\"CallDone\"");
    return false;
  }
  if (o == "note") { std::string s; for (size_t i = 1; i < op.size(); i++) { if (i > 1) s += " "; s += op[i]; } emit("\"e\":\"Note\",\"t\":" + jstr(s)); return false; }
  if (o == "backend") {
    g_in_backend = true;
    backend();
    g_in_backend = false;
    emit("\"e\":\"BackendReturned\"");
    return false;
  }
  emit("\"e\":\"BadOp\",\"op\":" + jstr(o));
  return false;
}

// ------------------------------------------------------------------------------------------
// file-system call boundaries (C16 crash points, C15 path log)
static std::map<FILE *, std::string> g_fpath;
// returns true if this call is the one chosen to fail
static bool fs_event(const char *fn, const std::string &p1, const std::string &p2 = "") {
  if (g_fscrash > 0 && --g_fscrash == 0) { emit(std::string("\"e\":\"Crash\",\"before\":") + jstr(fn)); _exit(0); }
  bool fail = g_fsfail > 0 && --g_fsfail == 0;
  if (g_fslog) emit(std::string("\"e\":\"Fs\",\"fn\":") + jstr(fn) + ",\"path\":" + jstr(p1) + ",\"path2\":" + jstr(p2) + ",\"failed\":" + (fail ? "true" : "false"));
  if (fail) errno = ENOSPC;
  return fail;
}

// ------------------------------------------------------------------------------------------
// link-time interposers
extern "C" {

FILE *__wrap_fopen(const char *path, const char *mode) {
  if ((g_fslog || g_fscrash || g_fsfail) && fs_event("fopen", path ? path : "", mode ? mode : "")) return NULL;
  FILE *f = __real_fopen(path, mode);
  if (f && (g_fslog || g_fscrash || g_fsfail)) g_fpath[f] = path;
  return f;
}
int __wrap_fclose(FILE *f) {
  bool fail = false;
  if ((g_fslog || g_fscrash || g_fsfail) && g_fpath.count(f)) { fail = fs_event("fclose", g_fpath[f]); g_fpath.erase(f); }
  int r = __real_fclose(f);
  if (fail) { errno = ENOSPC; return EOF; }      // the final flush could not be written
  return r;
}
int __wrap_rename(const char *a, const char *b) { if ((g_fslog || g_fscrash || g_fsfail) && fs_event("rename", a, b)) return -1; return __real_rename(a, b); }
int __wrap_unlink(const char *a) { if ((g_fslog || g_fscrash || g_fsfail) && fs_event("unlink", a)) return -1; return __real_unlink(a); }
int __wrap_open(const char *path, int flags, ...) {
  mode_t mode = 0;
  if (flags & O_CREAT) { va_list ap; va_start(ap, flags); mode = (mode_t)va_arg(ap, int); va_end(ap); }
  if (g_fslog || g_fscrash) fs_event((flags & (O_WRONLY | O_RDWR | O_CREAT | O_TRUNC)) ? "open_w" : "open", path ? path : "");
  return __real_open(path, flags, mode);
}
int __wrap_stat(const char *path, struct stat *st) { if (g_fslog) fs_event("stat", path ? path : ""); return __real_stat(path, st); }
int __wrap_lstat(const char *path, struct stat *st) { if (g_fslog) fs_event("lstat", path ? path : ""); return __real_lstat(path, st); }
DIR *__wrap_opendir(const char *path) { if (g_fslog) fs_event("opendir", path ? path : ""); return __real_opendir(path); }
int __wrap_mkdir(const char *path, mode_t m) { if (g_fslog) fs_event("mkdir", path ? path : ""); return __real_mkdir(path, m); }
int __wrap_rmdir(const char *path) { if (g_fslog) fs_event("rmdir", path ? path : ""); return __real_rmdir(path); }
int __wrap_link(const char *a, const char *b) { if (g_fslog) fs_event("link", a ? a : "", b ? b : ""); return __real_link(a, b); }
int __wrap_symlink(const char *a, const char *b) { if (g_fslog) fs_event("symlink", a ? a : "", b ? b : ""); return __real_symlink(a, b); }
int __wrap_fprintf(FILE *f, const char *fmt, ...) {
  if ((g_fslog || g_fscrash || g_fsfail) && g_fpath.count(f) && fs_event("fprintf", g_fpath[f])) return -1;
  va_list ap; va_start(ap, fmt); int r = vfprintf(f, fmt, ap); va_end(ap); return r;
}

time_t __wrap_time(time_t *t) {
  if (t) {
    *t = g_vtime;
    // call_heart_beat() is the only caller that passes a pointer: this is the linearization point
    // "the driver's clock advances and the tick's work (heart beats, resets, call_outs) begins"
    if (g_in_backend) emit("\"e\":\"TickBegin\",\"now\":" + std::to_string((long)g_vtime));
  }
  return g_vtime;
}

timer_error_t __wrap_platform_timer_start(platform_timer_t *, unsigned long, timer_callback_t) { return TIMER_OK; }

int __wrap_bind(int, const struct sockaddr *, socklen_t) { return 0; }
int __wrap_listen(int fd, int) { g_listen_fd = fd; return 0; }

int __wrap_accept(int, struct sockaddr *addr, socklen_t *len) {
  if (g_pending_connects.empty()) { errno = EWOULDBLOCK; return -1; }
  std::string name = g_pending_connects.front(); g_pending_connects.pop_front();
  int sv[2];
  if (socketpair(AF_UNIX, SOCK_STREAM, 0, sv) != 0) { errno = EMFILE; return -1; }
  User &u = g_users[name];
  u.fd = sv[0]; u.peer = sv[1];
  g_fd2user[u.fd] = name;
  struct sockaddr_in sin; memset(&sin, 0, sizeof sin);
  sin.sin_family = AF_INET; sin.sin_addr.s_addr = htonl(INADDR_LOOPBACK); sin.sin_port = htons(40000);
  if (addr && len) { memcpy(addr, &sin, std::min((size_t)*len, sizeof sin)); *len = sizeof sin; }
  emit("\"e\":\"Accepted\",\"u\":" + jstr(name) + ",\"fd\":" + std::to_string(u.fd));
  return u.fd;
}

ssize_t __wrap_recv(int fd, void *buf, size_t len, int) {
  User *u = user_by_fd(fd);
  if (!u) { errno = EBADF; return -1; }
  if (!u->inq.empty()) {
    std::string &c = u->inq.front();
    size_t n = std::min(len, c.size());
    memcpy(buf, c.data(), n);
    if (n == c.size()) u->inq.pop_front(); else c.erase(0, n);
    emit("\"e\":\"Read\",\"u\":" + jstr(u->name) + ",\"n\":" + std::to_string(n) + ",\"space\":" + std::to_string(len) +
         ",\"hex\":\"" + hex(buf, n) + "\"");
    return (ssize_t)n;
  }
  if (u->eof) { emit("\"e\":\"Read\",\"u\":" + jstr(u->name) + ",\"n\":0,\"space\":" + std::to_string(len) + ",\"hex\":\"\""); return 0; }
  if (u->rst) { errno = ECONNRESET; return -1; }
  errno = EWOULDBLOCK; return -1;
}

ssize_t __wrap_send(int fd, const void *buf, size_t len, int flags) {
  User *u = user_by_fd(fd);
  if (!u) { errno = EBADF; return -1; }
  std::string r = "all";
  if (!u->plan.empty()) { r = u->plan.front(); u->plan.pop_front(); }
  ssize_t n;
  if (r == "all") n = (ssize_t)len;
  else if (r == "EWOULDBLOCK") { errno = EWOULDBLOCK; n = -1; }
  else if (r == "EINTR") { errno = EINTR; n = -1; }
  else if (r == "EPIPE") { errno = EPIPE; n = -1; }
  else if (r == "ECONNRESET") { errno = ECONNRESET; n = -1; }
  else { n = atol(r.c_str()); if (n < 1) n = 1; if ((size_t)n > len) n = (ssize_t)len; }
  std::string o = "\"e\":\"Send\",\"u\":" + jstr(u->name) + ",\"len\":" + std::to_string(len) + ",\"res\":" + jstr(r) +
                  ",\"n\":" + std::to_string((long)n) + ",\"oob\":" + std::to_string(flags & MSG_OOB ? 1 : 0);
  if (n > 0 && g_log_send_hex) o += ",\"hex\":\"" + hex(buf, (size_t)n) + "\"";
  emit(o);
  if (n > 0) u->sent += n;
  return n;
}

ssize_t __wrap_write(int fd, const void *buf, size_t len) {
  if (fd == STDOUT_FILENO && g_in_backend) {
    emit("\"e\":\"Cout\",\"len\":" + std::to_string(len) + ",\"hex\":\"" + hex(buf, len) + "\"");
    return (ssize_t)len;
  }
  return __real_write(fd, buf, len);
}

int __wrap_isatty(int fd) { if (fd == 0) return g_isatty0; return __real_isatty(fd); }
int __wrap_tcgetattr(int fd, struct termios *t) { if (fd == 0) { memset(t, 0, sizeof *t); return 0; } return __real_tcgetattr(fd, t); }
int __wrap_tcsetattr(int fd, int a, const struct termios *t) { if (fd == 0) return 0; return __real_tcsetattr(fd, a, t); }

console_worker_context_t *__wrap_console_worker_init(async_runtime_t *rt, async_queue_t *q, uintptr_t key) {
  static console_worker_context_t ctx;
  ctx.line_queue = q; ctx.runtime = rt; ctx.worker = 0; ctx.console_type = (console_type_t)g_console_type; ctx.completion_key = key;
  return &ctx;
}
console_type_t __wrap_async_runtime_get_console_type(async_runtime_t *) { return (console_type_t)g_console_type; }

async_runtime_t *__wrap_async_runtime_init(void) { return (async_runtime_t *)&g_dummy_runtime; }

int __wrap_async_runtime_add(async_runtime_t *, socket_fd_t fd, uint32_t events, void *context) {
  if (fd == g_listen_fd) { g_listen_registered = true; g_listen_ctx = context; return 0; }
  User *u = user_by_fd(fd);
  if (u) { u->registered = true; u->reg = events; u->ctx = context; }
  return 0;
}
int __wrap_async_runtime_modify(async_runtime_t *, socket_fd_t fd, uint32_t events, void *context) {
  User *u = user_by_fd(fd);
  if (u && u->registered) {
    if (u->reg != events) emit("\"e\":\"Interest\",\"u\":" + jstr(u->name) + ",\"w\":" + ((events & EVENT_WRITE) ? "1" : "0"));
    u->reg = events; u->ctx = context; return 0;
  }
  errno = ENOENT; return -1;
}
int __wrap_async_runtime_remove(async_runtime_t *, socket_fd_t fd) {
  User *u = user_by_fd(fd);
  if (u) { u->registered = false; emit("\"e\":\"Unregistered\",\"u\":" + jstr(u->name)); g_fd2user.erase(fd); u->fd = -1; }
  return 0;
}
int __wrap_async_runtime_wakeup(async_runtime_t *) { return 0; }

int __wrap_async_runtime_wait(async_runtime_t *, io_event_t *events, int max_events, struct timeval *timeout) {
  char b[128];
  g_cycle++;
  // hung-up or unread users make a real epoll return immediately; so does a due wake-up.
  snprintf(b, sizeof b, "\"e\":\"Wait\",\"c\":%d,\"to\":%ld", g_cycle, timeout ? (long)timeout->tv_sec : -1L);
  if (g_log_wait) emit(b);
  project();
  g_extra_events.clear();
  bool more = false;
  while (g_pc < g_ops.size()) {
    const std::vector<std::string> &op = g_ops[g_pc++];
    more = true;
    if (do_op(op)) break;
    more = false;
  }
  if (!more && g_pc >= g_ops.size()) {
    // script exhausted: planned shutdown
    g_proceeding_shutdown = 1;
    emit("\"e\":\"ScriptEnd\"");
    return 0;
  }
  std::vector<io_event_t> evs;
  if (g_listen_registered && !g_pending_connects.empty()) {
    io_event_t ev; memset(&ev, 0, sizeof ev);
    ev.fd = g_listen_fd; ev.context = g_listen_ctx; ev.event_type = EVENT_READ;
    evs.push_back(ev);
  }
  for (auto &e : g_extra_events) evs.push_back(e);
  if (g_console_lines > 0) {
    io_event_t ev; memset(&ev, 0, sizeof ev);
    ev.fd = -1; ev.completion_key = CONSOLE_COMPLETION_KEY; ev.event_type = EVENT_READ; ev.bytes_transferred = g_console_lines;
    evs.push_back(ev); g_console_lines = 0;
  }
  std::vector<io_event_t> uevs;
  for (auto &kv : g_users) {
    User &u = kv.second;
    if (!u.registered) continue;
    uint32_t t = 0;
    if ((u.reg & EVENT_READ) && (!u.inq.empty() || u.eof || u.rst)) t |= EVENT_READ;
    if (u.hangup) { t |= EVENT_CLOSE; if (u.hangup_rd) t |= EVENT_READ; }
    if (u.reg & EVENT_WRITE) {
      bool writable = u.plan.empty() || u.plan.front() != "EWOULDBLOCK" || u.force_w;
      if (writable) t |= EVENT_WRITE;
    }
    u.force_w = false;
    if (!t) continue;
    io_event_t ev; memset(&ev, 0, sizeof ev);
    ev.fd = u.fd; ev.context = u.ctx; ev.event_type = t;
    uevs.push_back(ev);
  }
  if (g_rev_events) std::reverse(uevs.begin(), uevs.end());
  for (auto &e : uevs) evs.push_back(e);
  int n = 0;
  for (auto &e : evs) { if (n >= max_events) break; events[n++] = e; }
  return n;
}

} // extern "C"

// ------------------------------------------------------------------------------------------
static void child_main() {
  // run the scenario's ops at driver top level; "backend" hands the rest to the reactor
  while (g_pc < g_ops.size()) {
    const std::vector<std::string> &op = g_ops[g_pc++];
    do_op(op);
  }
  emit("\"e\":\"Done\"");
}

static std::vector<std::string> split(const std::string &l) {
  std::vector<std::string> v; std::istringstream is(l); std::string t;
  while (is >> t) v.push_back(t);
  return v;
}

static void sig_fpe(int) { signal(SIGFPE, sig_fpe); }   // as main.c installs it

// a stack frame of the driver's own code (wherever the tree was checked out), not of the harness / runtime libraries
static bool is_repo_frame(const std::string &file) {
  if (file.find("/harness/") != std::string::npos || file.find("sanitizer") != std::string::npos || file.find("sysdeps") != std::string::npos ||
      file.find("csu/") != std::string::npos || file.find("/usr/") != std::string::npos || file.find("/verif/") == 0) return false;
  return file.find(".c:") != std::string::npos || file.find(".y:") != std::string::npos || file.find(".cpp:") != std::string::npos || file.find(".h:") != std::string::npos;
}

int main(int argc, char **argv) {
  if (argc < 4) { fprintf(stderr, "usage: vdrv <conf> <script> <out> [timeout]\n"); return 2; }
  int tmo = argc > 4 ? atoi(argv[4]) : 20;
  bool nowarm = getenv("VDRV_NOWARM") != 0;      // scenarios that need their own master: init in the child
  setlocale(LC_ALL, "C.UTF-8");
  signal(SIGFPE, sig_fpe);
  signal(SIGPIPE, SIG_IGN);

  // read script
  std::vector<std::pair<std::string, std::vector<std::vector<std::string>>>> scen;
  {
    std::ifstream in(argv[2]); std::string l;
    while (std::getline(in, l)) {
      auto v = split(l);
      if (v.empty() || v[0][0] == '%') continue;
      if (v[0] == "reset") { scen.push_back({v.size() > 1 ? v[1] : "0", {}}); continue; }
      if (scen.empty()) scen.push_back({"0", {}});
      scen.back().second.push_back(v);
    }
  }

  auto init_driver = [&]() {
    init_stem(0, 0, argv[1]);
    init_config(MAIN_OPTION(config_file));
    if (chdir(CONFIG_STR(__MUD_LIB_DIR__)) != 0) { perror("chdir mudlib"); _exit(3); }
    init_strings(CONFIG_INT(__SHARED_STRING_HASH_TABLE_SIZE__), CONFIG_INT(__MAX_STRING_LENGTH__));
    init_lpc_compiler(CONFIG_INT(__MAX_LOCAL_VARIABLES__), CONFIG_STR(__INCLUDE_DIRS__));
    setup_simulate();
    eval_cost = CONFIG_INT(__MAX_EVAL_COST__);
    error_context_t econ;
    save_context(&econ);
    if (setjmp(econ.context)) {
      restore_context(&econ); pop_context(&econ);
      fprintf(stderr, "vdrv: error during mudlib startup\n"); _exit(4);
    }
    current_time = time(0);
    init_simul_efun(CONFIG_STR(__SIMUL_EFUN_FILE__));
    init_master(CONFIG_STR(__MASTER_FILE__));
    preload_objects(0);
    pop_context(&econ);
  };
  if (!nowarm) init_driver();

  FILE *out = fopen(argv[3], "w");
  if (!out) { perror(argv[3]); return 2; }
  int ntimeouts = 0;
  for (auto &sc : scen) {
    if (ntimeouts >= 3) {   // a driver that hangs in every scenario must not take hours: skip the rest
      fprintf(out, "{\"e\":\"Reset\",\"id\":\"%s\"}\n{\"e\":\"End\",\"id\":\"%s\",\"exit\":0,\"sig\":0,\"skipped\":1,\"nreports\":0,\"asan\":[]}\n", sc.first.c_str(), sc.first.c_str());
      continue;
    }
    int pfd[2];
    if (pipe(pfd) != 0) { perror("pipe"); return 2; }
    fflush(out);
    pid_t pid = fork();
    if (pid == 0) {
      close(pfd[0]);
      dup2(pfd[1], 2); close(pfd[1]);
      int dn = open("/dev/null", O_WRONLY); if (dn >= 0) { dup2(dn, 1); close(dn); }
      alarm(tmo);
      g_ops = sc.second; g_pc = 0;
      if (nowarm) init_driver();
      child_main();
      _exit(0);
    }
    close(pfd[1]);
    fprintf(out, "{\"e\":\"Reset\",\"id\":\"%s\"}\n", sc.first.c_str());
    // read child's stderr
    std::string buf, all; char tmp[65536]; ssize_t n;
    std::vector<std::string> san;   // sanitizer report lines
    bool flood = false;
    while ((n = read(pfd[0], tmp, sizeof tmp)) > 0) {
      if (all.size() < (64u << 20)) all.append(tmp, n);
      else if (!flood) { flood = true; kill(pid, SIGKILL); }
    }
    close(pfd[0]);
    int st = 0; waitpid(pid, &st, 0);
    if (const char *rawf = getenv("VDRV_RAW")) { FILE *rf = fopen(rawf, "a"); if (rf) { fwrite(all.data(), 1, all.size(), rf); fclose(rf); } }
    std::istringstream is(all); std::string l;
    std::string asan_kind; std::vector<std::string> frames; std::vector<std::string> reports;
    std::vector<std::string> other;
    auto flush_report = [&]() {
      if (asan_kind.empty()) return;
      std::string r = "{\"kind\":" + jstr(asan_kind) + ",\"frames\":[";
      for (size_t i = 0; i < frames.size() && i < 4; i++) { if (i) r += ","; r += jstr(frames[i]); }
      r += "]}";
      reports.push_back(r); asan_kind.clear(); frames.clear();
    };
    bool in_first_stack = false;
    int nlog = 0;
    std::string leak_tag; bool in_leakcheck = false; std::string leak_hdr; std::vector<std::string> leak_frames;
    auto flush_leak = [&]() {
      if (leak_hdr.empty()) return;
      std::string r = "{\"e\":\"Leak\",\"tag\":" + jstr(leak_tag) + ",\"what\":" + jstr(leak_hdr) + ",\"frames\":[";
      for (size_t i = 0; i < leak_frames.size() && i < 5; i++) { if (i) r += ","; r += jstr(leak_frames[i]); }
      fprintf(out, "%s]}\n", r.c_str());
      leak_hdr.clear(); leak_frames.clear();
    };
    while (std::getline(is, l)) {
      size_t p = l.find("@@H{");
      if (p == std::string::npos) p = l.find("@@V{");
      if (p != std::string::npos) { fprintf(out, "%s\n", l.c_str() + p + 3); continue; }
      size_t q;
      if ((q = l.find("@@LEAKCHECK-BEGIN")) != std::string::npos) { in_leakcheck = true; leak_tag = l.size() > q + 18 ? l.substr(q + 18) : ""; continue; }
      if (l.find("@@LEAKCHECK-END") != std::string::npos) { flush_leak(); in_leakcheck = false; continue; }
      if (in_leakcheck) {
        if (l.find("leak of ") != std::string::npos && l.find("allocated from") != std::string::npos) { flush_leak(); leak_hdr = l.substr(0, l.find(" allocated from")); continue; }
        size_t in = l.find(" in ");
        if (!leak_hdr.empty() && l.find("#") != std::string::npos && in != std::string::npos) {
          std::string rest = l.substr(in + 4);
          std::string fn = rest.substr(0, rest.find(' '));
          std::string file = rest.find(' ') != std::string::npos ? rest.substr(rest.find(' ') + 1) : "";
          if (is_repo_frame(file)) {
            size_t sl = file.rfind('/'); if (sl != std::string::npos) file = file.substr(sl + 1);
            size_t co = file.find(':'); if (co != std::string::npos) file = file.substr(0, co);
            leak_frames.push_back(fn + "@" + file);
          }
        }
        continue;
      }
      if ((q = l.find("ERROR: AddressSanitizer: ")) != std::string::npos) {
        flush_report();
        std::string k = l.substr(q + 25); size_t sp_ = k.find(' '); if (sp_ != std::string::npos) k = k.substr(0, sp_);
        asan_kind = k; in_first_stack = true; continue;
      }
      if ((q = l.find("runtime error: ")) != std::string::npos) {
        flush_report();
        // UBSan: file:line:col: runtime error: msg
        std::string file = l.substr(0, l.find(':'));
        size_t sl = file.rfind('/'); if (sl != std::string::npos) file = file.substr(sl + 1);
        std::string msg = l.substr(q + 15);
        // strip numbers/addresses so the signature is stable
        std::string m2; for (char c : msg) { if (!isdigit((unsigned char)c)) m2 += c; }
        if (m2.size() > 60) m2 = m2.substr(0, 60);
        asan_kind = "ubsan:" + m2; frames.push_back("@" + file); in_first_stack = false; flush_report(); continue;
      }
      if (!asan_kind.empty() && in_first_stack) {
        // "    #1 0x... in func /path/file.c:123"
        size_t in = l.find(" in ");
        if (l.find("#") != std::string::npos && in != std::string::npos) {
          std::string rest = l.substr(in + 4);
          std::string fn = rest.substr(0, rest.find(' '));
          std::string file = rest.find(' ') != std::string::npos ? rest.substr(rest.find(' ') + 1) : "";
          if (is_repo_frame(file)) {
            size_t sl = file.rfind('/'); if (sl != std::string::npos) file = file.substr(sl + 1);
            size_t co = file.find(':'); if (co != std::string::npos) file = file.substr(0, co);
            frames.push_back(fn + "@" + file);
          }
          continue;
        }
        if (l.empty() || l.find("0x") == 0 || l.find("allocated by") != std::string::npos || l.find("freed by") != std::string::npos || l.find("is located") != std::string::npos) {
          if (!frames.empty()) in_first_stack = false;
        }
      }
      // driver log lines (errors reported through debug_message), in order of appearance: C09 "reports the error"
      if (l.find("AddressSanitizer") == std::string::npos && l.find("==") != 0 && l.find("    #") != 0 && !l.empty() && nlog < 400) {
        const std::string &ol = l;
        if (ol.find("*") != std::string::npos || ol.find("rror") != std::string::npos || ol.find("heart beat") != std::string::npos ||
            ol.find("atal") != std::string::npos || ol.find("eval_cost") != std::string::npos) {
          nlog++;
          fprintf(out, "{\"e\":\"Log\",\"t\":%s}\n", jstr(ol.size() > 300 ? ol.substr(0, 300) : ol).c_str());
        }
      }
    }
    flush_report();
    std::string rep = "[";
    for (size_t i = 0; i < reports.size() && i < 8; i++) { if (i) rep += ","; rep += reports[i]; }
    rep += "]";
    int ex = WIFEXITED(st) ? WEXITSTATUS(st) : -1, sig = WIFSIGNALED(st) ? WTERMSIG(st) : 0;
    if (sig == SIGALRM || ex == 97 || flood) ntimeouts++;
    std::string rawtxt;
    if (!reports.empty()) { size_t q0 = all.find("ERROR: AddressSanitizer"); if (q0 == std::string::npos) q0 = all.find("runtime error"); if (q0 != std::string::npos) rawtxt = all.substr(q0 > 200 ? q0 - 200 : 0, 6000); }
    fprintf(out, "{\"e\":\"End\",\"id\":\"%s\",\"exit\":%d,\"sig\":%d,\"nreports\":%zu,\"asan\":%s,\"raw\":%s}\n", sc.first.c_str(), ex, sig, reports.size(), rep.c_str(), jstr(rawtxt).c_str());
  }
  fclose(out);
  return 0;
}
