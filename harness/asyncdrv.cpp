// asyncdrv — drives the REAL lib/async (epoll runtime, queue, worker) and lib/port timer.
//
// mode "replay <script> <out>": executes library calls in exactly the order TLC chose (every call is
//   atomic with respect to the kernel object / mutex it touches, so calling them in that order from one
//   thread realises the interleaving), one forked child per scenario, logging every result.
// mode "stress <seconds> <out>": real threads (built with -fsanitize=thread): producers post completions
//   and wake-ups and enqueue messages while the main thread waits / dequeues; workers and the timer are
//   created, stopped and joined at random moments; the merged result is written as trace events and
//   ThreadSanitizer reports go to stderr.
#include <cstdio>
#include <cstdlib>
#include <cstring>
#include <string>
#include <vector>
#include <sstream>
#include <fstream>
#include <map>
#include <atomic>
#include <thread>
#include <chrono>
#include <unistd.h>
#include <sys/wait.h>
#include <sys/time.h>
#include <pthread.h>

extern "C" {
#include "async/async_runtime.h"
#include "async/async_queue.h"
#include "async/async_worker.h"
#include "port/timer.h"
}

static std::vector<std::string> split(const std::string &l) { std::vector<std::string> v; std::istringstream is(l); std::string t; while (is >> t) v.push_back(t); return v; }

static void *worker_proc(void *ctx) {
  async_worker_t *self = async_worker_current();
  while (!async_worker_should_stop(self)) usleep(2000);
  return ctx;
}

// a worker that sleeps on its stop event instead of polling: a stop that arrives while it is blocked in the wait must
// still be seen by every later should_stop() (the stop event is manual-reset)
static void *worker_proc_sleep(void *ctx) {
  async_worker_t *self = async_worker_current();
  platform_event_t *ev = async_worker_get_stop_event(self);
  for (;;) {
    platform_event_wait(ev, 200);
    if (async_worker_should_stop(self)) break;
  }
  return ctx;
}
// ... and one that waits without a time limit and then goes on working for a moment, asking again before it leaves
static void *worker_proc_block(void *ctx) {
  async_worker_t *self = async_worker_current();
  platform_event_t *ev = async_worker_get_stop_event(self);
  platform_event_wait(ev, -1);
  while (!async_worker_should_stop(self)) usleep(2000);
  return ctx;
}

static double now_ms() { struct timeval tv; gettimeofday(&tv, 0); return tv.tv_sec * 1000.0 + tv.tv_usec / 1000.0; }

// a writer that may have to wait for room (policy BLOCK_WRITER): runs in its own thread
struct PendingEnq { std::thread th; std::atomic<int> done{0}; bool ok = false; std::string m; };

static void run_scenario(const std::vector<std::vector<std::string>> &ops, FILE *out) {
  async_runtime_t *rt = async_runtime_init();
  async_queue_t *q = 0;
  async_worker_t *w = 0;
  bool blocking = false;
  PendingEnq *pend = 0;
  auto wait_done = [&](int ms) { for (int i = 0; i < ms * 4 && !pend->done.load(); i++) usleep(250); return pend->done.load() != 0; };
  for (auto &op : ops) {
    const std::string &o = op[0];
    if (o == "enq" && q && blocking) {
      if (pend) continue;              // the generator never enqueues while a writer waits
      pend = new PendingEnq; pend->m = op[1];
      PendingEnq *pe = pend; async_queue_t *qq = q;
      pend->th = std::thread([pe, qq]() { pe->ok = async_queue_enqueue(qq, pe->m.c_str(), pe->m.size() + 1); pe->done.store(1); });
      if (wait_done(150)) {
        pend->th.join();
        fprintf(out, "{\"e\":\"Enq\",\"m\":\"%s\",\"ok\":%s}\n", pend->m.c_str(), pend->ok ? "true" : "false");
        delete pend; pend = 0;
      } else fprintf(out, "{\"e\":\"EnqBlocked\",\"m\":\"%s\"}\n", pend->m.c_str());
      fflush(out);
      continue;
    }
    if (o == "post") {
      int r = async_runtime_post_completion(rt, (uintptr_t)atoll(op[1].c_str()), (uintptr_t)atoll(op[2].c_str()));
      fprintf(out, "{\"e\":\"Post\",\"key\":%s,\"data\":%s,\"ret\":%d}\n", op[1].c_str(), op[2].c_str(), r);
    } else if (o == "wake") {
      async_runtime_wakeup(rt);
      fprintf(out, "{\"e\":\"Wake\"}\n");
    } else if (o == "wait") {
      io_event_t evs[64];
      struct timeval tv = {0, 0};
      int maxev = op.size() > 1 ? atoi(op[1].c_str()) : 64;
      if (maxev < 1 || maxev > 64) maxev = 64;
      int n = async_runtime_wait(rt, evs, maxev, &tv);
      std::string l = "{\"e\":\"Wait\",\"events\":[";
      int nwake = 0; bool first = true;
      for (int i = 0; i < n; i++) {
        if (evs[i].completion_key == 0 && evs[i].context == 0) { nwake++; continue; }
        char b[96]; snprintf(b, sizeof b, "%s[%llu,%llu]", first ? "" : ",", (unsigned long long)evs[i].completion_key, (unsigned long long)evs[i].bytes_transferred);
        l += b; first = false;
      }
      l += "],\"nwake\":" + std::to_string(nwake) + ",\"full\":" + (n == maxev ? "true" : "false") + ",\"ret\":" + std::to_string(n) + "}";
      fprintf(out, "%s\n", l.c_str());
    } else if (o == "qcreate") {
      if (q) async_queue_destroy(q);
      int cap = atoi(op[1].c_str()); bool drop = op[2] == "drop";
      blocking = op[2] == "block";
      q = async_queue_create(cap, 64, drop ? ASYNC_QUEUE_DROP_OLDEST : blocking ? ASYNC_QUEUE_BLOCK_WRITER : (async_queue_flags_t)0);
      fprintf(out, "{\"e\":\"QCreate\",\"cap\":%d,\"policy\":\"%s\"}\n", cap, op[2].c_str());
    } else if (o == "enq" && q) {
      bool ok = async_queue_enqueue(q, op[1].c_str(), op[1].size() + 1);
      fprintf(out, "{\"e\":\"Enq\",\"m\":\"%s\",\"ok\":%s}\n", op[1].c_str(), ok ? "true" : "false");
    } else if (o == "deq" && q) {
      char buf[64]; size_t sz = 0; buf[0] = 0;
      bool ok = async_queue_dequeue(q, buf, sizeof buf, &sz);
      fprintf(out, "{\"e\":\"Deq\",\"m\":\"%s\",\"ok\":%s}\n", ok ? buf : "", ok ? "true" : "false");
      if (pend && ok) {                // a dequeue made room: the waiting writer must get through now
        bool fin = wait_done(3000);
        fprintf(out, "{\"e\":\"EnqResumed\",\"m\":\"%s\",\"ok\":%s}\n", pend->m.c_str(), fin && pend->ok ? "true" : "false");
        if (fin) { pend->th.join(); delete pend; } else pend->th.detach();
        pend = 0;
      }
    } else if (o == "qstats" && q) {
      async_queue_stats_t st; async_queue_get_stats(q, &st);
      fprintf(out, "{\"e\":\"QStats\",\"size\":%zu,\"dropped\":%llu}\n", st.current_size, (unsigned long long)st.dropped_count);
    } else if (o == "wcreate") {
      std::string kind = op.size() > 1 ? op[1] : "poll";
      w = async_worker_create(kind == "sleep" ? worker_proc_sleep : kind == "block" ? worker_proc_block : worker_proc, 0, 0);
      if (kind != "poll") usleep(20000);          // let it reach its wait
      fprintf(out, "{\"e\":\"WCreate\"}\n");
    } else if (o == "wstop" && w) {
      async_worker_signal_stop(w);
      fprintf(out, "{\"e\":\"WStop\"}\n");
    } else if (o == "wjoin" && w) {
      bool lng = op[1] == "long";
      int ms = lng ? 3000 : 30;
      double t0 = now_ms();
      alarm(10);                       // a join that hangs kills this child: reported as returned=false by the parent
      bool ok = async_worker_join(w, ms);
      alarm(0);
      double dt = now_ms() - t0;
      fprintf(out, "{\"e\":\"WJoin\",\"returned\":true,\"ok\":%s,\"long\":%s,\"ms\":%d,\"elapsed\":%.0f}\n", ok ? "true" : "false", lng ? "true" : "false", ms, dt);
    } else if (o == "wdestroy" && w) {
      async_worker_destroy(w); w = 0;
      fprintf(out, "{\"e\":\"WDestroy\"}\n");
    } else if (o == "sleep") {
      usleep(atoi(op[1].c_str()) * 1000);
    }
    fflush(out);
  }
  if (pend) pend->th.detach();
}

static int replay(const char *script, const char *outf) {
  std::vector<std::pair<std::string, std::vector<std::vector<std::string>>>> scen;
  std::ifstream in(script); std::string l;
  while (std::getline(in, l)) {
    auto v = split(l);
    if (v.empty()) continue;
    if (v[0] == "reset") { scen.push_back({v.size() > 1 ? v[1] : "0", {}}); continue; }
    if (scen.empty()) scen.push_back({"0", {}});
    scen.back().second.push_back(v);
  }
  FILE *out = fopen(outf, "w");
  int hangs = 0;
  for (auto &sc : scen) {
    fprintf(out, "{\"e\":\"Reset\",\"id\":\"%s\"}\n", sc.first.c_str());
    fflush(out);
    if (hangs >= 3) {   // every hang costs 10 s: three are enough to report, the rest of the batch is skipped
      fprintf(out, "{\"e\":\"End\",\"id\":\"%s\",\"exit\":0,\"sig\":0,\"skipped\":true}\n", sc.first.c_str());
      continue;
    }
    pid_t pid = fork();
    if (pid == 0) { run_scenario(sc.second, out); fflush(out); _exit(0); }
    int st = 0; waitpid(pid, &st, 0);
    if (WIFSIGNALED(st) && WTERMSIG(st) == SIGALRM) hangs++;
    if (WIFSIGNALED(st) && WTERMSIG(st) == SIGALRM) fprintf(out, "{\"e\":\"WJoin\",\"returned\":false,\"ok\":false,\"long\":true,\"ms\":0,\"elapsed\":10000}\n");
    fprintf(out, "{\"e\":\"End\",\"id\":\"%s\",\"exit\":%d,\"sig\":%d}\n", sc.first.c_str(), WIFEXITED(st) ? WEXITSTATUS(st) : -1, WIFSIGNALED(st) ? WTERMSIG(st) : 0);
    fflush(out);
  }
  fclose(out);
  return 0;
}

// ------------------------------------------------------------------------------------------------
static std::atomic<int> g_timer_ticks{0};
static std::atomic<bool> g_timer_allowed{true};
static std::atomic<int> g_timer_after_stop{0};
static void timer_cb(void) { g_timer_ticks++; if (!g_timer_allowed.load()) g_timer_after_stop++; }

static int stress(int seconds, const char *outf) {
  FILE *out = fopen(outf, "w");
  async_runtime_t *rt = async_runtime_init();
  async_queue_t *q = async_queue_create(64, 32, (async_queue_flags_t)0);
  async_queue_t *qb = async_queue_create(4, 32, ASYNC_QUEUE_BLOCK_WRITER);   // writers wait for room: nothing may be lost
  const int NP = 4;
  std::atomic<bool> stop{false};
  std::atomic<long> posted{0}, enq_ok{0}, enqb_ok{0};
  std::vector<std::thread> th;
  std::vector<std::vector<long>> deq_seen(NP);
  for (int p = 0; p < NP; p++) {
    th.emplace_back([&, p]() {
      long n = 0;
      while (!stop.load()) {
        n++;
        if (async_runtime_post_completion(rt, (uintptr_t)(1000 + p), (uintptr_t)n) == 0) posted++;
        if (n % 7 == 0) async_runtime_wakeup(rt);
        char m[32]; snprintf(m, sizeof m, "%d:%ld", p, n);
        if (async_queue_enqueue(q, m, strlen(m) + 1)) enq_ok++;
        if (n % 5 == 0 && async_queue_enqueue(qb, m, strlen(m) + 1)) enqb_ok++;
        if (n % 64 == 0) std::this_thread::sleep_for(std::chrono::microseconds(200));
      }
    });
  }
  // worker / timer lifecycle thread
  long lifecycle = 0, join_fail = 0;
  th.emplace_back([&]() {
    while (!stop.load()) {
      async_worker_t *w = async_worker_create(lifecycle % 4 == 1 ? worker_proc_sleep : lifecycle % 4 == 3 ? worker_proc_block : worker_proc, 0, 0);
      if (lifecycle % 3 == 0) std::this_thread::sleep_for(std::chrono::milliseconds(1));
      async_worker_signal_stop(w);
      if (!async_worker_join(w, 2000)) join_fail++;
      async_worker_destroy(w);
      platform_timer_t t = {0};
      if (platform_timer_init(&t) == TIMER_OK) {
        g_timer_allowed = true;
        platform_timer_start(&t, 500, timer_cb);
        std::this_thread::sleep_for(std::chrono::milliseconds(2));
        platform_timer_stop(&t);
        g_timer_allowed = false;       // no callback may run after stop returned
        std::this_thread::sleep_for(std::chrono::milliseconds(1));
        platform_timer_cleanup(&t);
      }
      lifecycle++;
    }
  });
  // consumer = this thread
  std::map<std::pair<long, long>, int> got;
  long delivered = 0, merged_or_unknown = 0, deq = 0, fifo_viol = 0, deqb = 0, fifob_viol = 0;
  std::vector<long> last(NP, 0), lastb(NP, 0);
  double tend = now_ms() + seconds * 1000.0;
  auto drain = [&]() {
    io_event_t evs[64];
    struct timeval tv = {0, 2000};
    int n = async_runtime_wait(rt, evs, 64, &tv);
    for (int i = 0; i < n; i++) {
      if (evs[i].completion_key == 0) continue;
      long k = (long)evs[i].completion_key, d = (long)evs[i].bytes_transferred;
      if (k < 1000 || k >= 1000 + NP) { merged_or_unknown++; continue; }
      if (++got[{k, d}] > 1) merged_or_unknown++;
      delivered++;
    }
    char buf[32]; size_t sz;
    while (async_queue_dequeue(q, buf, sizeof buf, &sz)) {
      int p; long n2;
      if (sscanf(buf, "%d:%ld", &p, &n2) == 2 && p >= 0 && p < NP) { if (n2 <= last[p]) fifo_viol++; last[p] = n2; }
      deq++;
    }
    while (async_queue_dequeue(qb, buf, sizeof buf, &sz)) {
      int p; long n2;
      if (sscanf(buf, "%d:%ld", &p, &n2) == 2 && p >= 0 && p < NP) { if (n2 <= lastb[p]) fifob_viol++; lastb[p] = n2; } else fifob_viol++;
      deqb++;
    }
    return n;
  };
  while (now_ms() < tend) drain();
  stop = true;
  std::atomic<bool> joined{false};
  std::thread joiner([&]() { for (auto &t : th) t.join(); joined = true; });
  while (!joined.load()) drain();        // writers waiting for room in qb need the consumer to go on
  joiner.join();
  for (int idle = 0; idle < 3;) { if (drain() == 0 && async_queue_is_empty(q) && async_queue_is_empty(qb)) idle++; else idle = 0; }
  fprintf(out, "{\"e\":\"Stress\",\"posted\":%ld,\"delivered\":%ld,\"bad_events\":%ld,\"enq_ok\":%ld,\"deq\":%ld,\"fifo_viol\":%ld,\"enqb_ok\":%ld,\"deqb\":%ld,\"fifob_viol\":%ld,\"lifecycles\":%ld,\"join_fail\":%ld,\"timer_ticks\":%d,\"timer_after_stop\":%d}\n",
          posted.load(), delivered, merged_or_unknown, enq_ok.load(), deq, fifo_viol, enqb_ok.load(), deqb, fifob_viol, lifecycle, join_fail, g_timer_ticks.load(), g_timer_after_stop.load());
  fclose(out);
  return 0;
}

int main(int argc, char **argv) {
  if (argc >= 4 && !strcmp(argv[1], "replay")) return replay(argv[2], argv[3]);
  if (argc >= 4 && !strcmp(argv[1], "stress")) return stress(atoi(argv[2]), argv[3]);
  fprintf(stderr, "usage: asyncdrv replay <script> <out> | stress <seconds> <out>\n");
  return 2;
}
