// C08: runs hook scripts on behalf of world objects, so that logging goes on even when the
// hooked object destructs itself in the middle of its own hook.
#include "/sc.h"
void create() { seteuid(getuid()); }
void hook(string ident, string k, string ops) {
  vlog("\"e\":\"Hook\",\"ob\":" + jq(ident) + ",\"k\":" + jq(k));
  do_ops(replace_string(ops, ":me", ":" + ident), k);
  vlog("\"e\":\"HookEnd\",\"ob\":" + jq(ident) + ",\"k\":" + jq(k));
}
void go(string ident, object who, object dest, string k) {
  vlog("\"e\":\"Hook\",\"ob\":" + jq(ident) + ",\"k\":" + jq(k));
  if (dest) wmove(who, dest, k);
  vlog("\"e\":\"HookEnd\",\"ob\":" + jq(ident) + ",\"k\":" + jq(k));
}
