// scenario interpreter glue
#define MASTER master()
inherit "/sclib";
