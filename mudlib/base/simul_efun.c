// verification mudlib: simul efuns shared by all scenario objects

// one trace event: body is the inside of a JSON object, e.g. "\"e\":\"Fire\",\"ob\":\"o1\""
void vlog(string body) {
  debug_message("@@V{" + body + "}");
}

string jq(mixed s) {
  if (intp(s)) return "" + s;
  if (!stringp(s)) return "\"?\"";
  s = replace_string(s, "\\", "\\\\");
  s = replace_string(s, "\"", "\\\"");
  return "\"" + s + "\"";
}

// short name of an object: the "o1" of "/obj/co#3" as registered with the registry
string short_name(object ob) {
  mixed n;
  if (!ob) return "0";
  n = "/reg"->name_of(ob);
  if (n) return n;
  return file_name(ob);
}

// injected fault: log which task raises, then raise
void vfail(string task, string who) {
  vlog("\"e\":\"Raise\",\"ctx\":" + jq(task) + ",\"ob\":" + jq(who));
  error("injected fault in " + task + "\n");
}
