// verification mudlib: simul efuns shared by all scenario objects

// one trace event: body is the inside of a JSON object, e.g. "\"e\":\"Fire\",\"ob\":\"o1\""
void vlog(string body) {
  debug_message("@@V{" + body + "}");
}

string jq(mixed s) {
  if (intp(s)) return "" + s;
  if (!stringp(s)) return "\"?\"";
  s = replace_string(s, "\\", "\\\\");
  s = replace_string(s, "\"", "\\\"");
  return "\"" + s + "\"";
}

// short name of an object: the "o1" of "/obj/co#3" as registered with the registry
string short_name(object ob) {
  mixed n;
  if (!ob) return "0";
  n = "/reg"->name_of(ob);
  if (n) return n;
  return file_name(ob);
}

// injected fault: log which task raises, then raise
void vfail(string task, string who) {
  vlog("\"e\":\"Raise\",\"ctx\":" + jq(task) + ",\"ob\":" + jq(who));
  error("injected fault in " + task + "\n");
}
// canonical tagged encoding of any value (JSON text); mapping entries sorted by the encoding of their keys
string vhex(string s) {
  string o = "";
  int i, c;
  for (i = 0; i < strlen(s); i++) { c = s[i] & 255; o += sprintf("%02x", c); }
  return o;
}
// floats as 6 significant digits in scientific notation (the driver's sprintf knows only %f)
string vfloat(float v) {
  int e = 0, n = 0;
  string sg = "";
  if (v == 0.0) return "0";
  if (v < 0.0) { sg = "-"; v = -v; }
  while (v >= 10.0 && n++ < 400) { v /= 10.0; e++; }
  while (v < 1.0 && n++ < 400) { v *= 10.0; e--; }
  return sg + sprintf("%.5f", v) + "e" + e;
}
string venc(mixed v) {
  string s; int i; mixed *k;
  if (undefinedp(v)) return "{\"t\":\"undef\"}";
  if (intp(v)) return "{\"t\":\"int\",\"v\":\"" + v + "\"}";
  if (floatp(v)) return "{\"t\":\"float\",\"v\":\"" + vfloat(v) + "\"}";
  if (stringp(v)) return "{\"t\":\"str\",\"v\":\"" + vhex(v) + "\"}";
  if (bufferp(v)) { s = ""; for (i = 0; i < sizeof(v); i++) s += sprintf("%02x", v[i]); return "{\"t\":\"buf\",\"v\":\"" + s + "\"}"; }
  if (classp(v)) return "{\"t\":\"class\"}";
  if (arrayp(v)) {
    s = "";
    for (i = 0; i < sizeof(v); i++) { if (i) s += ","; s += venc(v[i]); }
    return "{\"t\":\"arr\",\"v\":[" + s + "]}";
  }
  if (mapp(v)) {
    k = sort_array(map_array(keys(v), (: ({ venc($1), $1 }) :)), (: strcmp($1[0], $2[0]) :));
    s = "";
    for (i = 0; i < sizeof(k); i++) { if (i) s += ","; s += "[" + k[i][0] + "," + venc(v[k[i][1]]) + "]"; }
    return "{\"t\":\"map\",\"v\":[" + s + "]}";
  }
  if (objectp(v)) return "{\"t\":\"obj\",\"v\":\"" + file_name(v) + "\"}";
  if (functionp(v)) return "{\"t\":\"fun\"}";
  return "{\"t\":\"other\"}";
}
// @C17-BEGIN@
string c17_sver() { return "S1"; }
// @C17-END@
