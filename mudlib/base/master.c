// verification mudlib: master object. Policy is data (set by scenarios), every apply is logged
// when the corresponding log flag is on.
mapping policy = ([ ]);
int log_applies = 0;

void create() { policy["creator"] = ([ "d1" : "d1", "d2" : "d2", "bb" : "Backbone" ]); }

void set_policy(string k, mixed v) { policy[k] = v; }
mixed query_policy(string k) { return policy[k]; }
void set_log(int v) { log_applies = v; }

object connect(int port) {
  object ob;
  if (policy["connect_error"]) { policy["connect_error"] = 0; vfail("connect", "master"); }
  if (policy["connect_refuse"]) return 0;
  ob = new("/user.c");
  return ob;
}

string creator_file(string file) {
  mixed m;
  if (log_applies) vlog("\"e\":\"Ask\",\"apply\":\"creator_file\",\"file\":" + jq(file));
  m = policy["creator"];
  if (mapp(m)) {
    string *parts = explode(file, "/") - ({ "" });
    if (sizeof(parts) > 1 && !undefinedp(m[parts[0]])) return m[parts[0]];
  }
  return "Root";
}
// virtual objects: names under .../virt/ have no file; the master makes them (C20: an object without euid must not get one made)
object compile_object(string file) {
  if (strsrch(file, "virt/") == -1) return 0;
  vlog("\"e\":\"CompileObject\",\"file\":" + jq(file));
  return new("/d1/ob");
}
string get_root_uid() { return "Root"; }
string get_bb_uid() { return policy["backbone"] ? policy["backbone"] : "Backbone"; }

int valid_seteuid(object ob, string newuid) {
  mixed p = policy["seteuid"];
  int r;
  if (!p || p == "allow") r = 1;
  else if (p == "deny") r = 0;
  else if (p == "own") r = (newuid == getuid(ob));
  else r = 1;
  if (log_applies) vlog("\"e\":\"Ask\",\"apply\":\"valid_seteuid\",\"ob\":" + jq(file_name(ob)) + ",\"uid\":" + jq(newuid) + ",\"r\":" + r);
  return r;
}

mixed valid_read(string path, mixed caller, string fn) {
  mixed p = policy["read"];
  if (log_applies) vlog("\"e\":\"Ask\",\"kind\":\"read\",\"path\":" + jq(path) + ",\"op\":" + jq(fn) + ",\"pol\":" + jq(p ? p : "allow"));
  if (!p || p == "allow") return 1;
  if (p == "deny") return 0;
  return p;   // rewrite
}
mixed valid_write(string path, mixed caller, string fn) {
  mixed p = policy["write"];
  if (log_applies) vlog("\"e\":\"Ask\",\"kind\":\"write\",\"path\":" + jq(path) + ",\"op\":" + jq(fn) + ",\"pol\":" + jq(p ? p : "allow"));
  if (!p || p == "allow") return 1;
  if (p == "deny") return 0;
  return p;
}
int valid_save_binary(string file) { return policy["save_binary"] ? 1 : 0; }
int valid_bind(object a, object b, object c) { return 1; }
int valid_object(object ob) { return 1; }
int valid_override(string file, string name) { return 1; }
int valid_shadow(object ob) { return 1; }
int valid_hide(object ob) { return 1; }
int valid_link(string a, string b) { return policy["link"] == "deny" ? 0 : 1; }
int valid_socket(object ob, string fn, mixed *info) { return 1; }

string *epilog(int x) { return ({ }); }
void preload(string f) { }

// error_handler: log the mapping the driver passes (file, line, program, object, trace)
mixed error_handler(mapping m, int caught) {
  string tr = "";
  mixed *t;
  int i;
  if (policy["eh_error"]) error("error_handler fails\n");   /* the handler itself fails: not a task error of its own */
  if (policy["eh_catch"]) { catch(tr = "x" + 1); catch(error("inside the handler\n")); tr = ""; }   /* a handler that uses catch itself */
  t = m["trace"];
  if (arrayp(t)) {
    for (i = 0; i < sizeof(t); i++) {
      if (i) tr += ",";
      tr += "[" + jq(t[i]["function"]) + "," + jq(t[i]["program"]) + "," + jq(objectp(t[i]["object"]) ? file_name(t[i]["object"]) : "0")
         + "," + jq(t[i]["file"]) + "," + t[i]["line"] + "]";
    }
  }
  vlog("\"e\":\"Reported\",\"caught\":" + caught + ",\"err\":" + jq(replace_string(m["error"], "\n", "")) +
       ",\"file\":" + jq(m["file"]) + ",\"line\":" + m["line"] +
       ",\"prog\":" + jq(m["program"] ? m["program"] : "") +
       ",\"ob\":" + jq(objectp(m["object"]) ? file_name(m["object"]) : "0") +
       ",\"trace\":[" + tr + "]");
  if (policy["eh_silent"]) return "";
  return 0;
}

int log_compile = 0;
void set_clog(int v) { log_compile = v; }
void log_error(string file, string msg) {
  if (log_applies || log_compile) vlog("\"e\":\"CompileErr\",\"file\":" + jq(file) + ",\"msg\":" + jq(replace_string(msg, "\n", "")));
}

void crash(string a, mixed b, mixed c) { vlog("\"e\":\"Crash\",\"why\":" + jq(a)); }
