// verification mudlib: the scenario interpreter. An object executes op lists given as data,
// at top level (from a user command) or from inside a hook (call_out callback, heart_beat,
// create, init, move_or_destruct, efun callback).  Ops are ';'-separated, fields ':'-separated.
//   set=KEY=op|op|...     script run when hook KEY fires (KEY = call_out id, "hb", "init", ...)
//   co:F:D:ID             call_out("cbF", D, ID)
//   rmn:F  rmh:ID         remove_call_out by name / by the handle of ID
//   fdn:F  fdh:ID         find_call_out
//   err                   raise an uncaught error
//   dest:O                destruct object O ("me" = this object)
//   hb:O:N                O->set_heart_beat(N)
//   mk:O:FILE             clone FILE and register it as O
//   say:TEXT              write TEXT to this_player()
#ifndef MASTER
#define MASTER master()
#endif
mapping scripts = ([ ]);
mapping handles = ([ ]);
int hbcount = 0;

string me() { return short_name(this_object()); }
object ob_of(string n) { if (n == "me") return this_object(); if (n[0] == '/') return find_object(n); return "/reg"->get(n); }

string to_hex(string s) {
  string o = "";
  int i, c;
  for (i = 0; i < strlen(s); i++) { c = s[i] & 255; o += sprintf("%02x", c); }
  return o;
}

void do_ops(string ops, string ctx);

string nm(object o) { return o ? short_name(o) : "0"; }

// C08: logged move of o into d
void wmove(object o, object d, string ctx) {
  mixed err;
  string on = nm(o), dn = nm(d);
  vlog("\"e\":\"MoveTry\",\"ctx\":" + jq(ctx) + ",\"ob\":" + jq(on) + ",\"d\":" + jq(dn));
  err = catch(o->mv_to(d));
  if (err) vlog("\"e\":\"Raise\",\"ctx\":\"caught\",\"ob\":" + jq(on));
  vlog("\"e\":\"MoveRes\",\"ob\":" + jq(on) + ",\"d\":" + jq(dn) + ",\"ok\":" + (err ? 0 : 1));
}

// C08: what LPC code can see of every registered object
void wview() {
  mapping all = "/reg"->all();
  string *ks = keys(all);
  string s = "";
  object o, *inv;
  int i, j;
  string iv;
  for (i = 0; i < sizeof(ks); i++) {
    o = all[ks[i]];
    if (s != "") s += ",";
    if (!o) { s += "[" + jq(ks[i]) + ",0,\"0\",[],0]"; continue; }
    inv = all_inventory(o);
    iv = "";
    for (j = 0; j < sizeof(inv); j++) { if (j) iv += ","; iv += jq(nm(inv[j])); }
    s += "[" + jq(ks[i]) + ",1," + jq(nm(environment(o))) + ",[" + iv + "]," + (find_object(file_name(o)) == o ? 1 : 0) + "]";
  }
  vlog("\"e\":\"View\",\"l\":[" + s + "]");
}

// log uid / euid of every registered object
void uid_snapshot() {
  mapping all = "/reg"->all();
  string *ks = keys(all);
  string s = "";
  int i;
  mixed eu;
  for (i = 0; i < sizeof(ks); i++) {
    if (!all[ks[i]]) continue;
    eu = geteuid(all[ks[i]]);
    if (s != "") s += ",";
    s += "[" + jq(ks[i]) + "," + jq(getuid(all[ks[i]])) + "," + jq(eu ? eu : "0") + "]";
  }
  vlog("\"e\":\"Uids\",\"l\":[" + s + "]");
}

// deterministic message text; tools/c14.py builds the same text
string make_msg(int m, int len, string pat) {
  string base = "abcdefghijklmnopqrstuvwxyz";
  string rot, s, hd;
  int r = m % 26, i, k;
  rot = base[r..] + base[0..r-1];
  if (r == 0) rot = base;
  hd = "<" + m + ">";
  s = hd + repeat_string(rot, len / 26 + 2);
  s = s[0..len-1];
  if (pat == "l") { if (len > strlen(hd)) s[len-1] = '\n'; }
  else if (pat[0] == 'k') {
    k = to_int(pat[1..]);
    for (i = k - 1; i < len; i += k) if (i >= strlen(hd)) s[i] = '\n';
  }
  return s;
}

void set_script(string k, string ops) { scripts[k] = ops; }
void hb_set(int n) { set_heart_beat(n); }
int hb_query() { return query_heart_beat(this_object()); }

void do_op(string op, string ctx) {
  string *f;
  string k, rest;
  int r, h;
  object o;
  if (op == "") return;
  if (sscanf(op, "set=%s=%s", k, rest) == 2) { scripts[k] = replace_string(rest, "|", ";"); return; }
  if (sscanf(op, "oset=%s=%s=%s", k, rest, op) == 3) {   // oset=O=KEY=ops : set a script on another object
    o = ob_of(k); if (o) o->set_script(rest, replace_string(op, "|", ";")); return;
  }
  f = explode(op, ":");
  switch (f[0]) {
  case "co":
    h = call_out("cb" + f[1], to_int(f[2]), f[3]);
    "/reg"->set_handle(f[3], h);
    vlog("\"e\":\"Sched\",\"ctx\":" + jq(ctx) + ",\"ob\":" + jq(me()) + ",\"fn\":" + jq(f[1]) + ",\"d\":" + to_int(f[2]) + ",\"id\":" + jq(f[3]) + ",\"h\":" + h);
    break;
  case "rmn":
    r = remove_call_out("cb" + f[1]);
    vlog("\"e\":\"Rm\",\"ctx\":" + jq(ctx) + ",\"by\":\"name\",\"ob\":" + jq(me()) + ",\"fn\":" + jq(f[1]) + ",\"ret\":" + r);
    break;
  case "rmh":
    r = remove_call_out("/reg"->get_handle(f[1]));
    vlog("\"e\":\"Rm\",\"ctx\":" + jq(ctx) + ",\"by\":\"handle\",\"ob\":" + jq(me()) + ",\"id\":" + jq(f[1]) + ",\"ret\":" + r);
    break;
  case "fdn":
    r = find_call_out("cb" + f[1]);
    vlog("\"e\":\"Fd\",\"ctx\":" + jq(ctx) + ",\"by\":\"name\",\"ob\":" + jq(me()) + ",\"fn\":" + jq(f[1]) + ",\"ret\":" + r);
    break;
  case "fdh":
    r = find_call_out("/reg"->get_handle(f[1]));
    vlog("\"e\":\"Fd\",\"ctx\":" + jq(ctx) + ",\"by\":\"handle\",\"ob\":" + jq(me()) + ",\"id\":" + jq(f[1]) + ",\"ret\":" + r);
    break;
  case "err":
    vlog("\"e\":\"Raise\",\"ctx\":" + jq(ctx) + ",\"ob\":" + jq(me()));
    error("scenario error\n");
    break;
  case "dest":
    o = ob_of(f[1]);
    vlog("\"e\":\"Dest\",\"ctx\":" + jq(ctx) + ",\"by\":" + jq(me()) + ",\"ob\":" + jq(f[1]) + ",\"live\":" + (o ? 1 : 0));
    if (o) destruct(o);
    break;
  case "hb":
    o = ob_of(f[1]);
    if (o) {
      o->hb_set(to_int(f[2]));
      vlog("\"e\":\"SetHB\",\"ctx\":" + jq(ctx) + ",\"by\":" + jq(me()) + ",\"ob\":" + jq(f[1]) + ",\"n\":" + to_int(f[2]));
    } else
      vlog("\"e\":\"SetHBDead\",\"ctx\":" + jq(ctx) + ",\"by\":" + jq(me()) + ",\"ob\":" + jq(f[1]));
    break;
  case "mk":
    o = new(f[2]);
    "/reg"->put(f[1], o);
    vlog("\"e\":\"Mk\",\"ctx\":" + jq(ctx) + ",\"by\":" + jq(me()) + ",\"ob\":" + jq(f[1]) + ",\"file\":" + jq(f[2]) + ",\"fname\":" + jq(file_name(o)));
    break;
  case "getc":
    vlog("\"e\":\"GetC\",\"u\":" + jq(me()));
    get_char("gc_cb");
    break;
  case "inputto":
    vlog("\"e\":\"InputTo\",\"u\":" + jq(me()));
    input_to("it_cb");
    break;
  case "exec":     // hand the connection over to a fresh user object (login object -> body), keeping the name
    o = new("/user");
    o->set_uname(this_object()->query_uname());
    "/reg"->put(this_object()->query_uname(), o);
    vlog("\"e\":\"Exec\",\"u\":" + jq(me()));
    exec(o, this_object());
    o->take_over();
    break;
  case "force":
    for (r = 0; r < to_int(f[1]); r++) { vlog("\"e\":\"Forced\",\"u\":" + jq(me()) + ",\"i\":" + r); command("x forced" + r); }
    break;
  case "wr":     // wr:M:LEN:PAT  write message number M of LEN bytes with line feeds by pattern PAT
    vlog("\"e\":\"Wr\",\"u\":" + jq(me()) + ",\"m\":" + to_int(f[1]) + ",\"len\":" + to_int(f[2]) + ",\"pat\":" + jq(f[3]));
    write(make_msg(to_int(f[1]), to_int(f[2]), f[3]));
    vlog("\"e\":\"WrEnd\",\"u\":" + jq(me()) + ",\"m\":" + to_int(f[1]));
    break;
  case "pol":      // pol:KEY:VALUE  set a master policy (numbers as ints)
    if (f[2] == "0") MASTER->set_policy(f[1], 0);
    else if (to_int(f[2]) != 0) MASTER->set_policy(f[1], to_int(f[2]));
    else MASTER->set_policy(f[1], f[2]);
    break;
  case "sreset":   // sreset:O:N  schedule reset() of O in N seconds
    o = ob_of(f[1]); if (o) set_reset(o, to_int(f[2]));
    break;
  case "quit":
    vlog("\"e\":\"Quit\",\"u\":" + jq(me()));
    remove_interactive(this_object());
    break;
  case "new":     // new:NAME:FILE   clone FILE from this object (uid rules apply to this object as the loader)
  case "ld":      // ld:NAME:FILE    load FILE from this object
    rest = catch(o = (f[0] == "new" ? new(f[2]) : load_object(f[2])));
    if (rest || !o)
      vlog("\"e\":\"CreateRefused\",\"by\":" + jq(me()) + ",\"file\":" + jq(f[2]));
    else {
      "/reg"->put(f[1], o);
      vlog("\"e\":\"Create\",\"by\":" + jq(me()) + ",\"ob\":" + jq(f[1]) + ",\"file\":" + jq(f[2]) + ",\"fname\":" + jq(file_name(o)));
    }
    uid_snapshot();
    break;
  case "seu":     // seu:X   seteuid(X) ; X = 0 | own | a uid
    if (f[1] == "0") r = seteuid(0);
    else r = seteuid(f[1] == "own" ? getuid(this_object()) : f[1]);
    vlog("\"e\":\"Seteuid\",\"ob\":" + jq(me()) + ",\"x\":" + jq(f[1] == "own" ? getuid(this_object()) : f[1]) + ",\"ret\":" + r);
    uid_snapshot();
    break;
  case "exp":     // exp:TARGET   export_uid(TARGET)
    o = ob_of(f[1]);
    if (!o) break;
    rest = catch(r = export_uid(o));
    if (rest) vlog("\"e\":\"ExportErr\",\"from\":" + jq(me()) + ",\"to\":" + jq(f[1]));
    else vlog("\"e\":\"Export\",\"from\":" + jq(me()) + ",\"to\":" + jq(f[1]) + ",\"ret\":" + r);
    uid_snapshot();
    break;
  case "uids":
    uid_snapshot();
    break;
  case "wnew":    // wnew:NAME:FILE   logged clone (NAME = auto: a fresh name a1, a2, ...)
    if (f[1] == "auto") f[1] = "/reg"->auto_name();
    vlog("\"e\":\"CreateTry\",\"ctx\":" + jq(ctx) + ",\"by\":" + jq(me()) + ",\"name\":" + jq(f[1]) + ",\"file\":" + jq(f[2]));
    if (f[1] == "auto") f[1] = "/reg"->auto_name();
    "/reg"->push_pending(f[1]);
    rest = catch(o = new(f[2]));
    "/reg"->pop_pending();
    if (rest) vlog("\"e\":\"Raise\",\"ctx\":\"caught\",\"ob\":" + jq(f[1]));
    if (o) "/reg"->put(f[1], o);
    vlog("\"e\":\"CreateRes\",\"name\":" + jq(f[1]) + ",\"ok\":" + (o ? 1 : 0) + ",\"fname\":" + jq(o ? file_name(o) : "0") + ",\"err\":" + (rest ? 1 : 0));
    break;
  case "wmv":     // wmv:O:D
    if (ob_of(f[1]) && ob_of(f[2])) wmove(ob_of(f[1]), ob_of(f[2]), ctx);
    else vlog("\"e\":\"MoveSkip\",\"ob\":" + jq(f[1]) + ",\"d\":" + jq(f[2]));
    break;
  case "wdest":   // wdest:O
    o = ob_of(f[1]);
    if (!o) { vlog("\"e\":\"DestSkip\",\"ob\":" + jq(f[1])); break; }
    k = nm(o);
    vlog("\"e\":\"DestTry\",\"ctx\":" + jq(ctx) + ",\"by\":" + jq(me()) + ",\"ob\":" + jq(k));
    rest = catch(destruct(o));
    if (rest) vlog("\"e\":\"Raise\",\"ctx\":\"caught\",\"ob\":" + jq(k));
    vlog("\"e\":\"DestRes\",\"ob\":" + jq(k) + ",\"ok\":" + (rest ? 0 : 1));
    break;
  case "wld":      // wld:dest | wld:keep   load /obj/wsd by name; its create() destructs it (dest) or not (keep); then call it by name
    "/reg"->set_hook("wsd", "create", f[1]);
    o = find_object("/obj/wsd"); if (o) destruct(o);
    o = 0; r = 0;
    rest = catch(o = load_object("/obj/wsd"));
    k = catch(r = call_other("/obj/wsd", "ping"));
    vlog("\"e\":\"LoadNamed\",\"mode\":" + jq(f[1]) + ",\"got\":" + (o ? 1 : 0) + ",\"ran\":" + (r ? 1 : 0) + ",\"found\":" + (find_object("/obj/wsd") ? 1 : 0));
    o = find_object("/obj/wsd"); if (o) destruct(o);
    break;
  case "wldi":     // wldi:reenter | wldi:plain   load /obj/wix, whose not yet loaded parent's create() loads /obj/wix itself (reenter) or not
    "/reg"->set_hook("wip", "create", f[1]);
    foreach (o in children("/obj/wix") + children("/obj/wip")) if (o) destruct(o);
    o = 0;
    rest = catch(o = load_object("/obj/wix"));
    vlog("\"e\":\"LoadInherit\",\"mode\":" + jq(f[1]) + ",\"got\":" + (o ? 1 : 0) + ",\"same\":" + ((o && o == find_object("/obj/wix")) ? 1 : 0) + ",\"copies\":" + sizeof(children("/obj/wix")));
    foreach (o in children("/obj/wix") + children("/obj/wip")) if (o) destruct(o);
    break;
  case "whook":   // whook:BASE:KIND:ops  (create hooks are per file)
    "/reg"->set_hook(f[1], f[2], replace_string(implode(f[3..], ":"), "|", ";"));
    break;
  case "wview":
    wview();
    break;
  case "cother":   // cother:T:NAME   call_other by another object
    o = ob_of(f[1]);
    vlog("\"e\":\"Call\",\"origin\":\"call_other\",\"name\":" + jq(f[2]));
    if (o) rest = catch(call_other(o, f[2], 1));
    vlog("\"e\":\"CallDone\"");
    break;
  case "cefun":    // cefun:T:NAME    efun callback (map_array by function name)
    o = ob_of(f[1]);
    vlog("\"e\":\"Call\",\"origin\":\"efun\",\"name\":" + jq(f[2]));
    if (o) rest = catch(map_array(({ 1 }), f[2], o));
    vlog("\"e\":\"CallDone\"");
    break;
  case "csched":   // csched:T:NAME   T schedules call_out(NAME, 1) on itself
    o = ob_of(f[1]);
    vlog("\"e\":\"Call\",\"origin\":\"call_out\",\"name\":" + jq(f[2]));
    if (o) rest = catch(o->sched(f[2]));
    break;
  case "xcall":    // xcall:O:FUNCTION[:ARGOBJ]   call a function of a generated object
    o = ob_of(f[1]);
    if (o) { if (sizeof(f) > 3) call_other(o, f[2], ob_of(f[3])); else call_other(o, f[2]); }
    break;
  case "shape":    // shape:a,b,c   run a region nesting in the ec object
    o = ob_of("ec");
    if (o) o->run_shape(f[1]);
    break;
  case "hbshape":  // hbshape:a,b,c   run the nesting from a heart beat (no command giver)
    o = ob_of("ecd");
    if (o) o->arm(f[1]);
    break;
  case "probe":
    o = ob_of("ec");
    if (o) o->probe();
    break;
  case "xcall2":   // xcall2:O:FUNCTION:STRING:INT
    o = ob_of(f[1]);
    if (o) call_other(o, f[2], f[3], to_int(f[4]));
    break;
  case "svrt":     // svrt:ID   round trips of generated value number ID (object /c16/vals)
    o = ob_of("sv");
    if (o) { r = to_int(f[1]); k = "/c16/vals" + (r / 150); o->rt(r, k->v(r % 150)); o->rto(r, k->v(r % 150), "/sv/r" + f[1]); }
    break;
  case "svdmg":    // svdmg:ID:HEX
    o = ob_of("sv");
    if (o) o->dmg(to_int(f[1]), f[2]);
    break;
  case "svset":    // svset:INT  then svsave:FILE
    o = ob_of("sv"); if (o) o->set_val(allocate(to_int(f[1])));
    break;
  case "svsave":
    o = ob_of("sv"); if (o) vlog("\"e\":\"Saved\",\"ok\":" + o->plain_save(f[1]));
    break;
  case "xcall3":   // xcall3:O:FUNCTION:STRING:STRING
    o = ob_of(f[1]);
    if (o) call_other(o, f[2], f[3], f[4]);
    break;
  case "clr":
    map_delete(scripts, f[1]);
    break;
  case "say":
    write(f[1] + "\n");
    break;
  default:
    this_object()->do_op2(f, ctx);
  }
}

void do_ops(string ops, string ctx) {
  string *l = explode(ops, ";");
  int i;
  for (i = 0; i < sizeof(l); i++) do_op(l[i], ctx);
}

// "do TARGET ops" / "mk NAME FILE" from a user command line
void run_ops(string line, string ctx) {
  string t, ops;
  object o;
  if (sscanf(line, "do %s %s", t, ops) == 2) {
    o = ob_of(t);
    if (!o) { vlog("\"e\":\"NoTarget\",\"t\":" + jq(t)); return; }
    o->do_ops(ops, ctx);
    return;
  }
  if (line[0..0] == "x") return;   /* filler command */
  vlog("\"e\":\"BadLine\",\"hex\":" + jq(to_hex(line)));
}

void fired(string fn, string id) {
  vlog("\"e\":\"Fire\",\"ob\":" + jq(me()) + ",\"fn\":" + jq(fn) + ",\"id\":" + jq(id));
  if (scripts[id]) do_ops(scripts[id], "cb");
}
void cbA(string id) { fired("A", id); }
void cbB(string id) { fired("B", id); }
void cbC(string id) { fired("C", id); }

// single-character mode: every delivery is logged like a command and the mode is re-armed
void gc_cb(string s) {
  vlog("\"e\":\"Cmd\",\"u\":" + jq(me()) + ",\"hex\":" + jq(to_hex(s)) + ",\"mode\":\"char\"");
  get_char("gc_cb");
}
void it_cb(string s) {
  vlog("\"e\":\"Cmd\",\"u\":" + jq(me()) + ",\"hex\":" + jq(to_hex(s)) + ",\"mode\":\"input_to\"");
  if (scripts["inputto"]) do_ops(scripts["inputto"], "input_to");
}
