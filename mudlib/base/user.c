// verification mudlib: user object. Every delivered command is logged; a command is an op list
// for the scenario interpreter (see sc.h).
#include "/sc.h"

string uname = "?";

void create() { seteuid(getuid()); }
void set_uname(string n) { uname = n; }
string query_uname() { return uname; }

void logon() {
  enable_commands();
  add_action("cmd_any", "", 1);
  if (MASTER->query_policy("logon_error")) { MASTER->set_policy("logon_error", 0); vfail("logon", uname); }
}

// after exec(): this object is the interactive one now
void take_over() { enable_commands(); add_action("cmd_any", "", 1); }

void net_dead() {
  vlog("\"e\":\"NetDead\",\"u\":" + jq(uname));
  if (MASTER->query_policy("netdead_error")) { MASTER->set_policy("netdead_error", 0); vfail("net_dead", uname); }
}

// every complete input line arrives here first
mixed process_input(string s) {
  vlog("\"e\":\"Cmd\",\"u\":" + jq(uname) + ",\"hex\":" + jq(to_hex(s)));
  if (MASTER->query_policy("process_input_error") == uname) { MASTER->set_policy("process_input_error", 0); vfail("process_input", uname); }
  return 0;   // let the driver go on with the command
}

int cmd_any(string arg) {
  string verb = query_verb();
  string line = arg ? verb + " " + arg : verb;
  if (verb == "name") { uname = arg; "/reg"->put(arg, this_object()); return 1; }
  if (verb == "zz") { vlog("\"e\":\"FailCmd\",\"u\":" + jq(uname)); return 0; }   // nobody takes this command: the driver prints its fail message
  run_ops(line, "top");
  return 1;
}

void write_prompt() { }
void catch_tell(string s) { }

void set_terminal_type(string t) { vlog("\"e\":\"TType\",\"u\":" + jq(uname) + ",\"hex\":" + jq(to_hex(t))); if (MASTER->query_policy("ttype_error")) { MASTER->set_policy("ttype_error", 0); vfail("telnet", uname); } }
void set_window_size(int w, int h) { vlog("\"e\":\"Naws\",\"u\":" + jq(uname) + ",\"w\":" + w + ",\"h\":" + h); if (MASTER->query_policy("naws_error")) vfail("telnet", uname); }
void telnet_suboption(string s) { vlog("\"e\":\"Subopt\",\"u\":" + jq(uname) + ",\"hex\":" + jq(to_hex(s))); }
