#include "/obj/ecl.h"
