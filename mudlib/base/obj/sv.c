// C16 scenario object: save / restore round trips
#include "/sc.h"
mixed val;              // saved
static mixed st;        // static: never saved
object obref;           // object reference: never saved
mixed *holder;
mixed v2 = ({ 1, 2, 3 });
string v3 = "three";
mapping v4 = ([ "k" : 4 ]);

void create() { seteuid(getuid()); }

string hexs(string s) { return to_hex(s); }

// canonical tagged encoding of a value (JSON): ints as decimal strings, floats as 6 significant digits (vfloat)
string enc(mixed v) {
  string s; int i; mixed *k;
  if (intp(v)) return "{\"t\":\"int\",\"v\":\"" + v + "\"}";
  if (floatp(v)) return "{\"t\":\"float\",\"v\":\"" + vfloat(v) + "\"}";
  if (stringp(v)) return "{\"t\":\"str\",\"v\":\"" + to_hex(v) + "\"}";
  if (classp(v)) return "{\"t\":\"class\",\"v\":\"?\"}";
  if (arrayp(v)) {
    s = "";
    for (i = 0; i < sizeof(v); i++) { if (i) s += ","; s += enc(v[i]); }
    return "{\"t\":\"arr\",\"v\":[" + s + "]}";
  }
  if (mapp(v)) {
    // entries sorted by the encoding of their keys, so that the order is canonical
    k = sort_array(map_array(keys(v), (: ({ enc($1), $1 }) :)), (: strcmp($1[0], $2[0]) :));
    s = "";
    for (i = 0; i < sizeof(k); i++) { if (i) s += ","; s += "[" + k[i][0] + "," + enc(v[k[i][1]]) + "]"; }
    return "{\"t\":\"map\",\"v\":[" + s + "]}";
  }
  if (objectp(v)) return "{\"t\":\"obj\",\"v\":\"?\"}";
  return "{\"t\":\"other\",\"v\":\"?\"}";
}

// round trip through save_variable / restore_variable
void rt(int id, mixed v) {
  mixed e, r; string s; int i, wf;
  e = catch(s = save_variable(v));
  if (e) { vlog("\"e\":\"RT\",\"id\":" + id + ",\"how\":\"var\",\"err\":\"save\",\"orig\":" + enc(v)); return; }
  e = catch(r = restore_variable(s));
  if (e) { vlog("\"e\":\"RT\",\"id\":" + id + ",\"how\":\"var\",\"err\":\"restore\",\"orig\":" + enc(v) + ",\"text\":" + jq(to_hex(s))); return; }
  // the text is a well-formed string: its recorded length is the length of its text (no NUL inside, appending appends)
  wf = 1;
  for (i = 0; i < strlen(s); i++) if (!s[i]) wf = 0;
  if ((s + "|")[<1] != '|' || strlen(s + "|") != strlen(s) + 1) wf = 0;
  vlog("\"e\":\"RT\",\"id\":" + id + ",\"how\":\"var\",\"err\":\"\",\"orig\":" + enc(v) + ",\"back\":" + enc(r) + ",\"wf\":" + wf + ",\"text\":" + jq(to_hex(s)));
}

// round trip through save_object / restore_object into a fresh clone
void rto(int id, mixed v, string file) {
  object o; mixed e; int ok;
  val = v; st = "static"; obref = this_object();
  e = catch(ok = save_object(file));
  if (e || !ok) { vlog("\"e\":\"RT\",\"id\":" + id + ",\"how\":\"obj\",\"err\":\"save\",\"orig\":" + enc(v)); return; }
  o = new("/obj/sv");
  e = catch(ok = o->do_restore(file));
  if (e) { vlog("\"e\":\"RT\",\"id\":" + id + ",\"how\":\"obj\",\"err\":\"restore\",\"orig\":" + enc(v)); destruct(o); return; }
  vlog("\"e\":\"RT\",\"id\":" + id + ",\"how\":\"obj\",\"err\":\"\",\"orig\":" + enc(v) + ",\"back\":" + enc(o->query_val()) +
       ",\"static_kept\":" + (o->query_st() ? 1 : 0) + ",\"obref_kept\":" + (o->query_obref() ? 1 : 0));
  destruct(o);
}
int do_restore(string file) { return restore_object(file); }
mixed query_val() { return val; }
mixed query_st() { return st; }
mixed query_obref() { return obref; }

int to_int_hex(string h) {
  int v = 0, i, c;
  for (i = 0; i < strlen(h); i++) { c = h[i]; v = v * 16 + (c >= 'a' ? c - 'a' + 10 : c - '0'); }
  return v;
}

// restoring damaged text: the outcome must be a value or an LPC error
void dmg(int id, string hextext) {
  mixed e, r; string t = "";
  int i;
  for (i = 0; i < strlen(hextext); i += 2) t += sprintf("%c", to_int_hex(hextext[i..i+1]));
  e = catch(r = restore_variable(t));
  vlog("\"e\":\"Damaged\",\"id\":" + id + ",\"outcome\":" + (e ? "\"error\"" : "\"value\""));
}
void set_val(mixed v) { val = v; v3 = v3 + "+"; }
int plain_save(string file) { return save_object(file); }
