#include "/obj/ecl.h"
