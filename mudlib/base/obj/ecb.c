// helper of ec.c: a container; destructing it applies move_or_destruct() to what it holds
void create() { seteuid(getuid()); }
