// C17: scenario helper for saved binaries.  Called from the harness at top level (op "call").
//   reload("A,B")   destruct the named programs' objects (if loaded), then load the first one
//   tags("A")       what the loaded program reports about the versions of the files it was built from
//   dump("A","out") structural dump (dump_prog with disassembly and line table) into file out
//   results("A")    results of every probe call of a generated program
string base = "";
void set_base(string b) { base = b; }

int reload(string names) {
  string *ns = explode(names, ",");
  int i;
  object o;
  for (i = 0; i < sizeof(ns); i++) {
    o = find_object(base + ns[i]);
    if (o) destruct(o);
  }
  o = load_object(base + ns[0]);
  return o ? 1 : 0;
}

mixed tags(string n) {
  object o = find_object(base + n);
  if (!o) return "unloaded";
  return o->tags();
}

int dump(string n, string out) {
  object o = find_object(base + n);
  if (!o) return 0;
  dump_prog(o, 3, out);
  return 1;
}

mixed results(string n) {
  object o = find_object(base + n);
  if (!o) return "unloaded";
  return o->results();
}
