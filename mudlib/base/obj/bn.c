// C17: scenario helper for saved binaries.  Called from the harness at top level (op "call").
//   reload("A,B")   destruct the named programs' objects (if loaded), then load the first one
//   tags("A")       what the loaded program reports about the versions of the files it was built from
//   dump("A","out") structural dump (dump_prog with disassembly and line table) into file out
//   results("A")    results of every probe call of a generated program
string base = "";
void create() { seteuid(getuid()); }
void set_base(string b) { base = b; }

int reload(string names) {
  string *ns = explode(names, ",");
  int i;
  object o;
  for (i = 0; i < sizeof(ns); i++) {
    o = find_object(base + ns[i]);
    if (o) destruct(o);
  }
  o = load_object(base + ns[0]);
  return o ? 1 : 0;
}

mixed tags(string n) {
  object o = find_object(base + n);
  if (!o) return "unloaded";
  return o->tags();
}

int dump(string n, string out) {
  object o = find_object(base + n);
  if (!o) return 0;
  dump_prog(o, 3, out);
  return 1;
}

mixed results(string n) {
  object o = find_object(base + n);
  if (!o) return "unloaded";
  return venc(o->results());
}

// change the heap / shared-string layout between two loads of the same program
mixed *junk = ({ });
int churn(int n) {
  int i;
  mixed *a = allocate(n);
  for (i = 0; i < n; i++) a[i] = "churn_" + i + "_" + sizeof(junk);
  junk += ({ a });
  return sizeof(junk);
}

// C02: compile a (possibly damaged) file; the object is thrown away again
mixed comp(string f) {
  object o;
  mixed e;
  o = find_object(f);
  if (o) destruct(o);
  e = catch(o = load_object(f));
  if (e) return ({ "errors", e });
  if (!o) return ({ "none" });
  destruct(o);
  return ({ "program" });
}
