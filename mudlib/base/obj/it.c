// input_to / get_char scenario object (spec/inputto/InputTo.tla, and the input_to holder of spec/refcount/RefCount.tla)
#include "/sc.h"
mixed g0, g1, g2;
int zero;
void create() { seteuid(getuid()); }
int nop() { return 1; }
mixed get(int i) { return i == 0 ? g0 : i == 1 ? g1 : g2; }
void set(int i, mixed v) { if (i == 0) g0 = v; else if (i == 1) g1 = v; else g2 = v; }

// the callback: logs what it got; then behaves as its tag says
//   tag "ok": nothing; "err": uncaught error; "again": sets up another input_to (tag ok); "dest": destructs this object
void icb(string line, string tag, mixed carry) {
  object tp = this_player();
  vlog("\"e\":\"Callback\",\"line\":" + jq(to_hex(line)) + ",\"tag\":" + jq(tag) + ",\"tp\":" + jq(tp ? short_name(tp) : "0") + ",\"carry\":" + (carry ? 1 : 0));
  switch (tag) {
  case "err": zero = 1 / zero; break;
  case "again": vlog("\"e\":\"SetupRes\",\"how\":\"again\",\"ret\":" + input_to("icb", 0, "ok", carry)); break;
  case "againc": vlog("\"e\":\"SetupRes\",\"how\":\"againc\",\"ret\":" + get_char("icb", 0, "ok", carry)); break;
  case "dest": vlog("\"e\":\"DestOwner\""); destruct(this_object()); break;
  }
}
// callback of the function-pointer form: the bound argument comes first
void fcb(string bound, string line, mixed carry) { icb(line, "ok", carry); }
// how: line | char | noesc | noecho | fp (function pointer with bound value) | nofunc (function that does not exist) | twice
void setup(string how, int i) {
  mixed v = get(i);
  mixed r, e;
  string tag = "ok";
  sscanf(how, "%s-%s", how, tag);
  vlog("\"e\":\"Setup\",\"how\":" + jq(how) + ",\"tag\":" + jq(tag));
  switch (how) {
  case "line": r = input_to("icb", 0, tag, v); break;
  case "char": r = get_char("icb", 0, tag, v); break;
  case "noesc": r = input_to("icb", 2, tag, v); break;
  case "noecho": r = input_to("icb", 1, tag, v); break;
  case "fp": r = input_to((: fcb, "bound" :), 0, v); break;   // bound argument comes first: fcb("bound", <line>, v)
  case "nofunc": e = catch(r = input_to("no_such_function", 0, tag, v)); break;
  case "nofuncc": e = catch(r = get_char("no_such_function", 0, tag, v)); break;
  case "nofuncu": r = input_to("no_such_function", 0, tag, v); break;      // uncaught
  case "badtype": e = catch(r = input_to((mixed)({ v }), 0, tag)); break;
  }
  vlog("\"e\":\"SetupRes\",\"how\":" + jq(how) + ",\"ret\":" + (intp(r) ? r : -1) + ",\"err\":" + (e ? 1 : 0));
}
void newval(int i, string k) { set(i, k == "arr" ? ({ 0, 0 }) : ([ "k" : 0 ])); }
void clear(int i) { set(i, 0); }
void dest() { destruct(this_object()); }
