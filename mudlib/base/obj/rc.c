// C06 scenario object: holders of reference-counted values (see spec/refcount/RefCount.tla)
mixed g0, g1, g2;
int zero;
class cv { mixed a; mixed *b; }

void create() { seteuid(getuid()); }
int nop() { return 1; }
mixed get(int i) { return i == 0 ? g0 : i == 1 ? g1 : g2; }
void set(int i, mixed v) { if (i == 0) g0 = v; else if (i == 1) g1 = v; else g2 = v; }

void newval(int i, string k) { set(i, k == "arr" ? ({ 0, 0 }) : ([ "k" : 0 ])); }
void copy_to(int i, string other, int j) { other->set(j, get(i)); }
void clear(int i) { set(i, 0); }
void put_into(int i, string other, int j) { other->put(j, get(i)); }
void put(int j, mixed v) {
  mixed c = get(j);
  if (arrayp(c)) c[0] = v;
  else if (mapp(c)) c["k"] = v;
}
// range assignment into the array in slot j: element 0 is replaced by v
void put_range_into(int i, string other, int j, int mode) { other->put_range(j, get(i), mode); }
void put_range(int j, mixed v, int mode) {
  mixed c = get(j), t;
  if (!arrayp(c)) return;
  if (mode == 1) c[0..0] = ({ v });                       // right-hand side is a temporary (one reference)
  else if (mode == 2) { t = ({ v }); c[0..0] = t; }        // right-hand side also held by a variable
  else { t = c[0..0] = ({ v }); }                          // the assignment's value is used
}
void cb(mixed a, mixed b) { }
void newfp(int i, int j) { set(j, (: cb, get(i) :)); }
int h1, h2;    // handles of the (at most two) pending call_outs
void callout(int i) { int h = call_out("cb", 1000, get(i)); if (!h1 || find_call_out(h1) == -1) h1 = h; else h2 = h; }
void rmco() { remove_call_out("cb"); }
void rmco_h() {   // remove one pending call_out by its handle
  if (h1 && find_call_out(h1) != -1) { remove_call_out(h1); h1 = 0; }
  else if (h2 && find_call_out(h2) != -1) { remove_call_out(h2); h2 = 0; }
}
// the user's pending input_to holds g[i]: as carry-over argument (callback by name) or as bound argument of a function pointer
void icb(mixed a, mixed b) { if (a == "err" || b == "err") zero = 1 / zero; }
void inp(string form, int i) { if (form == "fp") input_to((: icb, get(i) :)); else input_to("icb", 0, get(i)); }
void unmany();
void dest() { unmany(); destruct(this_object()); }

mixed thrower(mixed a, mixed b, mixed c) { return ({ a, b, c }); }
int boom(mixed x) { return 1 / zero; }
// evaluations that hold extra references to g[i] when they fail
void err(int i, int kind) {
  mixed v = get(i), t, x;
  mapping m;
  class cv c;
  switch (kind) {
    case 1: catch(thrower(v, ({ v, v }), 1 / zero)); break;                     // arguments + temporary array on the stack
    case 2: thrower(v, ({ v, ([ "x" : v ]) }), 1 / zero); break;                 // the same, uncaught
    case 3: catch(map_array(({ v, v, v }), (: boom :))); break;                  // inside an efun callback
    case 4: t = ({ v, ({ v }) }); sort_array(({ t, t, v }), (: boom($1) :)); break;   // uncaught, inside sort_array
    case 5: catch(filter_array(({ v }), (: boom :)) + ({ v })); break;
    case 6: t = ([ "a" : v, "b" : ({ v }) ]); catch(map_mapping(t, (: boom($2) :))); error("after " + sizeof(t) + "\n"); break;
    case 7: foreach (x in ({ v, ({ v }) })) boom(x); break;                       // uncaught, inside a foreach over a temporary
    case 8: catch { foreach (x, t in ([ "a" : v, "b" : ({ v }) ])) boom(t); }; break;    // caught, inside a foreach over a mapping
    case 9: t = (: $(v) :); catch(evaluate((: boom($(({ v }))) :))); evaluate(t); break;   // values captured by $() in function literals
    case 10: c = new(class cv); c->a = v; c->b = ({ v, v }); boom(c); break;      // a class instance holding the value, uncaught
    case 11: catch(sprintf("%O %d", ({ v }), boom(v))); break;                    // efun arguments already evaluated
    case 12: m = ([ "a" : v ]); m["b"] = ({ v, boom(v) }); break;                 // aggregate under construction, lvalue pending
  }
}
// many holders of one value: n references kept in arrays of 10000 slots each
mixed *hold;
void many(int i, int n) {
  mixed v = get(i);
  int k, j, m;
  hold = allocate((n + 9999) / 10000);
  for (k = 0; k < sizeof(hold); k++) {
    m = n - k * 10000; if (m > 10000) m = 10000;
    hold[k] = allocate(m);
    for (j = 0; j < m; j++) hold[k][j] = v;
  }
}
// the same holder arrays filled with n clones of one blueprint (program reference count)
void clones(int n) {
  int k, j, m;
  hold = allocate((n + 9999) / 10000);
  for (k = 0; k < sizeof(hold); k++) {
    m = n - k * 10000; if (m > 10000) m = 10000;
    hold[k] = allocate(m);
    for (j = 0; j < m; j++) hold[k][j] = new("/obj/pd");
  }
}
void unmany() {
  int k, j;
  if (hold) for (k = 0; k < sizeof(hold); k++) for (j = 0; j < sizeof(hold[k]); j++) if (objectp(hold[k][j])) destruct(hold[k][j]);
  hold = 0;
}
int probe(int i) { mixed v = get(i); if (arrayp(v)) return sizeof(v); if (mapp(v)) return sizeof(v); return -1; }

// evaluations that only use g[i] and complete: afterwards every count is what it was
mixed nopv(mixed *a...) { return sizeof(a); }
mixed ident(mixed x) { return x; }
void use(int i, int kind) {
  mixed v = get(i), t, x;
  mapping m;
  class cv c;
  switch (kind) {
    case 1: t = ({ v }); nopv(t...); break;                         // spread a one-element array that a variable holds too
    case 2: t = ({ v, v }); nopv(t...); nopv(({ v })...); break;    // two elements; a temporary
    case 3: foreach (x in ({ v, ({ v }) })) t = x; t = 0; break;
    case 4: t = sprintf("%O %d", v, sizeof(({ v }) + ({ v }) - ({ v }))); break;
    case 5: m = ([ v : v, "k" : ({ v }) ]); map_delete(m, v); t = m["k"]; m = 0; break;
    case 6: t = map_array(({ v, v }), (: ident :)); t = filter_array(t, (: arrayp($1) || mapp($1) || functionp($1) :)); t = sort_array(({ ({ v }), ({ v }) }), (: 0 :)); break;
    case 7: t = ({ v }); t[0..0] = ({ v, v }); t = t[1..]; t += ({ v }); t = t[<1..]; break;
    case 8: t = evaluate((: ident :), v); t = evaluate((: $1 :), ({ v })...); t = call_other(this_object(), "ident", v); break;
    case 9: t = ({ ({ v }) }); nopv(t[0]...); x = t[0]; nopv(x...); nopv(v, x..., v); break;
    case 10:       // a switch over string labels with an operand computed at run time that is no label (and nobody's string)
      t = "sw" + sizeof(({ v })) + "q" + i + "z";
      switch (t) { case "alpha": x = 1; break; case "beta": x = 2; break; default: x = 3; }
      switch ("al" + "pha" + (i ? "" : "")) { case "alpha": x = 1; break; case "beta": x = 2; break; default: x = 3; }
      switch (i) { case 0: x = 1; break; case 1..5: x = 2; break; default: x = 3; }
      break;
    case 11: c = new(class cv); c->a = v; c->b = ({ v, v }); t = c->a; x = c->b[1]; c->a = 0; c = 0; break;   // class instance as holder
    case 12: t = copy(({ v, ([ "k" : v ]) })); x = copy(v); t = 0; break;                                       // deep copies
    case 13: m = ([ "a" : v, "b" : ({ v }) ]); foreach (x, t in m) ident(t); t = keys(m) + values(m); m = 0; break;
    case 14: m = ([ "a" : v ]); t = map_mapping(m, (: $2 :)); t = filter_mapping(m, (: 1 :)); t = unique_mapping(({ ({ v }), ({ v }) }), (: sizeof($1) :)); break;
    case 15: t = member_array(v, ({ ({ v }), v })); t = ({ v, ({ v }) }) & ({ v }); t = explode(sprintf("%O", v), "\n"); t = implode(t, ","); break;
    case 16: t = (: $(v) :); x = evaluate(t); t = (: ident($(({ v }))) :); x = evaluate(t); t = (: cb, v :); evaluate(t, v); break;   // $() captures
  }
}
