#include "/obj/ecl.h"
