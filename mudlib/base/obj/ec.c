// C05 / C04 scenario object: realises a nesting of regions (given as data) above an error.
// shape = array of region kinds, the last element is the raise kind:
//   regions: call other fp filter map sort catch clone move hb(no) ...
//   raises : none type bounds user throw eval depth
#include "/sc.h"
string *shape;
int pos;
int work;

void create() { seteuid(getuid()); enable_commands(); }

string ctx() {
  object tp = this_player();
  return "\"depth\":" + sizeof(call_stack(0)) + ",\"tp\":" + jq(tp ? short_name(tp) : "0") + ",\"to\":" + jq(short_name(this_object()));
}

mixed step(int i);

mixed r_cb(mixed x, int i) { return step(i); }
int r_sort(mixed a, mixed b, int i) { step(i); return 0; }
// a sort whose compare callback runs (and catches) a failing sort of its own
int ns_bad(mixed a, mixed b) { error("inner compare fails\n"); return 0; }
int ns_outer(mixed a, mixed b) { catch(sort_array(({ 2, 1 }), "ns_bad", this_object())); return a - b; }
int endless() { int n; while (1) n++; return n; }
int deep(int n) { return deep(n + 1) + 1; }

mixed raise(string k) {
  mixed *a;
  vlog("\"e\":\"RaiseAt\",\"k\":" + jq(k));
  switch (k) {
  case "none": work = work * 3 + 1; return 7;
  case "type": a = ({ }); return to_int((mixed)a);
  case "bounds": a = ({ 1 }); return a[3];
  case "user": error("user error\n"); return 0;
  case "throw": throw("thrown value"); return 0;
  case "eval": return endless();
  case "depth": return deep(0);
  case "div": return 1 / (work - work);
  }
  return 0;
}

mixed step(int i) {
  string k = shape[i];
  mixed r, err;
  object o;
  if (i == sizeof(shape) - 1) return raise(k);
  vlog("\"e\":\"Enter\",\"k\":" + jq(k) + ",\"i\":" + i + "," + ctx());
  switch (k) {
  case "call": r = step(i + 1); break;
  case "other": r = this_object()->step(i + 1); break;
  case "fp": r = evaluate((: step :), i + 1); break;
  case "filter": r = filter_array(({ 1 }), "r_cb", this_object(), i + 1); break;
  case "map": r = map_array(({ 1 }), "r_cb", this_object(), i + 1); break;
  case "sort": r = sort_array(({ 2, 1 }), "r_sort", this_object(), i + 1); break;
  case "catch":
    err = catch(r = step(i + 1));
    vlog("\"e\":\"AfterCatch\",\"i\":" + i + ",\"caught\":" + (err ? 1 : 0) + ",\"val\":" + jq(stringp(err) ? replace_string(err, "\n", "") : (err ? "?" : "")) + "," + ctx());
    break;
  case "clone":
    "/reg"->set_hook("ecc", "shape", implode(shape, ","));
    "/reg"->set_hook("ecc", "pos", "" + (i + 1));
    o = new("/obj/ecc");
    if (o) destruct(o);
    break;
  case "load":     // the rest of the shape runs inside create() of an object being loaded
    o = find_object("/obj/ecl" + i);
    if (o) destruct(o);
    "/reg"->set_hook("ecl", "pos", "" + (i + 1));
    o = load_object("/obj/ecl" + i);
    if (o) destruct(o);
    break;
  case "mod":      // the rest of the shape runs inside the move_or_destruct() hook that destruct() applies to a contained object
    "/reg"->set_hook("ecm", "pos", "" + (i + 1));
    o = new("/obj/ecb");
    r = new("/obj/ecm");
    r->mv_to(o);
    destruct(o);
    if (r) destruct(r);
    r = 0;
    break;
  case "move":
    "/reg"->set_hook("ecc", "shape", implode(shape, ","));
    "/reg"->set_hook("ecc", "pos", "-" + (i + 1));
    o = new("/obj/ecc");
    if (o) { o->mv_to(this_object()); destruct(o); }
    break;
  }
  vlog("\"e\":\"Leave\",\"k\":" + jq(k) + ",\"i\":" + i + "," + ctx());
  return r;
}

// entry point: run:call,catch,other,type
void run_shape(string s) {
  shape = explode(s, ",");
  vlog("\"e\":\"Begin\",\"shape\":" + jq(s) + "," + ctx());
  step(0);
  vlog("\"e\":\"ShapeEnd\"");
}
void set_shape(string s) { shape = explode(s, ","); }

// a fixed evaluation whose outcome must not depend on what failed before it
void probe() {
  mixed e1, e2, e3, e4;
  object o;
  int x, chain, dt, ns;
  // guards kept by load_object() and destruct() - tested before anything in the probe raises an error (errors reset them):
  // an unrelated object can still be destructed, and a chain of loads exactly as deep as the limit still loads
  e4 = catch(o = load_object("/obj/pd"));
  if (o) e4 = catch(destruct(o));
  dt = (!e4 && !find_object("/obj/pd")) ? 1 : 0;
  e3 = catch(load_object("/obj/pl1"));
  chain = find_object("/obj/pl8") ? 1 : 0;
  for (x = 1; x <= 8; x++) { o = find_object("/obj/pl" + x); if (o) catch(destruct(o)); }
  e1 = catch(x = to_int((mixed)({ })));
  e2 = catch(throw("p"));
  // an efun's static callback pointer survives a failing nested use: the outer sort still sorts
  e3 = catch(o = 0, e4 = sort_array(({ 3, 1, 2 }), "ns_outer", this_object()));
  ns = (!e3 && arrayp(e4) && e4[0] == 1 && e4[1] == 2 && e4[2] == 3) ? 1 : 0;
  vlog("\"e\":\"Probe\",\"c1\":" + (stringp(e1) ? 1 : 0) + ",\"c2\":" + jq(e2) + ",\"sum\":" + (sizeof(filter_array(({ 1, 2, 3 }), (: $1 > 1 :))) + strlen("abc")) + ",\"chain\":" + chain + ",\"dt\":" + dt + ",\"ns\":" + ns + "," + ctx());
}
