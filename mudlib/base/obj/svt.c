// probe: the string returned by save_variable() used in further string operations
mixed t(int k) {
  string s;
  switch (k) {
  case 0: s = save_variable(5); return ({ strlen(s), s, s + "x", sprintf("%s|", s), s == "5", strlen(s + "x") });
  case 1: s = save_variable(({ 1, "ab", 2.5 })); return ({ strlen(s), s, s + "x", strlen(s + "x") });
  case 2: s = save_variable("hi"); return ({ strlen(s), s, s + "x", strlen(s + "x") });
  case 3: s = save_variable(([ "a" : 1 ])); return ({ strlen(s), s, s + "x", strlen(s + "x") });
  }
}
