#include "/obj/ecl.h"
