// generic scenario object
#include "/sc.h"
void create() { seteuid(getuid()); }
void heart_beat() {
  vlog("\"e\":\"HB\",\"ob\":" + jq(me()));
  if (scripts["hb"]) do_ops(scripts["hb"], "hb");
}
