// generic scenario object
#include "/sc.h"
void create() { seteuid(getuid()); }
void heart_beat() {
  vlog("\"e\":\"HB\",\"ob\":" + jq(me()));
  if (scripts["hb"]) do_ops(scripts["hb"], "hb");
}

void reset() {
  vlog("\"e\":\"ResetRun\",\"ob\":" + jq(me()));
  if (scripts["reset"]) do_ops(scripts["reset"], "reset");
}
int clean_up(int inh) {
  vlog("\"e\":\"CleanUp\",\"ob\":" + jq(me()));
  if (scripts["cleanup"]) do_ops(scripts["cleanup"], "clean_up");
  return scripts["curet0"] ? 0 : 1;     // answering 0: never ask again
}
