// C08: an object that may destruct itself while it is being LOADED by name
#include "/sc.h"
void create() { seteuid(getuid()); if ("/reg"->get_hook("wsd", "create") == "dest") destruct(this_object()); }
int ping() { return 1; }
