// C01: a second object (function pointer owner, destruct target)
mixed f(mixed a) { return a; }
function get_fp() { return (: f :); }
void create() { seteuid(getuid()); }
