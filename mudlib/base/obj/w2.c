inherit "/obj/wbase";
