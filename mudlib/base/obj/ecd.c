// C05: starts a shape from a heart beat of a non-living object, i.e. with no command giver at all
#include "/sc.h"
string pending;
void create() { seteuid(getuid()); }
void arm(string s) { pending = s; set_heart_beat(1); }
void heart_beat() {
  string s = pending;
  object e = "/reg"->get("ec");
  set_heart_beat(0);
  pending = 0;
  if (s && e) e->run_shape(s);
}
