// C08: a parent program whose create() (run on the blueprint) may load, by name, the very child that is being loaded
#include "/sc.h"
void create() { seteuid(getuid()); if (!clonep(this_object()) && file_name(this_object()) == "/obj/wip" && "/reg"->get_hook("wip", "create") == "reenter") load_object("/obj/wix"); }
int ping() { return 1; }
