inherit "/obj/rc";
