// probe: many clones of one blueprint (program reference count)
mixed *hold;
void create() { seteuid(getuid()); }
int mk(int n) {
  int k, j, m;
  hold = allocate((n + 9999) / 10000);
  for (k = 0; k < sizeof(hold); k++) {
    m = n - k * 10000; if (m > 10000) m = 10000;
    hold[k] = allocate(m);
    for (j = 0; j < m; j++) hold[k][j] = new("/obj/pd");
  }
  return n;
}
int rm() {
  int k, j, n;
  for (k = 0; k < sizeof(hold); k++) for (j = 0; j < sizeof(hold[k]); j++) if (hold[k][j]) { destruct(hold[k][j]); n++; }
  hold = 0;
  return n;
}
int after() { object o = new("/obj/pd"); int r = objectp(o); destruct(o); return r; }
