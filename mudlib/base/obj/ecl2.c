#include "/obj/ecl.h"
