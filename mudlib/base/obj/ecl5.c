#include "/obj/ecl.h"
