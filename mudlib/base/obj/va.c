// spec/verbs: an object that registers verbs with add_action on the user that carries it
#include "/sc.h"
mapping acts = ([ ]);     // verb -> ({ flag, ret })
string *order = ({ });
void create() { seteuid(getuid()); }
void mv_to(object d) { move_object(d); }
string fn(string verb) { return "act_" + verb; }
int run(string verb, mixed arg) {
  mixed *a = acts[verb];
  vlog("\"e\":\"Act\",\"ob\":" + jq(me()) + ",\"verb\":" + jq(verb) + ",\"flag\":" + (a ? a[0] : -1) + ",\"qverb\":" + jq(query_verb()) + ",\"arg\":" + (stringp(arg) ? jq(arg) : "null"));
  return a ? a[1] : 0;
}
int act_k(mixed arg) { return run("k", arg); }
int act_ka(mixed arg) { return run("ka", arg); }
int act_kab(mixed arg) { return run("kab", arg); }
int act_z(mixed arg) { return run("z", arg); }
// the driver only accepts add_action from an object that is with the commanding user
int here() { return this_player() && environment() == this_player(); }
void reg(string verb) {
  if (!here()) return;
  add_action(fn(verb), verb, acts[verb][0]);
  vlog("\"e\":\"AddAction\",\"ob\":" + jq(me()) + ",\"verb\":" + jq(verb) + ",\"flag\":" + acts[verb][0] + ",\"ret\":" + acts[verb][1]);
}
void unreg(string verb) {
  int r;
  if (!here()) return;
  r = remove_action(fn(verb), verb);
  vlog("\"e\":\"RemoveAction\",\"ob\":" + jq(me()) + ",\"verb\":" + jq(verb) + ",\"ok\":" + r);
}
// addv(verb, flag * 10 + ret): a verb of this object is registered once (registering it again replaces it)
void addv(string verb, int fr) {
  if (acts[verb]) unreg(verb);
  acts[verb] = ({ fr / 10, fr % 10 }); order -= ({ verb }); order += ({ verb });
  reg(verb);
}
void rmv(string verb, int dummy) { unreg(verb); map_delete(acts, verb); order -= ({ verb }); }
void init() { string v; if (here()) foreach (v in order) reg(v); }
