// C08: inherits /obj/wip (see there)
inherit "/obj/wip";
