// helper of ec.c: continues a shape from inside the move_or_destruct() hook applied by destruct() of its container; one-shot
#include "/sc.h"
void create() { seteuid(getuid()); }
void mv_to(object d) { move_object(d); }
int move_or_destruct(object dest) {
  int p = to_int("/reg"->get_hook("ecm", "pos"));
  if (p > 0) { object e = "/reg"->get("ec"); "/reg"->set_hook("ecm", "pos", "0"); if (e) e->step(p); }
  return 0;
}
