#include "/obj/ecl.h"
