#include "/obj/ecl.h"
