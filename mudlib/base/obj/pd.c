void create() { seteuid(getuid()); }
