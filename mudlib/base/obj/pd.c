void create() { seteuid(getuid()); }
int nop() { return 1; }
