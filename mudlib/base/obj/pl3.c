// probe of the load-depth guard: a chain of loads as deep as MaxInheritDepth allows
void create() { seteuid(getuid()); load_object("/obj/pl4"); }
