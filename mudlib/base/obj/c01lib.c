// C01: value kinds for the call-surface exploration (see spec/surface/Surface.tla)
class c01pt { int x; mixed y; }
mixed *selfarr;
mapping selfmap;
object other, dead;
function deadfp;
int cbcount;

void create() { seteuid(getuid()); }
mixed cb(mixed a, mixed b) { cbcount++; return a; }
mixed vcb(mixed *a...) { return sizeof(a); }
string bigstr(int n) { string s = "0123456789abcdef"; while (strlen(s) < n) s += s; return s[0..n - 1]; }

void setup() {
  selfarr = ({ 1, 0, "x" }); selfarr[1] = selfarr;
  selfmap = ([ "self" : 0, 1 : 2 ]); selfmap["self"] = selfmap;
  if (!other) other = new("/obj/c01ob");
  if (!dead) { dead = new("/obj/c01ob"); deadfp = dead->get_fp(); destruct(dead); }
}

// "" or "<kind>:<size>" when a value is larger than the limits checks/c04.py configures (c01.OVER_LIMITS) for its run of the surface
string over(mixed v) {
  if (stringp(v) && strlen(v) > 100000) return "string:" + strlen(v);
  if (arrayp(v) && sizeof(v) > 8000) return "array:" + sizeof(v);
  if (mapp(v) && sizeof(v) > 3000) return "mapping:" + sizeof(v);
  if (bufferp(v) && sizeof(v) > 1000) return "buffer:" + sizeof(v);
  return "";
}

mixed val(string k) {
  mixed *sh;
  class c01pt p;
  mapping m;
  int i;
  switch (k) {
    case "i0": return 0;
    case "i1": return 1;
    case "im1": return -1;
    case "i7": return 7;
    case "i31": return 2147483648;
    case "im31": return -2147483649;
    case "i32": return 4294967296;
    case "imax": return 9223372036854775807;
    case "imin": return (-9223372036854775807 - 1);
    case "s0": return "";
    case "sa": return "a";
    case "spath": return "/c01tmp/file";
    case "spct": return "%s%d%n%O%-1000s%*d%@s %%";
    case "sbig": return bigstr(70000);
    case "sutf": return "héllo 世界";
    case "snum": return "12345678901234567890";
    case "a0": return ({ });
    case "a3": return ({ 1, "two", 3.0 });
    case "anest": return ({ ({ 1, ({ 2, ({ 3 }) }) }), ([ "k" : ({ 4 }) ]) });
    case "aself": return selfarr;
    case "ashared": sh = ({ 1, 2 }); return ({ sh, sh, sh });
    case "abig": return allocate(5000);
    case "m0": return ([ ]);
    case "m3": return ([ "a" : 1, 2 : "b", 3.5 : ({ 1 }) ]);
    case "mself": return selfmap;
    case "mbig": m = ([ ]); for (i = 0; i < 2000; i++) m[i] = "" + i; return m;
    case "f0": return 0.0;
    case "f1": return 1.5;
    case "fbig": return -2.5e300;
    case "finf": return 1.0e308 * 10.0;
    case "o": return this_object();
    case "oother": return other;
    case "odead": return dead;
    case "fp": return (: cb :);
    case "fpefun": return (: strlen :);
    case "fpbound": return (: cb, 1 :);
    case "fpdead": return deadfp;
    case "b0": return allocate_buffer(0);
    case "b4": return allocate_buffer(4);
    case "cls": p = new(class c01pt); p->x = 1; p->y = ({ 2 }); return p;
    case "undef": return ([ ])["nothing"];
  }
  return 0;
}
