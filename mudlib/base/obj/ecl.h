// helper of ec.c: continues a shape from inside create() while the object is being LOADED (not cloned); one-shot
#include "/sc.h"
void create() {
  int p;
  seteuid(getuid());
  p = to_int("/reg"->get_hook("ecl", "pos"));
  if (p > 0) { object e = "/reg"->get("ec"); "/reg"->set_hook("ecl", "pos", "0"); if (e) e->step(p); }
}
