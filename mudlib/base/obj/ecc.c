// helper of ec.c: continues a shape from inside create() (pos > 0) or init() (pos < 0); one-shot
#include "/sc.h"
void create() {
  int p;
  seteuid(getuid());
  if (!clonep(this_object())) return;
  p = to_int("/reg"->get_hook("ecc", "pos"));
  if (p > 0) { object e = "/reg"->get("ec"); "/reg"->set_hook("ecc", "pos", "0"); if (e) e->step(p); }
}
void init() {
  int p = to_int("/reg"->get_hook("ecc", "pos"));
  if (p < 0) { object e = "/reg"->get("ec"); "/reg"->set_hook("ecc", "pos", "0"); if (e) e->step(-p); }
}
void mv_to(object d) { move_object(d); }
