inherit "/obj/wbase";
