// C15 scenario object: calls one file efun with a given path argument
#include "/sc.h"
mixed val = 1;
void create() { seteuid(getuid()); }
string unhex(string h) {
  string t = ""; int i, v, c, j;
  for (i = 0; i + 1 < strlen(h); i += 2) {
    v = 0;
    for (j = 0; j < 2; j++) { c = h[i + j]; v = v * 16 + (c >= 'a' ? c - 'a' + 10 : c - '0'); }
    t += sprintf("%c", v);
  }
  return t;
}
void fe(string ef, string hexpath) {
  string p = unhex(hexpath);
  mixed e, r;
  if (ef != "ed_end") vlog("\"e\":\"EfunBegin\",\"efun\":" + jq(ef) + ",\"hex\":" + jq(hexpath));
  else if (in_edit(this_player())) return;      // (the editor is still open: the line was not ours)
  switch (ef) {
  case "read_file": e = catch(r = read_file(p)); break;
  case "write_file": e = catch(r = write_file(p, "x\n")); break;
  case "rm": e = catch(r = rm(p)); break;
  case "mkdir": e = catch(r = mkdir(p)); break;
  case "rmdir": e = catch(r = rmdir(p)); break;
  case "rename_from": e = catch(r = rename(p, "/ok/dst")); break;
  case "rename_to": e = catch(r = rename("/ok/src", p)); break;
  case "cp_from": e = catch(r = cp(p, "/ok/dst2")); break;
  case "cp_to": e = catch(r = cp("/ok/src2", p)); break;
  case "link": e = catch(r = link("/ok/src2", p)); break;
  case "get_dir": e = catch(r = get_dir(p)); break;
  case "get_dir_l": e = catch(r = get_dir(p, -1)); break;
  case "stat": e = catch(r = stat(p)); break;
  case "file_size": e = catch(r = file_size(p)); break;
  case "read_bytes": e = catch(r = read_bytes(p, 0, 4)); break;
  case "write_bytes": e = catch(r = write_bytes(p, 0, "x")); break;
  case "read_buffer": e = catch(r = read_buffer(p, 0, 4)); break;
  case "write_buffer": e = catch(r = write_buffer(p, 0, "x")); break;
  case "tail": e = catch(r = tail(p)); break;
  case "file_length": e = catch(r = file_length(p)); break;
  case "save_object": e = catch(r = save_object(p)); break;
  case "restore_object": e = catch(r = restore_object(p)); break;
  case "dumpallobj": e = catch(dumpallobj(p)); break;
  case "load_object": e = catch(r = load_object(p)); break;
  case "find_object": e = catch(r = find_object(p)); break;
  case "call_other": e = catch(r = call_other(p, "query")); break;
  case "clone": e = catch(r = new(p)); if (objectp(r)) destruct(r); break;
  // an editor session of the commanding user: the bracket stays open while the user types editor commands; "ed_end" closes it
  case "ed": e = catch(ed(p)); if (!e && in_edit(this_player())) return; break;
  case "ed_end": ef = "ed"; break;
  }
  vlog("\"e\":\"EfunEnd\",\"efun\":" + jq(ef) + ",\"err\":" + (e ? 1 : 0));
}
