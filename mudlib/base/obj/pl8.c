void create() { seteuid(getuid()); }
