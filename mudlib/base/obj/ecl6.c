#include "/obj/ecl.h"
