inherit "/obj/wbase";
