// C08 world object: hooks create / init / move_or_destruct run scripts kept in /reg per base file.
// The scripts are executed by /wdrv on behalf of this object.
string base() { string f = file_name(this_object()); string a, b; if (sscanf(f, "/obj/%s#%s", a, b) == 2) return a; sscanf(f, "/obj/%s", a); return a; }
string ident() { mixed n = "/reg"->name_of(this_object()); return n ? n : file_name(this_object()); }
void create() {
  string ops;
  seteuid(getuid());
  if (base() == "w1") enable_commands();
  if (strsrch(file_name(this_object()), "#") != -1) "/reg"->claim(this_object());
  vlog("\"e\":\"Created\",\"ob\":" + jq(file_name(this_object())));
  ops = "/reg"->get_hook(base(), "create");
  if (ops) "/wdrv"->hook(ident(), "create", ops);
}
void init() {
  string ops = "/reg"->get_hook(base(), "init");
  if (ops) "/wdrv"->hook(ident(), "init", ops);
}
int move_or_destruct(object dest) {
  string ops = "/reg"->get_hook(base(), "mod");
  if (ops == "go") "/wdrv"->go(ident(), this_object(), dest, "mod");
  else if (ops && ops != "stay") "/wdrv"->hook(ident(), "mod", ops);
  else "/wdrv"->hook(ident(), "mod", "");
  return 0;
}
void mv_to(object d) { move_object(d); }
