inherit "/obj/rc";
