// registry of scenario objects by short name
mapping by_name = ([]);
mapping by_ob = ([]);
void create() { seteuid(getuid()); }
void put(string n, object ob) { by_name[n] = ob; by_ob[file_name(ob)] = n; }
object get(string n) { return by_name[n]; }
mixed name_of(object ob) { return by_ob[file_name(ob)]; }
mapping all() { return by_name; }
mapping handles = ([]);
void set_handle(string id, int h) { handles[id] = h; }
int get_handle(string id) { return handles[id]; }
mapping hooks = ([]);
void set_hook(string base, string k, string ops) { hooks[base + ":" + k] = ops; }
mixed get_hook(string base, string k) { return hooks[base + ":" + k]; }
string *pending = ({ });
void push_pending(string n) { pending += ({ n }); }
void pop_pending() { if (sizeof(pending)) pending = pending[0..sizeof(pending)-2]; }
// a freshly created clone claims the name of the innermost clone operation that has no object yet
void claim(object ob) {
  int i;
  for (i = sizeof(pending) - 1; i >= 0; i--)
    if (pending[i] != "" && !by_name[pending[i]]) { put(pending[i], ob); return; }
}
int autoc = 0;
string auto_name() { autoc++; return "a" + autoc; }
