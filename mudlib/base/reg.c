// registry of scenario objects by short name
mapping by_name = ([]);
mapping by_ob = ([]);
void create() { seteuid(getuid()); }
void put(string n, object ob) { by_name[n] = ob; by_ob[file_name(ob)] = n; }
object get(string n) { return by_name[n]; }
mixed name_of(object ob) { return by_ob[file_name(ob)]; }
mapping all() { return by_name; }
mapping handles = ([]);
void set_handle(string id, int h) { handles[id] = h; }
int get_handle(string id) { return handles[id]; }
