// C20 scenario object: no automatic seteuid
#include "/sc.h"
void create() { }
