------------------------------ MODULE UidsTrace ------------------------------
EXTENDS Uids, Json, IOUtils
T == ndJsonDeserialize(IOEnv.TRACE)
VARIABLE l
tvars == <<vars, l>>
Ev(name) == l <= Len(T) /\ T[l].e = name /\ l' = l + 1
R == T[l]
SeqToSet(s) == {s[i] : i \in 1..Len(s)}
TReset == /\ Ev("Reset") /\ uid' = [o \in Names |-> Zero] /\ euid' = [o \in Names |-> Zero]
          /\ live' = {} /\ policy' = R.policy
TAdopt == Ev("Adopt") /\ Adopt(R.ob, R.uid, R.euid)
TCreate == Ev("Create") /\ Create(R.by, R.ob, R.creator)
TRef == Ev("CreateRefused") /\ CreateRefused(R.by)
TSet == Ev("Seteuid") /\ Seteuid(R.ob, R.x, R.ret)
TExp == Ev("Export") /\ ExportUid(R.from, R.to, R.ret)
TExpE == Ev("ExportErr") /\ ExportError(R.from)
TSnap == Ev("Uids") /\ Snapshot({<<x[1], x[2], x[3]>> : x \in SeqToSet(R.l)})
TraceNext == TReset \/ TAdopt \/ TCreate \/ TRef \/ TSet \/ TExp \/ TExpE \/ TSnap
TraceInit == Init /\ l = 1
TraceSpec == TraceInit /\ [][TraceNext]_tvars
ASSUME TLCSet(1, 0)
Track == TLCSet(1, IF TLCGet(1) < l THEN l ELSE TLCGet(1))
Accepted == IF TLCGet(1) = Len(T) + 1 THEN TRUE
            ELSE PrintT(<<"@@MATCHED", TLCGet(1)>>) /\ FALSE
=============================================================================
