SPECIFICATION GSpec
CONSTANTS Names = {"u1", "o1", "o2", "o3", "o4"}
  Backbone = "Backbone"
  Root = "Root"
  Depth = 4
  Creators = {"d1", "d2", "bb"}
  Policies = {"allow", "deny", "own"}
  SetTo = {"0", "own", "d1", "Root"}
  Sim = FALSE
INVARIANT Emit
INVARIANT NoUidZero
PROPERTY UidChange
PROPERTY EuidChange
CHECK_DEADLOCK FALSE
