------------------------------- MODULE UidsGen -------------------------------
(* P1 + P2 for C20.  The generator runs the abstract specification itself (so every printed
   history is one the specification can follow) over a small universe and prints the input
   part of each step.  P1: TLC checks on the same model that an euid-0 object never creates
   and that uids are never 0 and change only by creation or export.                       *)
EXTENDS Uids, Json

CONSTANTS Depth, Creators, Policies, SetTo, Sim
VARIABLES hist, n
gvars == <<vars, hist, n>>
Pick(S) == IF Sim THEN (IF S = {} THEN {} ELSE {RandomElement(S)}) ELSE S
Ob(i) == "o" \o ToString(i)

GInit == /\ uid = [o \in Names |-> IF o = "u1" THEN Root ELSE Zero]
         /\ euid = [o \in Names |-> IF o = "u1" THEN Root ELSE Zero]
         /\ live = {"u1"} /\ hist = <<>> /\ n = 0
         /\ policy \in Policies

Rec(r) == hist' = Append(hist, r)

GCreate == \E by \in Pick(live), c \in Pick(Creators) :
  /\ n < 4
  /\ IF euid[by] = Zero
     THEN UNCHANGED vars /\ n' = n
     ELSE Create(by, Ob(n + 1), c) /\ n' = n + 1
  /\ Rec([a |-> "create", by |-> by, c |-> c, new |-> IF euid[by] = Zero THEN "none" ELSE Ob(n + 1), refused |-> euid[by] = Zero])
GSet == \E o \in Pick(live), x \in Pick(SetTo) :
  /\ \E r \in {0, 1} : Seteuid(o, IF x = "own" THEN uid[o] ELSE x, r)
  /\ Rec([a |-> "seteuid", ob |-> o, x |-> x]) /\ n' = n
GExp == \E f \in Pick(live), t \in Pick(live) :
  /\ f # t
  /\ IF euid[f] = Zero THEN UNCHANGED vars ELSE \E r \in {0, 1} : ExportUid(f, t, r)
  /\ Rec([a |-> "export", from |-> f, to |-> t]) /\ n' = n

GNext == \/ Len(hist) < Depth /\ (GCreate \/ GSet \/ GExp)
         \/ Len(hist) >= Depth /\ UNCHANGED gvars
GSpec == GInit /\ [][GNext]_gvars

Emit == Len(hist) = Depth => PrintT(<<"@@B", ToJson([policy |-> policy, steps |-> hist])>>)
\* P1 properties
UidChange == [][\A o \in Names : (o \in live /\ uid'[o] # uid[o]) =>
                   \E f \in live : f # o /\ euid[f] # Zero /\ euid[o] = Zero /\ uid'[o] = euid[f]]_vars
EuidChange == [][\A o \in Names : (o \in live /\ euid'[o] # euid[o]) =>
                   (euid'[o] = Zero \/ Approves(o, euid'[o]))]_vars
=============================================================================
