SPECIFICATION TraceSpec
CONSTANTS Names = {"u1", "o1", "o2", "o3", "o4", "x1", "x2", "x3", "x4", "x5", "x6", "x7", "x8", "x9", "x10", "x11", "x12"}
  Backbone = "Backbone"
  Root = "Root"
CONSTRAINT Track
POSTCONDITION Accepted
INVARIANT NoUidZero
CHECK_DEADLOCK FALSE
