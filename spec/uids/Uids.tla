-------------------------------- MODULE Uids --------------------------------
(* Abstract specification of uid / euid (property C20).

   uid[o]  is fixed at creation by the master's creator_file policy (three cases below) and can
           later change only through export_uid from an object with a non-zero euid onto an
           object whose euid is 0.
   euid[o] changes only through o's own seteuid: to 0 always, to x iff the master approves.
   An object whose euid is 0 (other than the master) can never load or clone an object.
   Backbone-trusted creator (creator_file answers the backbone uid): the new object gets the
   loader's EFFECTIVE uid as uid and euid.  (docs/applies/master/creator_file.md says "the uid
   and euid of the object that loaded it"; read as the loader's effective identity, which is
   what the driver and MudOS do - otherwise an object that has lowered its euid could still
   mint objects carrying its real uid, i.e. a uid that no policy decision gave them.)      *)
EXTENDS Integers, FiniteSets, Sequences, TLC

CONSTANTS Names,      \* object names that may appear
          Backbone,   \* the backbone uid
          Root        \* uid of the master / driver-created objects

VARIABLES uid, euid, live, policy
vars == <<uid, euid, live, policy>>

Zero == "0"

Init == /\ uid = [o \in Names |-> Zero] /\ euid = [o \in Names |-> Zero]
        /\ live = {} /\ policy = "allow"

\* an object the driver itself brought up (user object made by the master's connect())
Adopt(o, u, e) == /\ o \notin live /\ live' = live \cup {o}
                  /\ uid' = [uid EXCEPT ![o] = u] /\ euid' = [euid EXCEPT ![o] = e]
                  /\ UNCHANGED policy

Approves(o, x) == CASE policy = "allow" -> TRUE
                    [] policy = "deny" -> FALSE
                    [] policy = "own" -> x = uid[o]
                    [] OTHER -> TRUE

\* load_object / clone_object by `by`; `creator` is what creator_file answers for the file
Create(by, new, creator) ==
  /\ by \in live /\ new \notin live
  /\ euid[by] # Zero                                \* without an euid no object creation
  /\ live' = live \cup {new}
  /\ \/ /\ creator = uid[by]                        \* same creator as the loader: its uid, euid 0
        /\ uid' = [uid EXCEPT ![new] = uid[by]] /\ euid' = [euid EXCEPT ![new] = Zero]
     \/ /\ creator = Backbone /\ creator # uid[by]  \* backbone-trusted: inherits from the loader
        /\ uid' = [uid EXCEPT ![new] = euid[by]]
        /\ euid' = [euid EXCEPT ![new] = euid[by]]
     \/ /\ creator # Backbone /\ creator # uid[by]  \* somebody else's file: creator's uid, euid 0
        /\ uid' = [uid EXCEPT ![new] = creator] /\ euid' = [euid EXCEPT ![new] = Zero]
  /\ UNCHANGED policy

\* a creation attempt that was refused: only legitimate for an euid-0 loader
CreateRefused(by) == by \in live /\ euid[by] = Zero /\ UNCHANGED vars

Seteuid(o, x, ret) ==
  /\ o \in live
  /\ IF x = Zero THEN ret = 1 /\ euid' = [euid EXCEPT ![o] = Zero]
     ELSE IF Approves(o, x) THEN ret = 1 /\ euid' = [euid EXCEPT ![o] = x]
     ELSE ret = 0 /\ euid' = euid
  /\ UNCHANGED <<uid, live, policy>>

ExportUid(from, to, ret) ==
  /\ from \in live /\ to \in live
  /\ euid[from] # Zero
  /\ IF euid[to] = Zero THEN ret = 1 /\ uid' = [uid EXCEPT ![to] = euid[from]]
     ELSE ret = 0 /\ uid' = uid
  /\ UNCHANGED <<euid, live, policy>>

ExportError(from) == from \in live /\ euid[from] = Zero /\ UNCHANGED vars

\* what getuid()/geteuid() show for every live object
Snapshot(l) == /\ \A x \in l : x[1] \in live /\ uid[x[1]] = x[2] /\ euid[x[1]] = x[3]
               /\ UNCHANGED vars

SetPolicy(p) == policy' = p /\ UNCHANGED <<uid, euid, live>>

NoUidZero == \A o \in live : uid[o] # Zero
=============================================================================
