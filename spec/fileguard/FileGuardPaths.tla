---------------------------- MODULE FileGuardPaths ----------------------------
(* P1 / P4 for C15: every string over the path alphabet up to MaxLen; invariant Legal => ~Escapes;
   each string is printed with the reference verdicts for the binding.                      *)
EXTENDS Integers, Sequences, FiniteSets, TLC, Json
CONSTANTS Alphabet, MaxLen
VARIABLES p, inEfun, approvedR, approvedW, policy
INSTANCE FileGuard
pv == <<p>>
PInit == p = <<>> /\ inEfun = "" /\ approvedR = {} /\ approvedW = {} /\ policy = "allow"
PNext == /\ Len(p) < MaxLen /\ \E c \in Alphabet : p' = Append(p, c)
         /\ UNCHANGED <<inEfun, approvedR, approvedW, policy>>
PSpec == PInit /\ [][PNext]_<<p, inEfun, approvedR, approvedW, policy>>
LegalNeverEscapes == Legal(p) => ~Escapes(Final(p))
Emit == PrintT(<<"@@B", ToJson([path |-> p, legal |-> Legal(p), escapes |-> Escapes(Final(p))])>>)
=============================================================================
