------------------------------ MODULE FileGuard ------------------------------
(* Abstract specification of file access (property C15).

   Paths are sequences of characters.  Escapes(p): p is absolute on the host (leading '/') or has
   a '..' component - only such paths can leave the mudlib directory (the driver's working
   directory).  Every file-system call the driver makes must use a path that does not escape.
   Inside a file efun, every file-system call must in addition be covered by an approval the
   master gave during this efun call: valid_read / valid_write answered "allow" (the asked path
   is approved) or answered with another path (that path is approved); a mutating call needs a
   write approval.  Covered = the approved path itself or the approved path extended by a suffix
   (".o", ".tmp", "/name": save files, temporary files, directory entries).
   Legal(p) transcribes legal_path() after the single leading-slash strip of check_valid_path();
   TLC checks Legal(p) => ~Escapes(p) for every string over the path alphabet up to a bound. *)
EXTENDS Integers, Sequences, FiniteSets, TLC

Slash == "/"  Dot == "."  Hash == "#"

\* ---- reference: what it means to leave the mudlib
Components(p) ==
  LET RECURSIVE C(_, _, _)
      C(i, cur, acc) == IF i > Len(p) THEN Append(acc, cur)
                        ELSE IF p[i] = Slash THEN C(i + 1, <<>>, Append(acc, cur))
                        ELSE C(i + 1, Append(cur, p[i]), acc)
  IN C(1, <<>>, <<>>)
Escapes(p) == (Len(p) > 0 /\ p[1] = Slash) \/ \E k \in 1 .. Len(Components(p)) : Components(p)[k] = <<Dot, Dot>>

\* ---- transcription of legal_path() (lib/efuns/file_utils.c)
At(p, i) == IF i >= 1 /\ i <= Len(p) THEN p[i] ELSE "NUL"
\* index of the next "/." at or after position i (0 if none): strstr(p + i, "/.")
RECURSIVE NextSlashDot(_, _)
NextSlashDot(p, i) == IF i >= Len(p) THEN 0 ELSE IF p[i] = Slash /\ p[i + 1] = Dot THEN i ELSE NextSlashDot(p, i + 1)
RECURSIVE Scan(_, _)
Scan(p, i) ==       \* i = position of the component start being examined (1-based), 0 = done
  IF i = 0 THEN TRUE
  ELSE IF At(p, i) = Dot
       THEN IF At(p, i + 1) = "NUL" THEN TRUE                      \* trailing '.' ok
            ELSE LET j == IF At(p, i + 1) = Dot THEN i + 1 ELSE i IN
                 IF At(p, j + 1) = Slash \/ At(p, j + 1) = "NUL" THEN FALSE
                 ELSE LET n == NextSlashDot(p, j) IN Scan(p, IF n = 0 THEN 0 ELSE n + 1)
       ELSE LET n == NextSlashDot(p, i) IN Scan(p, IF n = 0 THEN 0 ELSE n + 1)
LegalPath(p) ==
  /\ ~(Len(p) > 0 /\ p[1] = Slash)
  /\ \A k \in 1 .. Len(p) : p[k] # Hash
  /\ (p = <<>> \/ Scan(p, 1))
\* check_valid_path(): strip one leading slash, "" means "."
Final(p) == LET q == IF Len(p) > 0 /\ p[1] = Slash THEN Tail(p) ELSE p IN IF q = <<>> THEN <<Dot>> ELSE q
Legal(p) == LegalPath(Final(p))

-----------------------------------------------------------------------------
\* ---- behavioural part (trace validation)
VARIABLES inEfun, approvedR, approvedW, policy
vars == <<inEfun, approvedR, approvedW, policy>>
Init == inEfun = "" /\ approvedR = {} /\ approvedW = {} /\ policy = "allow"

IsPrefix(s, t) == Len(s) <= Len(t) /\ SubSeq(t, 1, Len(s)) = s
\* an ancestor directory of an approved path (get_dir / stat list the directory part of a pattern), or
\* the approved path without its trailing slashes
Ancestor(p, a) == IsPrefix(p, a) /\ (Len(p) = Len(a) \/ At(a, Len(p) + 1) = Slash)
\* directory listings stat the entries of the directory an approved pattern names
Listing == {"get_dir", "get_dir_l", "stat"}
RECURSIVE LastSlash(_, _)
LastSlash(p, i) == IF i = 0 THEN 0 ELSE IF p[i] = Slash THEN i ELSE LastSlash(p, i - 1)
DirOf(p) == SubSeq(p, 1, LastSlash(p, Len(p)))
Sibling(S, p) == \E a \in S : DirOf(a) = DirOf(p) \/ IsPrefix(a \o <<Slash>>, p) \/ IsPrefix(a, p)
Covered(S, p) == \E a \in S : IsPrefix(a, p) \/ Ancestor(p, a) \/ a = <<Dot>> \/ p = <<Dot>>   \* "." is the directory of every top-level name

EfunBegin(ef) == /\ inEfun = "" /\ inEfun' = ef /\ approvedR' = {} /\ approvedW' = {} /\ UNCHANGED policy
EfunEnd == /\ inEfun # "" /\ inEfun' = "" /\ approvedR' = {} /\ approvedW' = {} /\ UNCHANGED policy

\* the master was asked; its answer: "deny", "allow", or a rewritten path
Ask(kind, asked, answer, rewritten) ==
  /\ inEfun # ""
  /\ LET p == IF answer = "allow" THEN Final(asked) ELSE Final(rewritten) IN
     IF answer = "deny" THEN UNCHANGED <<approvedR, approvedW>>
     ELSE IF kind = "write" THEN approvedW' = approvedW \cup {p} /\ approvedR' = approvedR \cup {p}
     ELSE approvedR' = approvedR \cup {p} /\ approvedW' = approvedW
  /\ UNCHANGED <<inEfun, policy>>

\* a file-system call of the driver process
Fs(path, mutating) ==
  /\ ~Escapes(path)                                   \* never outside the mudlib
  /\ inEfun # "" => (IF mutating THEN Covered(approvedW, path)
                     ELSE Covered(approvedR, path) \/ (inEfun \in Listing /\ Sibling(approvedR, path)))
  /\ UNCHANGED vars
=============================================================================
