SPECIFICATION PSpec
CONSTANTS Alphabet = {"a", ".", "/", "#"}
  MaxLen = 5
INVARIANT LegalNeverEscapes
INVARIANT Emit
CHECK_DEADLOCK FALSE
