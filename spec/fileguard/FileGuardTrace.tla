---------------------------- MODULE FileGuardTrace ----------------------------
EXTENDS FileGuard, Json, IOUtils
T == ndJsonDeserialize(IOEnv.TRACE)
VARIABLE l
tvars == <<vars, l>>
Ev(name) == l <= Len(T) /\ T[l].e = name /\ l' = l + 1
R == T[l]
TReset == Ev("Reset") /\ inEfun' = "" /\ approvedR' = {} /\ approvedW' = {} /\ policy' = R.policy
TBeg == Ev("EfunBegin") /\ EfunBegin(R.efun)
TEnd == Ev("EfunEnd") /\ EfunEnd
TAsk == Ev("Ask") /\ Ask(R.kind, R.path, R.answer, R.rewritten)
TFs == Ev("Fs") /\ Fs(R.path, R.mut)
TraceNext == TReset \/ TBeg \/ TEnd \/ TAsk \/ TFs
TraceInit == Init /\ l = 1
TraceSpec == TraceInit /\ [][TraceNext]_tvars
ASSUME TLCSet(1, 0)
Track == TLCSet(1, IF TLCGet(1) < l THEN l ELSE TLCGet(1))
Accepted == IF TLCGet(1) = Len(T) + 1 THEN TRUE
            ELSE PrintT(<<"@@MATCHED", TLCGet(1)>>) /\ FALSE
=============================================================================
