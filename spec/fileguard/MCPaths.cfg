SPECIFICATION PSpec
CONSTANTS Alphabet = {"a", ".", "/", "#"}
  MaxLen = 8
INVARIANT LegalNeverEscapes
CHECK_DEADLOCK FALSE
