---------------------------- MODULE SurfaceTrace ----------------------------
(* P3 for C01: the log of a batch of evaluations must read Call, Return(value | error), Call, Return, ... and end
   with the driver alive: a Call without its Return (the process died or hung inside the evaluation), or a batch
   that ends with a failure report, is not a behaviour of Surface.                                            *)
EXTENDS Integers, Sequences, TLC, Json, IOUtils
T == ndJsonDeserialize(IOEnv.TRACE)
VARIABLES l, open
vars == <<l, open>>
Ev(name) == l <= Len(T) /\ T[l].e = name /\ l' = l + 1
R == T[l]
TReset == Ev("Reset") /\ open' = FALSE
TCall == Ev("Call") /\ ~open /\ open' = TRUE
TReturn == Ev("Return") /\ open /\ R.out \in {"value", "error"} /\ open' = FALSE
TAlive == Ev("Alive") /\ ~open /\ R.clean /\ UNCHANGED open
TraceNext == TReset \/ TCall \/ TReturn \/ TAlive
Init == l = 1 /\ open = FALSE
TraceSpec == Init /\ [][TraceNext]_vars
ASSUME TLCSet(1, 0)
Track == TLCSet(1, IF TLCGet(1) < l THEN l ELSE TLCGet(1))
Accepted == IF TLCGet(1) = Len(T) + 1 THEN TRUE
            ELSE PrintT(<<"@@MATCHED", TLCGet(1)>>) /\ FALSE
=============================================================================
