------------------------------- MODULE Surface -------------------------------
(* The call surface of the virtual machine (property C01).

   An evaluation applies one efun or one operator to argument values of arbitrary kinds.  Whatever the
   kinds, the evaluation ends in exactly one of two ways - it returns a value or it raises an LPC runtime
   error - and the driver process is alive afterwards (no signal, no exit, no sanitizer report).

   The generator part enumerates the surface: every efun of the efun specification (MCSurface.tla is
   written from lib/efuns/func_spec.c by the check) x every argument position x every value kind, with
   the other positions holding a value of the declared type ("typ"); every binary / unary / index / range
   operator x every combination of kinds; sscanf with every format of up to three directives x 0..3 lvalues
   x five inputs (its result must be an integer between 0 and 4: three directives and the rest of the input, which goes to a further lvalue); and, by simulation, calls with all positions random.  *)
EXTENDS Integers, Sequences, FiniteSets, TLC, Json
CONSTANTS Efuns,        \* set of efun names
          MaxArgs,      \* name -> number of argument positions to vary (declared maximum, capped)
          Kinds,        \* value kinds
          BinOps, UnOps,
          Sim
VARIABLES call, phase
vars == <<call, phase>>
Pick(S) == IF Sim THEN {RandomElement(S)} ELSE S
None == [t |-> "none"]

\* abstract outcome of an evaluation
Outcome == {"value", "error"}
Returns(c, out) == out \in Outcome          \* every call returns one of the two; nothing else is a behaviour

Init == call = None /\ phase = "pick"
PickEfunPos == /\ phase = "pick"
               /\ \E e \in Pick({x \in Efuns : MaxArgs[x] >= 1}) : \E p \in Pick(1..MaxArgs[e]) : \E k \in Pick(Kinds) :
                    call' = [t |-> "efun", name |-> e, pos |-> p, kind |-> k]
               /\ phase' = "done"
PickEfunAll == /\ phase = "pick" /\ Sim
               /\ \E e \in Pick(Efuns) : \E k1 \in Pick(Kinds), k2 \in Pick(Kinds), k3 \in Pick(Kinds), k4 \in Pick(Kinds) :
                    call' = [t |-> "efunall", name |-> e, kinds |-> <<k1, k2, k3, k4>>]
               /\ phase' = "done"
PickBin == /\ phase = "pick"
           /\ \E o \in Pick(BinOps), a \in Pick(Kinds), b \in Pick(Kinds) : call' = [t |-> "bin", op |-> o, a |-> a, b |-> b]
           /\ phase' = "done"
PickUn == /\ phase = "pick"
          /\ \E o \in Pick(UnOps), a \in Pick(Kinds) : call' = [t |-> "un", op |-> o, a |-> a]
          /\ phase' = "done"
PickIndex == /\ phase = "pick"
             /\ \E f \in Pick({"index", "rindex", "index_lv", "rindex_lv"}), a \in Pick(Kinds), b \in Pick(Kinds) :
                  call' = [t |-> "idx", form |-> f, a |-> a, b |-> b]
             /\ phase' = "done"
PickRange == /\ phase = "pick" /\ Sim
             /\ \E f \in Pick({"nn", "rn", "nr", "rr", "ne", "re", "nn_lv", "rr_lv"}), a \in Pick(Kinds), b \in Pick(Kinds), c \in Pick(Kinds), d \in Pick(Kinds) :
                  call' = [t |-> "rng", form |-> f, a |-> a, b |-> b, c |-> c, d |-> d]
             /\ phase' = "done"
\* sscanf is a language form, not an efun of the specification: format directives x number of lvalues x input
ScanDirs == {"", "%s", "%d", "%x", "%f", "%(a+)", "%*s", "%*d", " ", "x"}
ScanInputs == {"ab 12", "xaaa1.5x", "0x1f 7", "ab0", ""}
PickScan == /\ phase = "pick"
            /\ \E d1 \in Pick(ScanDirs), d2 \in Pick(ScanDirs), d3 \in Pick(ScanDirs), n \in Pick(0..3), i \in Pick(ScanInputs) :
                 call' = [t |-> "scan", fmt |-> d1 \o d2 \o d3, nlv |-> n, inp |-> i]
            /\ phase' = "done"
Done == phase = "done" /\ UNCHANGED vars
Next == PickEfunPos \/ PickEfunAll \/ PickBin \/ PickUn \/ PickIndex \/ PickRange \/ PickScan \/ Done
Spec == Init /\ [][Next]_vars
Emit == phase = "done" => PrintT(<<"@@B", ToJson(call)>>)
=============================================================================
