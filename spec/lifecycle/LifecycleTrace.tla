--------------------------- MODULE LifecycleTrace ---------------------------
EXTENDS Lifecycle, Json, IOUtils, TLC
T == ndJsonDeserialize(IOEnv.TRACE)
VARIABLE l
tvars == <<vars, l>>
Ev(name) == l <= Len(T) /\ T[l].e = name /\ l' = l + 1
R_ == T[l]
TReset == /\ Ev("Reset") /\ now' = 0 /\ alive' = {} /\ lo' = [o \in Objs |-> 0] /\ hi' = [o \in Objs |-> 0]
          /\ fresh' = [o \in Objs |-> TRUE] /\ cleanable' = [o \in Objs |-> TRUE] /\ lastRef' = [o \in Objs |-> 0]
          /\ nextScan' = R_.nextscan /\ scanning' = FALSE /\ refAt' = [o \in Objs |-> 0] /\ dueAt' = {} /\ cuAt' = {} /\ done' = {}
TCreated == Ev("Created") /\ Created(R_.ob, R_.t)
TTouch == Ev("Touch") /\ Touch(R_.ob)
TFailed == Ev("HookFailed") /\ HookFailed(R_.ob)
TSetReset == Ev("SetReset") /\ SetReset(R_.ob, R_.n)
TDest == Ev("Destructed") /\ Destructed(R_.ob)
TTick == Ev("Tick") /\ Tick(R_.t)
TResetRun == Ev("ResetRun") /\ ResetRun(R_.ob)
TCleanUp == Ev("CleanUp") /\ CleanUp(R_.ob, R_.again)
TScanEnd == Ev("ScanEnd") /\ ScanEnd
TraceNext == TReset \/ TCreated \/ TTouch \/ TFailed \/ TSetReset \/ TDest \/ TTick \/ TResetRun \/ TCleanUp \/ TScanEnd
TraceInit == Init /\ l = 1
TraceSpec == TraceInit /\ [][TraceNext]_tvars
ASSUME TLCSet(1, 0)
Track == TLCSet(1, IF TLCGet(1) < l THEN l ELSE TLCGet(1))
Accepted == IF TLCGet(1) = Len(T) + 1 THEN TRUE
            ELSE PrintT(<<"@@MATCHED", TLCGet(1)>>) /\ FALSE
=============================================================================
