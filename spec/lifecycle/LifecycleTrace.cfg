SPECIFICATION TraceSpec
CONSTANTS Objs = {"o1", "o2", "o3"}
  R = 100
  C = 300
  ScanEvery = 900
CONSTRAINT Track
POSTCONDITION Accepted
INVARIANT TypeOK
CHECK_DEADLOCK FALSE
