SPECIFICATION Spec
CONSTANTS MaxLen = 3
  Dts = {400, 901, 1300}
  Sim = FALSE
INVARIANT Emit
CHECK_DEADLOCK FALSE
