SPECIFICATION Spec
CONSTANTS MaxLen = 4
  Dts = {60, 400, 901}
  Sim = FALSE
INVARIANT Emit
CHECK_DEADLOCK FALSE
