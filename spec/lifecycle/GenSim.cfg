SPECIFICATION Spec
CONSTANTS MaxLen = 9
  Dts = {1, 60, 400, 899, 901, 950, 1000, 1201, 1300, 2000}
  Sim = TRUE
INVARIANT Emit
CHECK_DEADLOCK FALSE
