------------------------------ MODULE Lifecycle ------------------------------
(* reset() and clean_up(): the periodic object scan of the backend (src/backend.c look_for_objects_to_swap,
   lib/lpc/object.c reset_object / call_create, src/apply.c time_of_ref / O_RESET_STATE, f_set_reset).

   The scan runs at a timer tick, at most once per ScanEvery seconds (the first tick always scans).  In a scan, for
   every live object:
     reset()    runs iff the object has been used since its last reset (or creation) and its reset time - drawn in
                [t + R/2, t + R) at creation and at every reset, or set exactly by set_reset(ob, n) - has passed;
     clean_up() runs iff CleanupDuration C > 0, the object has not been used for more than C seconds (measured
                before this scan's own reset of it) and it has not answered 0 to an earlier clean_up().
   Both run at most once per object and scan.  An error in one object's reset() / clean_up(), or objects destructed
   by them, do not deprive the other objects of theirs in the same scan.                                          *)
EXTENDS Integers, Sequences, FiniteSets

CONSTANTS Objs, R, C, ScanEvery

VARIABLES now, alive,
          lo, hi,      \* Objs -> bounds of the time of the next reset
          fresh,       \* Objs -> not used since the last reset / creation (O_RESET_STATE)
          cleanable,   \* Objs -> clean_up() will still be called
          lastRef,     \* Objs -> time of the last use
          nextScan,
          scanning,    \* the scan of the current tick is in progress
          refAt,       \* Objs -> lastRef when the scan began
          dueAt,       \* objects whose reset was certainly due when the scan began / whose clean_up was due
          cuAt,
          done         \* {<<"r", o>>, <<"c", o>>} run in this scan
vars == <<now, alive, lo, hi, fresh, cleanable, lastRef, nextScan, scanning, refAt, dueAt, cuAt, done>>

Init == /\ now = 0 /\ alive = {} /\ lo = [o \in Objs |-> 0] /\ hi = [o \in Objs |-> 0]
        /\ fresh = [o \in Objs |-> TRUE] /\ cleanable = [o \in Objs |-> TRUE] /\ lastRef = [o \in Objs |-> 0]
        /\ nextScan = 0 /\ scanning = FALSE /\ refAt = [o \in Objs |-> 0] /\ dueAt = {} /\ cuAt = {} /\ done = {}

Half == R \div 2
NextLo(t) == t + Half
NextHi(t) == t + Half + (IF Half > 0 THEN Half - 1 ELSE 0)

Created(o, t) ==
  /\ o \notin alive /\ t >= now /\ alive' = alive \cup {o}
  /\ lo' = [lo EXCEPT ![o] = NextLo(t)] /\ hi' = [hi EXCEPT ![o] = NextHi(t)]
  /\ fresh' = [fresh EXCEPT ![o] = TRUE] /\ cleanable' = [cleanable EXCEPT ![o] = TRUE]
  /\ lastRef' = [lastRef EXCEPT ![o] = t] /\ now' = t
  /\ UNCHANGED <<nextScan, scanning, refAt, dueAt, cuAt, done>>

\* somebody calls a function in o
\* (during a scan: an object used by another object's hook before its own turn is no longer idle)
Touch(o) == /\ o \in alive /\ fresh' = [fresh EXCEPT ![o] = FALSE] /\ lastRef' = [lastRef EXCEPT ![o] = now]
            /\ cuAt' = cuAt \ {o}
            /\ UNCHANGED <<now, alive, lo, hi, cleanable, nextScan, scanning, refAt, dueAt, done>>
\* o's own reset() / clean_up() raised an error: the scan goes on with the others; what is still owed to o itself in
\* this scan is not judged (the property of the scan is about the OTHER objects)
\* A hook that failed leaves the object "used" (it is not in the state a completed reset leaves), and a failed
\* clean_up() has given no answer: it will be asked again.
HookFailed(o) == /\ cuAt' = cuAt \ {o} /\ dueAt' = dueAt \ {o}
                 /\ fresh' = [fresh EXCEPT ![o] = FALSE] /\ cleanable' = [cleanable EXCEPT ![o] = TRUE]
                 /\ UNCHANGED <<now, alive, lo, hi, lastRef, nextScan, scanning, refAt, done>>

SetReset(o, n) == /\ o \in alive /\ lo' = [lo EXCEPT ![o] = now + n] /\ hi' = [hi EXCEPT ![o] = now + n]
                  /\ UNCHANGED <<now, alive, fresh, cleanable, lastRef, nextScan, scanning, refAt, dueAt, cuAt, done>>

Destructed(o) == /\ alive' = alive \ {o}
                 /\ UNCHANGED <<now, lo, hi, fresh, cleanable, lastRef, nextScan, scanning, refAt, dueAt, cuAt, done>>

\* a timer tick at time t: the scan starts if its time has come
Tick(t) ==
  /\ t >= now /\ now' = t /\ ~scanning
  /\ IF t >= nextScan
     THEN /\ scanning' = TRUE /\ nextScan' = t + ScanEvery /\ refAt' = lastRef /\ done' = {}
          /\ dueAt' = {o \in alive : ~fresh[o] /\ hi[o] < t}
          /\ cuAt' = {o \in alive : C > 0 /\ t - lastRef[o] > C /\ cleanable[o]}
     ELSE UNCHANGED <<scanning, nextScan, refAt, done, dueAt, cuAt>>
  /\ UNCHANGED <<alive, lo, hi, fresh, cleanable, lastRef>>

ResetRun(o) ==
  /\ scanning /\ o \in alive /\ <<"r", o>> \notin done
  /\ ~fresh[o] /\ lo[o] < now                      \* used since the last reset, and its time may have come
  /\ fresh' = [fresh EXCEPT ![o] = TRUE]
  /\ lo' = [lo EXCEPT ![o] = NextLo(now)] /\ hi' = [hi EXCEPT ![o] = NextHi(now)]
  /\ lastRef' = [lastRef EXCEPT ![o] = now]
  /\ done' = done \cup {<<"r", o>>}
  /\ UNCHANGED <<now, alive, cleanable, nextScan, scanning, refAt, dueAt, cuAt>>

\* what happens inside reset() counts as a use of the object again only if somebody calls it again (Touch)
CleanUp(o, again) ==
  /\ scanning /\ o \in alive /\ <<"c", o>> \notin done
  /\ C > 0 /\ cleanable[o] /\ now - refAt[o] > C
  /\ cleanable' = [cleanable EXCEPT ![o] = again]
  /\ lastRef' = [lastRef EXCEPT ![o] = now]
  /\ done' = done \cup {<<"c", o>>}
  /\ UNCHANGED <<now, alive, lo, hi, fresh, nextScan, scanning, refAt, dueAt, cuAt>>

\* the scan is over (the backend polls again): nobody who was due has been left out
ScanEnd ==
  /\ scanning' = FALSE
  /\ scanning => /\ \A o \in dueAt \cap alive : <<"r", o>> \in done
                 /\ \A o \in cuAt \cap alive : <<"c", o>> \in done
  /\ UNCHANGED <<now, alive, lo, hi, fresh, cleanable, lastRef, nextScan, refAt, dueAt, cuAt, done>>

TypeOK == \A o \in alive : lo[o] <= hi[o]
=============================================================================
