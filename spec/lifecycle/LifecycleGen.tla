---------------------------- MODULE LifecycleGen ----------------------------
(* Histories for Lifecycle: uses of objects, set_reset, what reset() / clean_up() of an object do when they run
   (nothing, raise an error, destruct the object itself or another one, answer 0), and ticks of various lengths
   around ResetDuration, CleanupDuration and the 900 s scan period.                                         *)
EXTENDS Integers, Sequences, FiniteSets, TLC, Json
CONSTANTS MaxLen, Dts, Sim
VARIABLES hist
Pick(S) == IF Sim THEN (IF S = {} THEN {} ELSE {RandomElement(S)}) ELSE S
O == {"o1", "o2", "o3"}
Init == hist = <<>>
More == Len(hist) < MaxLen
Step == [a : {"touch"}, o : O] \cup [a : {"sreset"}, o : O, n : {5, 2000}]
        \cup [a : {"hook"}, o : O, h : {"reset", "cleanup"}, w : {"err", "destself", "destother", "touchother"}]
        \cup [a : {"ret0"}, o : O] \cup [a : {"tick"}, dt : Dts]
Next == \/ More /\ \E s \in Pick(Step) : hist' = Append(hist, s)
        \/ ~More /\ UNCHANGED hist
Spec == Init /\ [][Next]_hist
NTicks == Cardinality({k \in 1..Len(hist) : hist[k].a = "tick"})
Emit == (Len(hist) = MaxLen /\ NTicks >= 1 /\ hist[MaxLen].a = "tick") => PrintT(<<"@@B", ToJson(hist)>>)
=============================================================================
