---------------------------- MODULE CallOutWheel ----------------------------
(* Implementation-shaped model of lib/efuns/call_out.c: the timing wheel.

   One action per critical section of the C code, same variables as the C statics, constants
   scaled down (C slots instead of 32).  Every entry carries a ghost field `due` (the time the
   abstract specification CallOut assigns: now + max(d,1)); the invariants compare what the
   wheel does with that ghost:
     NeverEarly   an entry fires only when due <= current_time
     OnTime       when the sweep of a tick has finished nothing with due <= current_time is left
     TimeLeftOk   find/remove_call_out answer due - current_time for an entry that is not overdue
   Fixed = FALSE transcribes call_out() as it was at the pinned commit (call_out_time++ after
   the callbacks of a second have run); Fixed = TRUE transcribes the repaired loop
   (call_out_time++ before them).                                                          *)
EXTENDS Integers, Sequences, FiniteSets, TLC

CONSTANTS C,          \* CALLOUT_CYCLE_SIZE
          Delays,     \* delays a call_out may be given
          Spacings,   \* seconds between two ticks
          MaxTime,    \* bound on current_time
          MaxPending, \* bound on entries in the wheel
          MaxCbOps,   \* operations a callback performs
          Fixed       \* which version of call_out() is modelled

VARIABLES ct,      \* current_time
          cot,     \* call_out_time
          wheel,   \* call_list[]: slot -> sequence of [delta, due]
          phase,   \* "idle" | "sweep" | "fire" | "cb"
          tm,      \* slot being swept
          ops,     \* operations done by the running callback
          bad      \* "none" or the name of the violated rule
vars == <<ct, cot, wheel, phase, tm, ops, bad>>

Slots == 0 .. C - 1
Count == LET RECURSIVE S(_) S(s) == IF s = C THEN 0 ELSE Len(wheel[s]) + S(s + 1) IN S(0)
AllEntries == UNION {{wheel[s][i] : i \in 1 .. Len(wheel[s])} : s \in Slots}

Init == /\ ct = 0 /\ cot = 0 /\ wheel = [s \in Slots |-> <<>>] /\ phase = "idle"
        /\ tm = 0 /\ ops = 0 /\ bad = "none"

RECURSIVE Ins(_, _, _)
\* the ordered delta insert of new_call_out()
Ins(L, e, r) ==
  IF L = <<>> THEN <<[e EXCEPT !.delta = r]>>
  ELSE IF Head(L).delta >= r
       THEN <<[e EXCEPT !.delta = r], [Head(L) EXCEPT !.delta = @ - r]>> \o Tail(L)
       ELSE <<Head(L)>> \o Ins(Tail(L), e, r - Head(L).delta)

\* new_call_out(): slot and number of rotations
NewCallOut(d) ==
  LET dd   == IF d < 1 THEN 1 ELSE d
      slot == (dd + ct) % C
      rot  == 1 + ((dd + ct - cot - 1) \div C)
      e    == [delta |-> 0, due |-> ct + dd]
  IN  /\ Count < MaxPending
      /\ wheel' = [wheel EXCEPT ![slot] = Ins(@, e, rot)]

RECURSIVE Cum(_, _)
Cum(L, k) == IF k = 0 THEN 0 ELSE L[k].delta + Cum(L, k - 1)

\* time_left()
TimeLeft(slot, delay) ==
  LET cs == cot % C IN
  IF slot > cs THEN (delay - 1) * C + (slot - cs) + cot - ct
               ELSE delay * C + (slot - cs) + cot - ct

\* find_call_out / remove_call_out on entry k of slot s
Check(s, k) ==
  LET e == wheel[s][k] IN
  IF e.due > ct /\ TimeLeft(s, Cum(wheel[s], k)) # e.due - ct THEN "timeleft" ELSE bad

RemoveAt(L, k) ==
  LET fixed == IF k < Len(L) THEN [L EXCEPT ![k + 1].delta = @ + L[k].delta] ELSE L
  IN  SubSeq(fixed, 1, k - 1) \o SubSeq(fixed, k + 1, Len(fixed))

\* ---- operations available both at top level (phase idle) and inside a callback (phase cb)
CanOp == phase = "idle" \/ (phase = "cb" /\ ops < MaxCbOps)
Bump == ops' = IF phase = "cb" THEN ops + 1 ELSE ops

Schedule(d) ==
  /\ CanOp /\ NewCallOut(d) /\ Bump
  /\ UNCHANGED <<ct, cot, phase, tm, bad>>

FindOp(s, k) ==
  /\ CanOp /\ k \in 1 .. Len(wheel[s])
  /\ bad' = Check(s, k) /\ Bump
  /\ UNCHANGED <<ct, cot, wheel, phase, tm>>

RemoveOp(s, k) ==
  /\ CanOp /\ k \in 1 .. Len(wheel[s])
  /\ bad' = Check(s, k)
  /\ wheel' = [wheel EXCEPT ![s] = RemoveAt(@, k)] /\ Bump
  /\ UNCHANGED <<ct, cot, phase, tm>>

\* ---- the timer tick: call_heart_beat() reads the clock, call_out() sweeps
Tick(dt) ==
  /\ phase = "idle" /\ ct + dt <= MaxTime
  /\ ct' = ct + dt /\ phase' = "sweep"
  /\ UNCHANGED <<cot, wheel, tm, ops, bad>>

\* while (call_out_time < current_time) { ... }
SweepSecond ==
  /\ phase = "sweep" /\ cot < ct
  /\ LET slot == (cot + 1) % C IN
     /\ tm' = slot
     /\ IF wheel[slot] # <<>>
        THEN /\ wheel' = [wheel EXCEPT ![slot][1].delta = @ - 1]
             /\ IF wheel[slot][1].delta - 1 = 0
                THEN phase' = "fire" /\ cot' = IF Fixed THEN cot + 1 ELSE cot
                ELSE phase' = "sweep" /\ cot' = cot + 1
        ELSE wheel' = wheel /\ phase' = "sweep" /\ cot' = cot + 1
  /\ UNCHANGED <<ct, ops, bad>>

\* do { cop = call_list[tm]; ... } while (call_list[tm] && call_list[tm]->delta == 0)
FireHead ==
  /\ phase = "fire"
  /\ IF wheel[tm] # <<>> /\ wheel[tm][1].delta = 0
     THEN /\ bad' = IF wheel[tm][1].due > ct THEN "early" ELSE bad
          /\ wheel' = [wheel EXCEPT ![tm] = Tail(@)]
          /\ phase' = "cb" /\ ops' = 0 /\ cot' = cot
     ELSE /\ phase' = "sweep" /\ cot' = IF Fixed THEN cot ELSE cot + 1
          /\ UNCHANGED <<wheel, ops, bad>>
  /\ UNCHANGED <<ct, tm>>

CallbackReturns ==
  /\ phase = "cb" /\ phase' = "fire"
  /\ UNCHANGED <<ct, cot, wheel, tm, ops, bad>>

SweepEnd ==
  /\ phase = "sweep" /\ cot = ct
  /\ phase' = "idle"
  /\ bad' = IF \E e \in AllEntries : e.due <= ct THEN "late" ELSE bad
  /\ UNCHANGED <<ct, cot, wheel, tm, ops>>

Next == \/ \E d \in Delays : Schedule(d)
        \/ \E s \in Slots : \E k \in 1 .. MaxPending : FindOp(s, k) \/ RemoveOp(s, k)
        \/ \E dt \in Spacings : Tick(dt)
        \/ SweepSecond \/ FireHead \/ CallbackReturns \/ SweepEnd

Spec == Init /\ [][Next]_vars

NoViolation == bad = "none"
DeltasSane == \A s \in Slots : \A i \in 1 .. Len(wheel[s]) : wheel[s][i].delta >= 0
=============================================================================
