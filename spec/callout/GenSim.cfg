SPECIFICATION Spec
CONSTANTS Depth = 7
  Delays = {0, 1, 2, 31, 32, 33, 63, 64, 65}
  Spacings = {1, 2, 31, 32, 33, 70}
  Scripts = {"none", "co1", "co31", "co32", "co33", "co64", "rmh", "fdh", "rmn", "fdn", "err", "co32err", "dest", "co32x2"}
  MaxSched = 4
  Sim = TRUE
INVARIANT Emit
CHECK_DEADLOCK FALSE
