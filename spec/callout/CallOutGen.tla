---------------------------- MODULE CallOutGen ----------------------------
(* Behaviour enumeration for C10 (P2): input histories only.  Each complete history is printed
   as one JSON line; tools/c10.py turns it into a scenario script for the real driver.  The
   expected observations are NOT part of a script: the verdict comes from validating the
   recorded trace against CallOut (CallOutTrace).                                          *)
EXTENDS Integers, Sequences, FiniteSets, TLC, Json

CONSTANTS Depth,      \* number of steps of a history
          Delays,     \* delays given to call_out at top level
          Spacings,   \* seconds per tick step
          Scripts,    \* what a callback does when it fires
          MaxSched,   \* at most this many top-level call_outs per history
          Sim         \* TRUE under -simulate: one random successor per step

VARIABLES hist, nsched
vars == <<hist, nsched>>

Targets == {<<"o1", "A">>, <<"o1", "B">>, <<"o2", "A">>}

Step ==
  [a : {"co"}, ob : {"o1", "o2"}, fn : {"A", "B"}, d : Delays, scr : Scripts]
  \cup [a : {"tick"}, dt : Spacings, join : BOOLEAN]
  \cup [a : {"rmh", "fdh"}, k : 1 .. MaxSched]
  \cup [a : {"rmn", "fdn"}, ob : {"o1"}, fn : {"A"}]
  \cup [a : {"dest"}, ob : {"o2"}]

Pick(S) == IF Sim THEN (IF S = {} THEN {} ELSE {RandomElement(S)}) ELSE S

Init == hist = <<>> /\ nsched = 0

Ok(s) ==
  /\ s.a = "co" => /\ nsched < MaxSched /\ <<s.ob, s.fn>> \in Targets
  /\ s.a \in {"rmh", "fdh"} => s.k <= nsched
  /\ s.a \in {"rmn", "fdn", "dest"} => nsched > 0
  /\ s.a = "tick" => (s.join => Len(hist) > 0 /\ hist[Len(hist)].a # "tick")
  /\ Len(hist) = 0 => s.a = "co"

Next == \/ Len(hist) >= Depth /\ UNCHANGED vars      \* keeps -simulate traces alive to their depth
        \/ /\ Len(hist) < Depth
           /\ \E s \in Pick({x \in Step : Ok(x)}) :
                             /\ TRUE
                             /\ hist' = Append(hist, s)
                             /\ nsched' = IF s.a = "co" THEN nsched + 1 ELSE nsched

Spec == Init /\ [][Next]_vars

HasTick == \E i \in 1 .. Len(hist) : hist[i].a = "tick"
Emit == (Len(hist) = Depth /\ HasTick) => PrintT(<<"@@B", ToJson(hist)>>)
=============================================================================
