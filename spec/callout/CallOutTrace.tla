--------------------------- MODULE CallOutTrace ---------------------------
(* Trace validation of recorded driver executions against CallOut (P3).
   The trace file (env TRACE) is ndjson; executions are separated by {"e":"Reset"}.      *)
EXTENDS CallOut, Json, IOUtils, TLC

T == ndJsonDeserialize(IOEnv.TRACE)

VARIABLE l
tvars == <<vars, l>>

Ev(name) == l <= Len(T) /\ T[l].e = name /\ l' = l + 1
R == T[l]

SeqToSet(s) == {s[i] : i \in 1..Len(s)}

TReset == /\ Ev("Reset")
          /\ now' = T0 /\ pending' = {} /\ dead' = {} /\ used' = {} /\ sweeping' = FALSE
TSched == Ev("Sched") /\ Sched(R.ob, R.fn, R.id, R.d, R.h)
TTick  == Ev("TickBegin") /\ TickBegin(R.now)
TFire  == Ev("Fire") /\ Fire(R.ob, R.fn, R.id)
TRmN   == Ev("RmName") /\ Remove(ByName(R.ob, R.fn), R.ret)
TRmH   == Ev("RmHandle") /\ Remove(ById(R.id), R.ret)
TFdN   == Ev("FdName") /\ Find(ByName(R.ob, R.fn), R.ret)
TFdH   == Ev("FdHandle") /\ Find(ById(R.id), R.ret)
TDest  == Ev("Destruct") /\ Destruct(R.ob)
TPoll  == Ev("Poll") /\ Poll({<<x[1], x[2], x[3]>> : x \in SeqToSet(R.view)}, Len(R.view))

TraceNext == TReset \/ TSched \/ TTick \/ TFire \/ TRmN \/ TRmH \/ TFdN \/ TFdH \/ TDest \/ TPoll

TraceInit == Init /\ l = 1
TraceSpec == TraceInit /\ [][TraceNext]_tvars

ASSUME TLCSet(1, 0)
Track == TLCSet(1, IF TLCGet(1) < l THEN l ELSE TLCGet(1))
Accepted == IF TLCGet(1) = Len(T) + 1 THEN TRUE
            ELSE PrintT(<<"@@MATCHED", TLCGet(1)>>) /\ FALSE
=============================================================================
