------------------------------ MODULE CallOut ------------------------------
(* Abstract specification of call_out (property C10).

   State is what the property talks about: the driver's clock `now` (whole seconds, as of the
   last timer tick), the set of pending call_outs with their due time, and the destructed
   objects.  Every action takes its observable results as parameters, so the trace
   specification can bind logged values and a model-checking Next can choose them.

   Where the property is silent the specification is nondeterministic:
     - order of firings within one tick;
     - handle values (only: non-zero, unique among pending entries);
     - which of several entries with the same (object, function) a by-name remove/find picks;
     - what find/remove answer for an entry that is already overdue inside a tick (<= 0);
     - whether the entry of a destructed object is still found by find/remove.           *)
EXTENDS Integers, FiniteSets, Sequences

CONSTANT T0        \* initial driver time

VARIABLES now,      \* driver clock
          pending,  \* set of [id, ob, fn, due, h]
          dead,     \* destructed objects
          used,     \* ids ever scheduled
          sweeping  \* TRUE between the beginning of a tick's work and the next poll
vars == <<now, pending, dead, used, sweeping>>

Live == {e \in pending : e.ob \notin dead}
Due  == {e \in Live : e.due <= now}

Init == /\ now = T0 /\ pending = {} /\ dead = {} /\ used = {} /\ sweeping = FALSE

Clamp(d) == IF d < 1 THEN 1 ELSE d

Sched(ob, fn, id, d, h) ==
  /\ id \notin used
  /\ h # 0
  /\ \A e \in pending : e.h # h
  /\ pending' = pending \cup {[id |-> id, ob |-> ob, fn |-> fn, due |-> now + Clamp(d), h |-> h]}
  /\ used' = used \cup {id}
  /\ UNCHANGED <<now, dead, sweeping>>

TickBegin(t) ==
  /\ t >= now
  /\ now' = t
  /\ sweeping' = TRUE
  /\ UNCHANGED <<pending, dead, used>>

\* a call_out fires: only inside a tick, only when due, only for a live object, exactly once
Fire(ob, fn, id) ==
  /\ sweeping
  /\ \E e \in Live : /\ e.id = id /\ e.ob = ob /\ e.fn = fn
                    /\ e.due <= now
                    /\ pending' = pending \ {e}
  /\ UNCHANGED <<now, dead, used, sweeping>>

RetOk(e, ret) == IF e.due > now THEN ret = e.due - now ELSE ret <= 0

\* M = the entries the key designates
Remove(M, ret) ==
  /\ \/ \E e \in M : RetOk(e, ret) /\ pending' = pending \ {e}
     \/ /\ ret = -1 /\ M \cap Live = {} /\ pending' = pending
  /\ UNCHANGED <<now, dead, used, sweeping>>

Find(M, ret) ==
  /\ \/ \E e \in M : RetOk(e, ret)
     \/ ret = -1 /\ M \cap Live = {}
  /\ UNCHANGED vars

ByName(ob, fn) == {e \in pending : e.ob = ob /\ e.fn = fn}
ById(id)       == {e \in pending : e.id = id}

Destruct(ob) ==
  /\ dead' = dead \cup {ob}
  /\ UNCHANGED <<now, pending, used, sweeping>>

\* the projection the driver reports through call_out_info(): (object, function, time left)
View == {<<e.ob, e.fn, e.due - now>> : e \in Live}

\* the poll after a tick: everything that was due has fired ("no later than the first tick at
\* or after its time"), and the driver's own listing agrees with the specification
Poll(view, n) ==
  /\ Due = {}
  /\ view = View
  /\ n = Cardinality(Live)
  /\ sweeping' = FALSE
  /\ UNCHANGED <<now, pending, dead, used>>

-----------------------------------------------------------------------------
\* safety properties of the specification itself (checked by MCCallOut.cfg)
TypeOK == /\ now \in Int /\ sweeping \in BOOLEAN
          /\ \A e \in pending : e.due > T0 /\ e.h # 0
UniqueIds == \A e1, e2 \in pending : e1.id = e2.id => e1 = e2
UniqueHandles == \A e1, e2 \in pending : e1.h = e2.h => e1 = e2
\* outside a tick nothing live is overdue
NothingOverdue == ~sweeping => Due = {}
=============================================================================
