SPECIFICATION Spec
CONSTANTS Depth = 3
  Delays = {1, 32}
  Spacings = {1, 32, 33}
  Scripts = {"none", "co32", "rmh", "err"}
  MaxSched = 2
  Sim = FALSE
INVARIANT Emit
CHECK_DEADLOCK FALSE
