SPECIFICATION TraceSpec
CONSTANT T0 = 1000000
CONSTRAINT Track
POSTCONDITION Accepted
INVARIANT UniqueIds
INVARIANT UniqueHandles
INVARIANT NothingOverdue
CHECK_DEADLOCK FALSE
