SPECIFICATION Spec
CONSTANTS C = 4
  Delays = {0, 1, 2, 3, 4, 5, 7, 8, 9}
  Spacings = {1, 2, 3, 5, 9}
  MaxTime = 13
  MaxPending = 3
  MaxCbOps = 2
  Fixed = TRUE
INVARIANT NoViolation
INVARIANT DeltasSane
