SPECIFICATION Spec
CONSTANTS Depth = 4
  Delays = {1, 32, 33}
  Spacings = {1, 32, 33}
  Scripts = {"none", "co32", "rmh", "err", "fdh"}
  MaxSched = 2
  Sim = FALSE
INVARIANT Emit
CHECK_DEADLOCK FALSE
