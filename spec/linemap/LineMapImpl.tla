----------------------------- MODULE LineMapImpl -----------------------------
(* Implementation-shaped model of the line-number tables (lib/lpc/program/icode.c switch_to_line,
   lib/lpc/compiler.c save_file_info, src/simulate.c find_line, lib/lpc/program.c
   translate_absolute_line).
   Compile side: the lexer numbers lines ABSOLUTELY over everything it reads; file_info is a list
   of <<lines, file>> segments in reading order; the code generator emits, whenever the line
   changes, runs <<code bytes (at most RunMax), absolute line stored in a 16-bit short>>.
   Run side: find_line walks the runs with `while (offset > run) offset -= run`, then
   translate_absolute_line finds the segment and adds the lines of earlier segments of the
   same file.
   P1: for every statement and every program counter inside its code, decode = Where.       *)
EXTENDS Integers, Sequences, FiniteSets, TLC
CONSTANTS RunMax, Lens, Gaps, SegLens, MaxStmts, ShortBits
VARIABLES segs, stmts, phase
vars == <<segs, stmts, phase>>

Short(x) == LET m == 2 ^ ShortBits IN ((x + m \div 2) % m) - m \div 2       \* what a C short keeps

\* reference: file and line-in-file of absolute line a
RECURSIVE SegOf(_, _, _)
SegOf(a, i, acc) == IF i > Len(segs) THEN 0 ELSE IF a <= acc + segs[i][1] THEN i ELSE SegOf(a, i + 1, acc + segs[i][1])
LinesBefore(i) == LET RECURSIVE S(_) S(j) == IF j = 0 THEN 0 ELSE segs[j][1] + S(j - 1) IN S(i - 1)
SameFileBefore(i) == LET RECURSIVE S(_) S(j) == IF j = 0 THEN 0 ELSE (IF segs[j][2] = segs[i][2] THEN segs[j][1] ELSE 0) + S(j - 1) IN S(i - 1)
Where(a) == LET i == SegOf(a, 1, 0) IN <<segs[i][2], a - LinesBefore(i) + SameFileBefore(i)>>

\* encoder: runs for the statement sequence (each statement: <<absolute line, code length>>)
RECURSIVE Split(_, _)
Split(sz, s) == IF sz > RunMax THEN <<<<RunMax, s>>>> \o Split(sz - RunMax, s) ELSE <<<<sz, s>>>>
RECURSIVE Runs(_)
Runs(k) == IF k > Len(stmts) THEN <<>> ELSE Split(stmts[k][2], Short(stmts[k][1])) \o Runs(k + 1)

\* decoder
RECURSIVE Find(_, _, _)
Find(runs, i, off) == IF i > Len(runs) THEN -1 ELSE IF off > runs[i][1] THEN Find(runs, i + 1, off - runs[i][1]) ELSE runs[i][2]
RECURSIVE Trans(_, _)
Trans(a, i) == IF i > Len(segs) THEN <<0, 0>> ELSE IF a > segs[i][1] THEN Trans(a - segs[i][1], i + 1) ELSE <<segs[i][2], a + SameFileBefore(i)>>
Decode(off) == LET a == Find(Runs(1), 1, off) IN Trans(a, 1)

Start(k) == LET RECURSIVE S(_) S(j) == IF j = 0 THEN 0 ELSE stmts[j][2] + S(j - 1) IN S(k - 1)
TotalLines == LinesBefore(Len(segs) + 1)

Init == segs = <<>> /\ stmts = <<>> /\ phase = "segs"
Next == \/ /\ phase = "segs" /\ Len(segs) < 3
           /\ \E n \in SegLens, f \in 1 .. 2 : segs' = Append(segs, <<n, f>>)
           /\ UNCHANGED <<stmts, phase>>
        \/ /\ phase = "segs" /\ Len(segs) >= 1 /\ phase' = "stmts" /\ UNCHANGED <<segs, stmts>>
        \/ /\ phase = "stmts" /\ Len(stmts) < MaxStmts
           /\ \E g \in Gaps, n \in Lens :
                LET a == (IF stmts = <<>> THEN 0 ELSE stmts[Len(stmts)][1]) + g IN
                /\ a >= 1 /\ a <= TotalLines
                /\ stmts' = Append(stmts, <<a, n>>)
           /\ UNCHANGED <<segs, phase>>
Spec == Init /\ [][Next]_vars
DecodeOk == phase = "stmts" =>
  \A k \in 1 .. Len(stmts) : \A off \in {Start(k) + 1, Start(k) + stmts[k][2]} : Decode(off) = Where(stmts[k][1])
=============================================================================
