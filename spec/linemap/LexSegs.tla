------------------------------- MODULE LexSegs -------------------------------
(* How the lexer produces the file_info segments that LineMapImpl decodes (lib/lpc/lex.c handle_include and the
   LEX_EOF case, lib/lpc/compiler.c save_file_info): a file is a sequence of plain lines and #include lines; at an
   #include the lines of the current file read since the last saved point (the directive's line included) are saved
   as a segment, the header is read (recursively), and the reading of the current file goes on with its saved point
   at the directive's line; at the end of a file the rest is saved.
   Checked: for every absolute line the decoder of LineMapImpl (Trans) gives the file and the line in that file
   where the lexer really read it - for every tree of files up to the bound, in particular with SEVERAL includes in
   one file.  SaveFirst = FALSE is the order "reset the saved point, then save" - it must be reported as violated. *)
EXTENDS Integers, Sequences, FiniteSets, TLC
CONSTANTS MaxItems, MaxDepth, MaxFiles, SaveFirst
VARIABLES stack,    \* frames [id, cnt (lines of this file read so far), saved, left (items still to read)]
          segs,     \* <<lines, file id>> in the order saved
          truth,    \* per absolute line: <<file id, line in that file>>
          nfiles
vars == <<stack, segs, truth, nfiles>>

Init == stack = <<[id |-> 1, cnt |-> 0, saved |-> 0, left |-> MaxItems]>> /\ segs = <<>> /\ truth = <<>> /\ nfiles = 1
Top == stack[Len(stack)]
SetTop(f) == [stack EXCEPT ![Len(stack)] = f]
Save(id, n) == Append(segs, <<n, id>>)

PlainLine == /\ stack # <<>> /\ Top.left > 0
             /\ stack' = SetTop([Top EXCEPT !.cnt = @ + 1, !.left = @ - 1])
             /\ truth' = Append(truth, <<Top.id, Top.cnt + 1>>)
             /\ UNCHANGED <<segs, nfiles>>
Include == /\ stack # <<>> /\ Top.left > 0 /\ Len(stack) < MaxDepth /\ nfiles < MaxFiles
           /\ LET c == Top.cnt + 1 IN        \* the directive's own line
              /\ segs' = Save(Top.id, IF SaveFirst THEN c - Top.saved ELSE c)
              /\ truth' = Append(truth, <<Top.id, c>>)
              /\ stack' = Append(SetTop([Top EXCEPT !.cnt = c, !.saved = c, !.left = @ - 1]),
                                 [id |-> nfiles + 1, cnt |-> 0, saved |-> 0, left |-> MaxItems])
              /\ nfiles' = nfiles + 1
EndOfFile == /\ stack # <<>> /\ Top.cnt > 0
             /\ segs' = Save(Top.id, Top.cnt - Top.saved)
             /\ stack' = SubSeq(stack, 1, Len(stack) - 1)
             /\ UNCHANGED <<truth, nfiles>>
Next == PlainLine \/ Include \/ EndOfFile
Spec == Init /\ [][Next]_vars

\* the decoder of LineMapImpl / translate_absolute_line
SameFileBefore(i) == LET RECURSIVE S(_) S(j) == IF j = 0 THEN 0 ELSE (IF segs[j][2] = segs[i][2] THEN segs[j][1] ELSE 0) + S(j - 1) IN S(i - 1)
RECURSIVE Trans(_, _)
Trans(a, i) == IF i > Len(segs) THEN <<0, 0>> ELSE IF a > segs[i][1] THEN Trans(a - segs[i][1], i + 1) ELSE <<segs[i][2], a + SameFileBefore(i)>>
\* when the whole program has been read every absolute line decodes to where it was read
DecodesRight == stack = <<>> => \A a \in 1..Len(truth) : Trans(a, 1) = truth[a]
=============================================================================
