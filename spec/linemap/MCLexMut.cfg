SPECIFICATION Spec
CONSTANTS MaxItems = 4
  MaxDepth = 3
  MaxFiles = 4
  SaveFirst = FALSE
INVARIANT DecodesRight
CHECK_DEADLOCK FALSE
