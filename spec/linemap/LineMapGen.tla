------------------------------ MODULE LineMapGen ------------------------------
(* P2 for C18: layouts = where the failing statement is put.                                 *)
EXTENDS Integers, Sequences, FiniteSets, TLC, Json
CONSTANTS Kinds, Lines, Pads, Depths, Sim
VARIABLES item, done
gvars == <<item, done>>
Pick(S) == IF Sim THEN (IF S = {} THEN {} ELSE {RandomElement(S)}) ELSE S
GInit == item = <<>> /\ done = FALSE
GNext == \/ /\ ~done
            /\ \E k \in Pick(Kinds), ln \in Pick(Lines), p \in Pick(Pads), d \in Pick(Depths) :
                 item' = [kind |-> k, line |-> ln, pad |-> p, depth |-> d]
            /\ done' = TRUE
         \/ done /\ UNCHANGED gvars
GSpec == GInit /\ [][GNext]_gvars
Emit == done => PrintT(<<"@@B", ToJson(item)>>)
=============================================================================
