SPECIFICATION Spec
CONSTANTS RunMax = 4
  Lens = {1, 3, 4, 5, 9}
  Gaps = {0, 1, 3}
  SegLens = {2, 5}
  MaxStmts = 3
  ShortBits = 16
INVARIANT DecodeOk
CHECK_DEADLOCK FALSE
