SPECIFICATION Spec
CONSTANTS MaxItems = 4
  MaxDepth = 3
  MaxFiles = 4
  SaveFirst = TRUE
INVARIANT DecodesRight
CHECK_DEADLOCK FALSE
