------------------------------- MODULE LineMap -------------------------------
(* Abstract specification of error locations (property C18).

   A layout places one failing statement: in the main file, in an included file (any nesting),
   after an include, in an inherited program, in a function literal or in a global initialiser,
   at a given line, after a given amount of code, below a given chain of calls.  Where(layout)
   is the file and line of that statement and the chain of active calls.  The report the
   master's error_handler receives (file, line) and the trace (function / program of each
   frame, innermost last) must equal it.                                                   *)
EXTENDS Integers, Sequences

VARIABLES want, got
vars == <<want, got>>
Init == want = [file |-> "", line |-> 0, chain |-> <<>>] /\ got = FALSE

Layout(file, line, chain) == want' = [file |-> file, line |-> line, chain |-> chain] /\ got' = FALSE

IsSuffix(s, t) == Len(s) <= Len(t) /\ SubSeq(t, Len(t) - Len(s) + 1, Len(t)) = s

\* the error report: where the driver says the failing statement is, and the innermost frames
Report(file, line, frames) ==
  /\ ~got
  /\ file = want.file /\ line = want.line
  /\ IsSuffix(want.chain, frames)          \* active calls, innermost last, with function and program names
  /\ got' = TRUE /\ UNCHANGED want

\* every layout must have produced its report
Finished == got /\ UNCHANGED vars
=============================================================================
