----------------------------- MODULE LineMapTrace -----------------------------
EXTENDS LineMap, Json, IOUtils, TLC
T == ndJsonDeserialize(IOEnv.TRACE)
VARIABLE l
tvars == <<vars, l>>
Ev(name) == l <= Len(T) /\ T[l].e = name /\ l' = l + 1
R == T[l]
TReset == Ev("Reset") /\ Layout(R.file, R.line, R.chain)
TRep == Ev("Report") /\ Report(R.file, R.line, R.frames)
TFin == Ev("Finished") /\ Finished
TraceNext == TReset \/ TRep \/ TFin
TraceInit == Init /\ l = 1
TraceSpec == TraceInit /\ [][TraceNext]_tvars
ASSUME TLCSet(1, 0)
Track == TLCSet(1, IF TLCGet(1) < l THEN l ELSE TLCGet(1))
Accepted == IF TLCGet(1) = Len(T) + 1 THEN TRUE
            ELSE PrintT(<<"@@MATCHED", TLCGet(1)>>) /\ FALSE
=============================================================================
