SPECIFICATION GSpec
CONSTANTS Kinds = {"main", "inc1", "inc2", "inc_2nd", "inc2_2nd", "after_2inc", "after_inc", "inherit", "funlit", "anonfn", "init"}
  Lines = {0, 1, 7, 300, 1000}
  Pads = {"none", "short", "long", "long2", "contdef", "mlcall", "mlcomment", "ifdef"}
  Depths = {1, 2, 3}
  Sim = FALSE
INVARIANT Emit
CHECK_DEADLOCK FALSE
