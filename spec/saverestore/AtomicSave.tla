------------------------------ MODULE AtomicSave ------------------------------
(* Atomicity of save_object (property C16, crash points).

   File system: the save file F and its temporary file TMP; content is "none", "old", "new" or
   "partial".  save_object: open TMP for writing (truncates it), write it piece by piece, close
   it, rename TMP to F.  The process may crash between any two file-system calls.
   Invariant: F is always "none"/"old" (as before the save) or the complete "new" - never
   partial.  Action property: F changes only by the rename of a completely written, closed TMP. *)
EXTENDS Integers, Sequences, FiniteSets
CONSTANT Pieces          \* number of write calls of one save
VARIABLES f, tmp, pc, written, crashed
vars == <<f, tmp, pc, written, crashed>>
Init == f \in {"none", "old"} /\ tmp = "none" /\ pc = "start" /\ written = 0 /\ crashed = FALSE
OpenTmp == pc = "start" /\ tmp' = "partial" /\ written' = 0 /\ pc' = "writing" /\ UNCHANGED <<f, crashed>>
Write == pc = "writing" /\ written < Pieces /\ written' = written + 1 /\ UNCHANGED <<f, tmp, pc, crashed>>
Close == pc = "writing" /\ written = Pieces /\ tmp' = "new" /\ pc' = "closed" /\ UNCHANGED <<f, written, crashed>>
Rename == pc = "closed" /\ f' = tmp /\ tmp' = "none" /\ pc' = "done" /\ UNCHANGED <<written, crashed>>
Crash == ~crashed /\ pc # "done" /\ crashed' = TRUE /\ pc' = "dead" /\ UNCHANGED <<f, tmp, written>>
Next == OpenTmp \/ Write \/ Close \/ Rename \/ Crash
Spec == Init /\ [][Next]_vars
NeverPartial == f \in {"none", "old", "new"}
OnlyByRename == [][f' # f => (pc = "closed" /\ tmp = "new" /\ f' = "new")]_vars

\* ---- the same protocol as a checker of recorded file-system calls (trace validation)
FsCall(fn, isTmp, isFinal) ==
  CASE fn = "fopen" -> isTmp /\ OpenTmp
    [] fn = "fprintf" -> pc = "writing" /\ UNCHANGED vars
    [] fn = "fclose" -> pc = "writing" /\ tmp' = "new" /\ pc' = "closed" /\ UNCHANGED <<f, written, crashed>>
    [] fn = "rename" -> isFinal /\ Rename
    [] OTHER -> FALSE
\* what is found on disk after a crash before call number k
AfterCrash(finalIs) == finalIs \in {"old", "new"} /\ (finalIs = "new" => pc = "done") /\ UNCHANGED vars
=============================================================================
