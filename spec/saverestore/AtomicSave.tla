------------------------------ MODULE AtomicSave ------------------------------
(* Atomicity of save_object (property C16, crash points).

   File system: the save file F and its temporary file TMP; content is "none", "old", "new" or
   "partial".  save_object: open TMP for writing (truncates it), write it piece by piece, close
   it, rename TMP to F.  The process may crash between any two file-system calls.
   Invariant: F is always "none"/"old" (as before the save) or the complete "new" - never
   partial.  Action property: F changes only by the rename of a completely written, closed TMP. *)
EXTENDS Integers, Sequences, FiniteSets
CONSTANT Pieces          \* number of write calls of one save
VARIABLES f, tmp, pc, written, crashed
vars == <<f, tmp, pc, written, crashed>>
Init == f \in {"none", "old"} /\ tmp = "none" /\ pc = "start" /\ written = 0 /\ crashed = FALSE
OpenTmp == pc = "start" /\ tmp' = "partial" /\ written' = 0 /\ pc' = "writing" /\ UNCHANGED <<f, crashed>>
Write == pc = "writing" /\ written < Pieces /\ written' = written + 1 /\ UNCHANGED <<f, tmp, pc, crashed>>
Close == pc = "writing" /\ written = Pieces /\ tmp' = "new" /\ pc' = "closed" /\ UNCHANGED <<f, written, crashed>>
Rename == pc = "closed" /\ f' = tmp /\ tmp' = "none" /\ pc' = "done" /\ UNCHANGED <<written, crashed>>
Crash == ~crashed /\ pc \notin {"done", "dead"} /\ crashed' = TRUE /\ pc' = "dead" /\ UNCHANGED <<f, tmp, written>>
\* a call that reports an error (disk full, quota): the save gives up; the temporary file may be removed
OpenFail == pc = "start" /\ pc' = "failed" /\ UNCHANGED <<f, tmp, written, crashed>>
WriteFail == pc = "writing" /\ written < Pieces /\ pc' = "failed" /\ UNCHANGED <<f, tmp, written, crashed>>
CloseFail == pc = "writing" /\ written = Pieces /\ pc' = "failed" /\ UNCHANGED <<f, tmp, written, crashed>>
RenameFail == pc = "closed" /\ pc' = "failed" /\ UNCHANGED <<f, tmp, written, crashed>>
Cleanup == pc = "failed" /\ tmp # "none" /\ tmp' = "none" /\ UNCHANGED <<f, pc, written, crashed>>
Next == OpenTmp \/ Write \/ Close \/ Rename \/ Crash \/ OpenFail \/ WriteFail \/ CloseFail \/ RenameFail \/ Cleanup
Spec == Init /\ [][Next]_vars
NeverPartial == f \in {"none", "old", "new"}
FailedKeepsOld == pc = "failed" => f \in {"none", "old"}
OnlyByRename == [][f' # f => (pc = "closed" /\ tmp = "new" /\ f' = "new")]_vars

\* ---- the same protocol as a checker of recorded file-system calls (trace validation)
\* failed = the call reported an error (no space left ...): the temporary file is then incomplete, and the only
\* thing the save may still do is remove it - in particular it must NOT rename it over the save file
FsCall(fn, isTmp, isFinal, failed) ==
  IF failed
  THEN /\ fn \in {"fopen", "fprintf", "fclose", "rename", "unlink"} /\ pc \in {"start", "writing", "closed", "failed"}
       /\ pc' = "failed" /\ tmp' = (IF fn = "fopen" THEN tmp ELSE IF tmp = "none" THEN "none" ELSE "partial")
       /\ UNCHANGED <<f, written, crashed>>
  ELSE CASE fn = "fopen" -> isTmp /\ OpenTmp
         [] fn = "fprintf" -> pc \in {"writing", "failed"} /\ UNCHANGED vars
         [] fn = "fclose" -> \/ pc = "writing" /\ tmp' = "new" /\ pc' = "closed" /\ UNCHANGED <<f, written, crashed>>
                             \/ pc = "failed" /\ UNCHANGED vars                   \* closing what could not be written
         [] fn = "unlink" -> pc = "failed" /\ isTmp /\ tmp' = "none" /\ UNCHANGED <<f, pc, written, crashed>>
         [] fn = "rename" -> isFinal /\ Rename                                     \* (not enabled once a call has failed)
         [] OTHER -> FALSE
\* what save_object() answered and what is on disk after a save in which a call failed
AfterFail(finalIs, ret) == pc = "failed" /\ finalIs = "old" /\ ret = 0 /\ UNCHANGED vars
\* what is found on disk after a crash before call number k
AfterCrash(finalIs) == finalIs \in {"old", "new"} /\ (finalIs = "new" => pc = "done") /\ UNCHANGED vars
=============================================================================
