----------------------------- MODULE SaveRestore -----------------------------
(* Abstract specification of persistence (property C16).

   Values are tagged trees: [t |-> "int", v |-> decimal text], [t |-> "float", v |-> text printed
   with the save precision], [t |-> "str", v |-> hex], [t |-> "arr", v |-> sequence],
   [t |-> "map", v |-> sequence of <<key, value>> in canonical key order], class instances.
   RoundTrip: what restore_variable(save_variable(v)) / restore_object(save_object) yields is
   EQUAL to v, with equal type tags at every node (floats to the printed precision); static
   variables and object references are not persisted; a value nested beyond the limit makes
   save raise an LPC error (never a wrong text).  Restoring arbitrary or damaged text yields a
   value or an LPC error.  A save is atomic: see AtomicSave.                                 *)
EXTENDS Integers, Sequences, FiniteSets

VARIABLES nchecked
vars == <<nchecked>>
Init == nchecked = 0

\* wellFormed: the text save_variable returned is a proper string (its length is the length of its text, so that
\* appending to it - save_variable(x) + "\n" - appends)
RoundTrip(orig, back, err, tooDeep, wellFormed) ==
  /\ IF tooDeep THEN err = "save"            \* beyond the nesting limit: an LPC error from save
     ELSE err = "" /\ back = orig /\ wellFormed   \* equal value, equal type tags
  /\ nchecked' = nchecked + 1

ObjectRoundTrip(orig, back, err, staticKept, obrefKept) ==
  /\ err = "" /\ back = orig
  /\ ~staticKept /\ ~obrefKept               \* not persisted
  /\ nchecked' = nchecked + 1

Damaged(outcome) == outcome \in {"value", "error"} /\ nchecked' = nchecked + 1
=============================================================================
