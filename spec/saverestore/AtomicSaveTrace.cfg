SPECIFICATION TraceSpec
CONSTANT Pieces = 3
CONSTRAINT Track
POSTCONDITION Accepted
CHECK_DEADLOCK FALSE
