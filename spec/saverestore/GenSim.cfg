SPECIFICATION GSpec
CONSTANTS NLeaf = 44
  NKey = 6
  MaxDepth = 2
  Sim = TRUE
INVARIANT Emit
CHECK_DEADLOCK FALSE
