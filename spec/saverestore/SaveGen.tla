------------------------------- MODULE SaveGen -------------------------------
(* P2 for C16: value trees over a leaf pool (leaves are indices into the pool kept by the check:
   int64 extremes, integral / tiny floats, strings with every escape-worthy byte, empty containers). *)
EXTENDS Integers, Sequences, FiniteSets, TLC, Json
CONSTANTS NLeaf, NKey, MaxDepth, Sim
VARIABLES tree, done
gvars == <<tree, done>>
Pick(S) == IF Sim THEN (IF S = {} THEN {} ELSE {RandomElement(S)}) ELSE S
Leaf == [k : {"leaf"}, i : 1 .. NLeaf]
\* depth-1 containers over leaves
Arr1 == [k : {"arr"}, v : {<<>>} \cup {<<a>> : a \in Leaf} \cup (IF Sim THEN {<<a, b>> : a \in Leaf, b \in Leaf} ELSE {})]
Map1 == [k : {"map"}, v : {<<>>} \cup {<<<<[k |-> "leaf", i |-> ki], a>>>> : ki \in 1 .. NKey, a \in Leaf}]
D1 == Leaf \cup Arr1 \cup Map1
GInit == tree = [k |-> "leaf", i |-> 1] /\ done = FALSE
GNext == \/ /\ ~done
            /\ \/ \E t \in Pick(D1) : tree' = t
               \/ MaxDepth >= 2 /\ \E a \in Pick(Arr1 \cup Map1), b \in Pick(D1) : tree' = [k |-> "arr", v |-> <<a, b>>]
               \/ MaxDepth >= 2 /\ \E ki \in Pick(1 .. NKey), b \in Pick(Arr1 \cup Map1) : tree' = [k |-> "map", v |-> <<<<[k |-> "leaf", i |-> ki], b>>>>]
            /\ done' = TRUE
         \/ done /\ UNCHANGED gvars
GSpec == GInit /\ [][GNext]_gvars
Emit == done => PrintT(<<"@@B", ToJson(tree)>>)
=============================================================================
