--------------------------- MODULE SaveRestoreTrace ---------------------------
EXTENDS SaveRestore, Json, IOUtils, TLC
T == ndJsonDeserialize(IOEnv.TRACE)
VARIABLE l
tvars == <<vars, l>>
Ev(name) == l <= Len(T) /\ T[l].e = name /\ l' = l + 1
R == T[l]
TReset == Ev("Reset") /\ nchecked' = 0
TRT == Ev("RT") /\ RoundTrip(R.orig, R.back, R.err, R.toodeep, R.wf = 1)
TRTO == Ev("RTO") /\ ObjectRoundTrip(R.orig, R.back, R.err, R.static_kept = 1, R.obref_kept = 1)
TDmg == Ev("Damaged") /\ Damaged(R.outcome)
TraceNext == TReset \/ TRT \/ TRTO \/ TDmg
TraceInit == Init /\ l = 1
TraceSpec == TraceInit /\ [][TraceNext]_tvars
ASSUME TLCSet(1, 0)
Track == TLCSet(1, IF TLCGet(1) < l THEN l ELSE TLCGet(1))
Accepted == IF TLCGet(1) = Len(T) + 1 THEN TRUE
            ELSE PrintT(<<"@@MATCHED", TLCGet(1)>>) /\ FALSE
=============================================================================
