SPECIFICATION GSpec
CONSTANTS NLeaf = 44
  NKey = 6
  MaxDepth = 1
  Sim = FALSE
INVARIANT Emit
CHECK_DEADLOCK FALSE
