--------------------------- MODULE AtomicSaveTrace ---------------------------
EXTENDS AtomicSave, Json, IOUtils, TLC
T == ndJsonDeserialize(IOEnv.TRACE)
VARIABLE l
tvars == <<vars, l>>
Ev(name) == l <= Len(T) /\ T[l].e = name /\ l' = l + 1
R == T[l]
TReset == Ev("Reset") /\ f' = "old" /\ tmp' = "none" /\ pc' = "start" /\ written' = 0 /\ crashed' = FALSE
TFs == Ev("Fs") /\ FsCall(R.fn, R.tmp, R.final, R.failed)
TAfterFail == Ev("AfterFail") /\ AfterFail(R.final, R.ret)
TAfter == Ev("AfterCrash") /\ AfterCrash(R.final)
TraceNext == TReset \/ TFs \/ TAfter \/ TAfterFail
TraceInit == Init /\ l = 1
TraceSpec == TraceInit /\ [][TraceNext]_tvars
ASSUME TLCSet(1, 0)
Track == TLCSet(1, IF TLCGet(1) < l THEN l ELSE TLCGet(1))
Accepted == IF TLCGet(1) = Len(T) + 1 THEN TRUE
            ELSE PrintT(<<"@@MATCHED", TLCGet(1)>>) /\ FALSE
=============================================================================
