SPECIFICATION Spec
CONSTANT Pieces = 3
INVARIANT NeverPartial
INVARIANT FailedKeepsOld
PROPERTY OnlyByRename
CHECK_DEADLOCK FALSE
