SPECIFICATION Spec
CONSTANT Pieces = 3
INVARIANT NeverPartial
PROPERTY OnlyByRename
CHECK_DEADLOCK FALSE
