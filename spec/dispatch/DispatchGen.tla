----------------------------- MODULE DispatchGen -----------------------------
(* P1 + P2 for C07: enumerates families of three programs (p1 base, p2 optionally inheriting p1,
   p3 = the object's program inheriting a sequence of the others) and of four programs (p1 base, p2 inheriting p1,
   p3 an unrelated program, p4 = the object's program inheriting p2 and p3 in either order: code that is itself
   inherited as a non-first inherit and calls '::') with function modifiers and
   inherit modifiers, and call histories over (origin, name).  P1: on every family the
   reference is well defined and the outcome of a call does not depend on the calls before it
   (a tautology of the specification, stated as an invariant over the enumerated histories),
   and a hidden function is never the outcome of a call_other.                              *)
EXTENDS Integers, Sequences, FiniteSets, TLC, Json
CONSTANTS FMods, IMods, Calls, HistLen, Sim
VARIABLES fam, hist, phase
gvars == <<fam, hist, phase>>
Pick(S) == IF Sim THEN (IF S = {} THEN {} ELSE {RandomElement(S)}) ELSE S
D == INSTANCE Dispatch WITH family <- fam, pending <- [on |-> FALSE, want |-> 0], ran <- 0

Funcs(mf, mg) == (IF mf = "absent" THEN <<>> ELSE <<[name |-> "f", mod |-> mf]>>) \o
                 (IF mg = "absent" THEN <<>> ELSE <<[name |-> "g", mod |-> mg]>>)
Prog(inh, mf, mg) == [inh |-> inh, funcs |-> Funcs(mf, mg)]
Inh2 == {<<>>} \cup {<<[p |-> 1, mod |-> m]>> : m \in IMods}
Inh3(has21) == {<<>>} \cup {<<[p |-> 1, mod |-> m]>> : m \in IMods} \cup {<<[p |-> 2, mod |-> m]>> : m \in IMods}
               \cup (IF has21 THEN {} ELSE {<<[p |-> 1, mod |-> m], [p |-> 2, mod |-> n]>> : m \in IMods, n \in IMods}
                                          \cup {<<[p |-> 2, mod |-> m], [p |-> 1, mod |-> n]>> : m \in IMods, n \in IMods})
GInit == fam = <<>> /\ hist = <<>> /\ phase = "fam"
GNext ==
  \/ /\ phase = "fam"
     /\ \E f1 \in Pick(FMods), g1 \in Pick({"absent", ""}), f2 \in Pick(FMods), i2 \in Pick(Inh2), f3 \in Pick(FMods) :
          \E i3 \in Pick(Inh3(i2 # <<>>)) :
            fam' = <<Prog(<<>>, f1, g1), Prog(i2, f2, "absent"), Prog(i3, f3, "absent")>>
     /\ phase' = "calls" /\ hist' = <<>>
  \/ /\ phase = "fam"
     /\ \E f1 \in Pick(FMods \ {"absent"}), f2 \in Pick(FMods), fo \in Pick({"absent", ""}), f4 \in Pick({"absent", ""}),
           m1 \in Pick(IMods), m2 \in Pick(IMods), m3 \in Pick(IMods), ord \in Pick({1, 2}) :
          fam' = <<Prog(<<>>, f1, ""), Prog(<<[p |-> 1, mod |-> m1]>>, f2, "absent"), Prog(<<>>, fo, "absent"),
                   Prog(IF ord = 1 THEN <<[p |-> 3, mod |-> m3], [p |-> 2, mod |-> m2]>> ELSE <<[p |-> 2, mod |-> m2], [p |-> 3, mod |-> m3]>>, f4, "absent")>>
     /\ phase' = "calls" /\ hist' = <<>>
  \/ /\ phase = "calls" /\ Len(hist) < HistLen
     /\ \E c \in Pick(Calls) : hist' = Append(hist, c)
     /\ UNCHANGED <<fam, phase>>
  \/ phase = "calls" /\ Len(hist) >= HistLen /\ UNCHANGED gvars
GSpec == GInit /\ [][GNext]_gvars
Emit == (phase = "calls" /\ Len(hist) = HistLen) => PrintT(<<"@@B", ToJson([family |-> fam, calls |-> hist])>>)
HiddenNeverRuns == phase = "calls" =>
  \A n \in {"f", "g"} : LET r == D!Res(fam, Len(fam), n) IN
     (r.found /\ D!Hidden(r.mods)) => D!Outcome(fam, "call_other", n) = 0
DriverAlwaysRuns == phase = "calls" =>
  \A n \in {"f", "g"} : LET r == D!Res(fam, Len(fam), n) IN r.found => D!Outcome(fam, "driver", n) = r.prog
=============================================================================
