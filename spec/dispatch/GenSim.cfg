SPECIFICATION GSpec
CONSTANTS FMods = {"absent", "", "public", "static", "private", "protected"}
  IMods = {"", "private", "static"}
  Calls = {"co_f", "drv_f", "efun_f", "co_g", "drv_g", "cout_f", "coa_f", "coa_g"}
  HistLen = 5
  Sim = TRUE
INVARIANT Emit
CHECK_DEADLOCK FALSE
