SPECIFICATION GSpec
CONSTANTS FMods = {"absent", "", "public", "static", "private", "protected"}
  IMods = {"", "private", "static"}
  Calls = {"co_f", "coa_f", "drv_f", "efun_f"}
  HistLen = 2
  Sim = FALSE
INVARIANT Emit
INVARIANT HiddenNeverRuns
INVARIANT DriverAlwaysRuns
CHECK_DEADLOCK FALSE
