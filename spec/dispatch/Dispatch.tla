------------------------------ MODULE Dispatch ------------------------------
(* Abstract specification of call resolution and visibility (property C07).

   A family is a sequence of programs; program i has an ordered list of inherits
   [p |-> index of an earlier program, mod |-> "" | "private" | "static"] and a list of function
   definitions [name, mod] with mod in {"", "public", "static", "private", "protected"}.
   Resolve: the program's own definition, else the inherits from the LAST to the first,
   recursively (the most-derived definition).  Effective modifiers: the function's own plus the
   modifiers of every inherit statement on the path, except that an explicitly public function
   is not made private by private inheritance (docs/manual/lpc.md, "Special Types").
   A call made by another object's call_other runs the function iff it resolves and carries none
   of static / private / protected; driver applies, efun callbacks and local calls run it iff it
   resolves.  The specification has NO history: the outcome of a call is a function of the
   family and the call alone.                                                              *)
EXTENDS Integers, Sequences, FiniteSets

None == [found |-> FALSE, prog |-> 0, mods |-> {}]

RECURSIVE Res(_, _, _)
RECURSIVE ResInh(_, _, _, _)
\* definition of `name` seen from program i of family fam
Res(fam, i, name) ==
  LET own == {k \in 1 .. Len(fam[i].funcs) : fam[i].funcs[k].name = name} IN
  IF own # {}
  THEN [found |-> TRUE, prog |-> i, mods |-> {fam[i].funcs[CHOOSE k \in own : TRUE].mod} \ {""}]
  ELSE ResInh(fam, i, name, Len(fam[i].inh))
ResInh(fam, i, name, j) ==
  IF j = 0 THEN None
  ELSE LET r == Res(fam, fam[i].inh[j].p, name) IN
       IF r.found
       THEN LET m == fam[i].inh[j].mod
                add == IF m = "" THEN {} ELSE IF m = "private" /\ "public" \in r.mods THEN {} ELSE {m}
            IN [r EXCEPT !.mods = @ \cup add]
       ELSE ResInh(fam, i, name, j - 1)

Hidden(mods) == mods \cap {"static", "private", "protected"} # {}

\* '::name()' written in program i: the definition of name that program i inherits (its own definition of the name, if
\* any, is the one being bypassed); it runs with the variables of the program that defines it
\* The compiler takes the FIRST inherit statement of program i (in the order written) under which the name is defined
\* (arrange_call_inherited; below that inherit the usual rule applies: own definition, then its inherits last to first).
\* Modifiers play no part: '::' is a compile-time link.  (The manual only shows the qualified form 'prog::name'.)
RECURSIVE SuperFrom(_, _, _, _)
SuperFrom(fam, i, name, j) ==
  IF j > Len(fam[i].inh) THEN None
  ELSE LET r == Res(fam, fam[i].inh[j].p, name) IN IF r.found THEN r ELSE SuperFrom(fam, i, name, j + 1)
SuperRes(fam, i, name) == SuperFrom(fam, i, name, 1)

\* expected outcome of a call on an object whose program is the last of the family
Outcome(fam, origin, name) ==
  LET r == Res(fam, Len(fam), name) IN
  IF ~r.found THEN 0
  ELSE IF origin = "call_other" /\ Hidden(r.mods) THEN 0
  ELSE r.prog

VARIABLES family, pending, ran
vars == <<family, pending, ran>>
Init == family = <<>> /\ pending = [on |-> FALSE, want |-> 0] /\ ran = 0

Call(origin, name) == /\ ~pending.on
                      /\ pending' = [on |-> TRUE, want |-> Outcome(family, origin, name)]
                      /\ ran' = 0 /\ UNCHANGED family
\* a function of program `from` executes ::name()
Super(from, name) == /\ ~pending.on /\ from \in 1 .. Len(family)
                     /\ pending' = [on |-> TRUE, want |-> LET r == SuperRes(family, from, name) IN IF r.found THEN r.prog ELSE 0]
                     /\ ran' = 0 /\ UNCHANGED family
\* the function of program p started to run, seeing the variable of program vp
Ran(p, vp) == /\ pending.on /\ ran = 0 /\ p = pending.want /\ vp = p
              /\ ran' = p /\ UNCHANGED <<family, pending>>
Done == /\ pending.on /\ ran = pending.want
        /\ pending' = [on |-> FALSE, want |-> 0] /\ UNCHANGED <<family, ran>>
=============================================================================
