---------------------------- MODULE DispatchTrace ----------------------------
EXTENDS Dispatch, Json, IOUtils, TLC
T == ndJsonDeserialize(IOEnv.TRACE)
VARIABLE l
tvars == <<vars, l>>
Ev(name) == l <= Len(T) /\ T[l].e = name /\ l' = l + 1
R == T[l]
TReset == Ev("Reset") /\ family' = R.family /\ pending' = [on |-> FALSE, want |-> 0] /\ ran' = 0
TCall == Ev("Call") /\ Call(R.origin, R.name)
TSuper == Ev("Super") /\ Super(R.from, R.name)
TRan == Ev("Ran") /\ Ran(R.p, R.vp)
TDone == Ev("Done") /\ Done
TraceNext == TReset \/ TCall \/ TSuper \/ TRan \/ TDone
TraceInit == Init /\ l = 1
TraceSpec == TraceInit /\ [][TraceNext]_tvars
ASSUME TLCSet(1, 0)
Track == TLCSet(1, IF TLCGet(1) < l THEN l ELSE TLCGet(1))
Accepted == IF TLCGet(1) = Len(T) + 1 THEN TRUE
            ELSE PrintT(<<"@@MATCHED", TLCGet(1)>>) /\ FALSE
=============================================================================
