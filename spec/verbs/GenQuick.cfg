SPECIFICATION Spec
CONSTANTS MaxLen = 3
  VerbSet = {"k", "ka"}
  Lines = {"k", "ka x", "kab", "k  y"}
  Sim = FALSE
INVARIANT Emit
CHECK_DEADLOCK FALSE
