SPECIFICATION Spec
CONSTANTS MaxLen = 9
  VerbSet = {"k", "ka", "kab", "z"}
  Lines = {"k", "ka", "kab", "k x", "ka x y", "kab  z", "kabc", "z", "zk q", "q"}
  Sim = TRUE
INVARIANT Emit
CHECK_DEADLOCK FALSE
