------------------------------- MODULE VerbsGen -------------------------------
(* Histories for Verbs: two objects in the user's inventory register verbs (exact / short / no-space forms of a small
   overlapping alphabet, answering 0 or 1), remove them, leave, come back, are destructed; in between the user types
   lines chosen to match several of them.                                                                     *)
EXTENDS Integers, Sequences, FiniteSets, TLC, Json
CONSTANTS MaxLen, VerbSet, Lines, Sim
VARIABLES hist
Pick(S) == IF Sim THEN (IF S = {} THEN {} ELSE {RandomElement(S)}) ELSE S
O == {"a1", "a2"}
Init == hist = <<>>
Step == [a : {"add"}, o : O, v : VerbSet, f : {0, 1, 2}, r : {0, 1}] \cup [a : {"rm"}, o : O, v : VerbSet]
        \cup [a : {"out", "in", "dest"}, o : O] \cup [a : {"cmd"}, t : Lines]
More == Len(hist) < MaxLen
Next == \/ More /\ \E s \in Pick(Step) : hist' = Append(hist, s)
        \/ ~More /\ UNCHANGED hist
Spec == Init /\ [][Next]_hist
NCmd == Cardinality({k \in 1..Len(hist) : hist[k].a = "cmd"})
Emit == (Len(hist) = MaxLen /\ NCmd >= 1 /\ hist[MaxLen].a = "cmd" /\ hist[1].a = "add") => PrintT(<<"@@B", ToJson(hist)>>)
=============================================================================
