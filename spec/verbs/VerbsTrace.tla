------------------------------ MODULE VerbsTrace ------------------------------
EXTENDS Verbs, Json, IOUtils, TLC
T == ndJsonDeserialize(IOEnv.TRACE)
VARIABLE l
tvars == <<vars, l>>
Ev(name) == l <= Len(T) /\ T[l].e = name /\ l' = l + 1
R == T[l]
TReset == Ev("Reset") /\ sents' = <<>> /\ pending' = <<>> /\ line' = <<>> /\ done' = FALSE
TAdd == Ev("AddAction") /\ AddAction(R.ob, R.verb, R.flag, R.ret)
TRm == Ev("RemoveAction") /\ RemoveAction(R.ob, R.verb, R.ok = 1)
TGone == Ev("Gone") /\ Gone(R.ob)
TCmd == Ev("Command") /\ Command(R.line)
TAct == Ev("Act") /\ Act(R.ob, R.verb, R.flag, R.qverb, R.arg)
TEnd == Ev("CommandEnd") /\ CommandEnd(R.handled = 1)
TraceNext == TReset \/ TAdd \/ TRm \/ TGone \/ TCmd \/ TAct \/ TEnd
TraceInit == Init /\ l = 1
TraceSpec == TraceInit /\ [][TraceNext]_tvars
ASSUME TLCSet(1, 0)
Track == TLCSet(1, IF TLCGet(1) < l THEN l ELSE TLCGet(1))
Accepted == IF TLCGet(1) = Len(T) + 1 THEN TRUE
            ELSE PrintT(<<"@@MATCHED", TLCGet(1)>>) /\ FALSE
=============================================================================
