-------------------------------- MODULE Verbs --------------------------------
(* How a typed command reaches the functions registered with add_action (src/simulate.c user_parser, add_action,
   remove_action, remove_sent; the sentences of the commanding user).

   The user carries a list of sentences [object, verb, flag]; add_action puts a new one in FRONT.  A command line is
   offered to the sentences from the front: one matches when its verb equals the first word of the line (flag 0), or
   the line begins with its verb (flag 1 "short", flag 2 "no space").  The function of a matching sentence is called
   with what follows the verb; when it answers 0 the search goes on, when it answers non-zero the command is done.
   Sentences of an object go away when it leaves the user (or is destructed) and come back - through its init() -
   when it enters again.  Lines are sequences of characters.                                                     *)
EXTENDS Integers, Sequences, FiniteSets

VARIABLES sents,     \* sequence of [ob, verb, flag, ret], front first
          pending,   \* during a command: the sentences still to be offered the line, in order
          line,      \* the line being parsed (<<>> outside a command)
          done       \* the command has been accepted by a function
vars == <<sents, pending, line, done>>

Init == sents = <<>> /\ pending = <<>> /\ line = <<>> /\ done = FALSE

IsPrefix(p, s) == Len(p) <= Len(s) /\ SubSeq(s, 1, Len(p)) = p
SpaceAt(s) == IF \E k \in 1..Len(s) : s[k] = " " THEN CHOOSE k \in 1..Len(s) : s[k] = " " /\ \A j \in 1..(k - 1) : s[j] # " " ELSE 0
Word(s) == IF SpaceAt(s) = 0 THEN s ELSE SubSeq(s, 1, SpaceAt(s) - 1)
Rest(s) == IF SpaceAt(s) = 0 THEN <<"?">> ELSE SubSeq(s, SpaceAt(s) + 1, Len(s))       \* <<"?">> stands for "no argument"
Matches(se, s) == IF se.flag = 0 THEN (se.verb = <<>> \/ Word(s) = se.verb) ELSE IsPrefix(se.verb, s)
\* what the function sees: query_verb() and its argument
QVerb(se, s) == IF se.flag = 2 THEN (IF Len(se.verb) < Len(Word(s)) THEN SubSeq(Word(s), Len(se.verb) + 1, Len(Word(s))) ELSE <<>>)
                ELSE IF se.flag = 1 \/ se.verb = <<>> THEN Word(s) ELSE se.verb
Arg(se, s) == IF se.flag = 2 THEN SubSeq(s, Len(se.verb) + 1, Len(s)) ELSE Rest(s)

AddAction(ob, verb, flag, ret) ==
  /\ sents' = <<[ob |-> ob, verb |-> verb, flag |-> flag, ret |-> ret]>> \o sents
  /\ UNCHANGED <<pending, line, done>>
\* remove_action(fn, verb) by ob: its first sentence with that verb
RemoveAction(ob, verb, ok) ==
  LET I == {k \in 1..Len(sents) : sents[k].ob = ob /\ sents[k].verb = verb} IN
  /\ ok = (I # {})
  /\ sents' = IF I = {} THEN sents ELSE LET k == CHOOSE k \in I : \A j \in I : k <= j IN SubSeq(sents, 1, k - 1) \o SubSeq(sents, k + 1, Len(sents))
  /\ UNCHANGED <<pending, line, done>>
\* the object leaves the user / is destructed: all its sentences go
Gone(ob) == /\ sents' = SelectSeq(sents, LAMBDA se : se.ob # ob) /\ UNCHANGED <<pending, line, done>>

\* a command line is handed to the parser
Command(s) == /\ line = <<>> /\ s # <<>> /\ line' = s /\ done' = FALSE
              /\ pending' = SelectSeq(sents, LAMBDA se : Matches(se, s)) /\ UNCHANGED sents
\* the function of a sentence runs
Act(ob, verb, flag, qverb, arg) ==
  /\ line # <<>> /\ ~done /\ pending # <<>>
  /\ LET se == Head(pending) IN
       /\ se.ob = ob /\ se.verb = verb /\ se.flag = flag
       /\ qverb = QVerb(se, line) /\ arg = Arg(se, line)
       /\ done' = (se.ret # 0)
  /\ pending' = Tail(pending) /\ UNCHANGED <<sents, line>>
\* the parser is through with the line: either a function accepted it, or every matching sentence was tried
CommandEnd(handled) ==
  /\ line # <<>> /\ handled = done /\ (done \/ pending = <<>>)
  /\ line' = <<>> /\ pending' = <<>> /\ done' = FALSE /\ UNCHANGED sents
=============================================================================
