SPECIFICATION TraceSpec
CONSTRAINT Track
POSTCONDITION Accepted
CHECK_DEADLOCK FALSE
