SPECIFICATION TraceSpec
CONSTRAINT Track
POSTCONDITION Accepted
INVARIANT TypeOK
CHECK_DEADLOCK FALSE
