----------------------------- MODULE InputToGen -----------------------------
(* Behaviour enumeration for InputTo: set-ups (every form x what the callback will do), plain and '!'-escaped
   lines, destruction of the callbacks' object, disconnect.  The generator keeps just enough state to know
   whether a command can be issued at all (not while a no-escape or single-character request is pending)
   and whether it has to be escaped.                                                                  *)
EXTENDS Integers, Sequences, FiniteSets, TLC, Json
CONSTANTS Hows, Tags, MaxLen, Sim
VARIABLES hist, gp, gtag, owner, conn
gvars == <<hist, gp, gtag, owner, conn>>
Pick(S) == IF Sim THEN (IF S = {} THEN {} ELSE {RandomElement(S)}) ELSE S
Init == hist = <<>> /\ gp = "none" /\ gtag = "ok" /\ owner = TRUE /\ conn = TRUE
KindOf(how) == IF how = "char" THEN "char" ELSE IF how = "noesc" THEN "noesc" ELSE "line"
IsValid(how) == how \in {"line", "char", "noesc", "noecho", "fp"}
More == Len(hist) < MaxLen /\ conn
CanCommand == gp \in {"none", "line"}
GSetup == /\ More /\ owner /\ CanCommand
          /\ \E how \in Pick(Hows), tag \in Pick(Tags) :
               /\ (how = "fp" => tag = "ok") /\ (how # "line" => tag \in {"ok", "err"})
               /\ hist' = Append(hist, [a |-> "setup", how |-> how, tag |-> tag, esc |-> gp # "none"])
               /\ IF gp = "none" /\ IsValid(how) THEN gp' = KindOf(how) /\ gtag' = tag ELSE UNCHANGED <<gp, gtag>>
          /\ UNCHANGED <<owner, conn>>
GLine == /\ More
         /\ \E bang \in Pick(IF gp = "char" THEN {FALSE} ELSE {FALSE, TRUE}) :
              /\ hist' = Append(hist, [a |-> "line", bang |-> bang, char |-> gp = "char", n |-> Len(hist)])
              /\ IF gp = "none" \/ (bang /\ gp = "line")
                 THEN UNCHANGED <<gp, gtag, owner>>                 \* an ordinary command
                 ELSE IF ~owner THEN gp' = "none" /\ UNCHANGED <<gtag, owner>>
                 ELSE CASE gtag = "again" -> gp' = "line" /\ gtag' = "ok" /\ UNCHANGED owner
                        [] gtag = "againc" -> gp' = "char" /\ gtag' = "ok" /\ UNCHANGED owner
                        [] gtag = "dest" -> gp' = "none" /\ owner' = FALSE /\ UNCHANGED gtag
                        [] OTHER -> gp' = "none" /\ UNCHANGED <<gtag, owner>>
         /\ UNCHANGED conn
GDest == /\ More /\ owner /\ CanCommand
         /\ hist' = Append(hist, [a |-> "dest", esc |-> gp # "none"]) /\ owner' = FALSE /\ UNCHANGED <<gp, gtag, conn>>
GDrop == /\ More /\ hist # <<>>
         /\ hist' = Append(hist, [a |-> "drop"]) /\ conn' = FALSE /\ UNCHANGED <<gp, gtag, owner>>
Next == GSetup \/ GLine \/ GDest \/ GDrop \/ (~More /\ UNCHANGED gvars)
Spec == Init /\ [][Next]_gvars
Interesting == \E k \in 1..Len(hist) : hist[k].a = "setup"
Emit == ((Len(hist) = MaxLen \/ ~conn) /\ Interesting) => PrintT(<<"@@B", ToJson(hist)>>)
=============================================================================
