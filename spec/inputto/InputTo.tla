------------------------------- MODULE InputTo -------------------------------
(* Where a user's input goes: input_to() / get_char() (src/comm.c process_user_command,
   call_function_interactive, set_call; src/simulate.c input_to, get_char).

   A user has at most one pending request.  Setting one up succeeds only when none is pending and the
   callback exists; a failed set-up changes nothing.  The next complete line (in single-character mode: the
   next character) goes to the callback exactly once, together with the arguments given at set-up - unless it
   starts with '!' and the request was made without the no-escape flag: then the rest of the line is an
   ordinary command and the request stays.  The request is removed before the callback runs, so the callback
   may set up the next one.  A callback that raises an error, or whose object has been destructed, still
   consumes the line and the request.  Without a pending request every line is an ordinary command.
   Every line that arrived is consumed exactly once, in order.  A disconnect drops the request.        *)
EXTENDS Integers, Sequences, FiniteSets

VARIABLES queue,   \* lines received and not yet consumed: [t: text, esc: starts with '!', rest: text after the '!']
          pend,    \* <<>> or <<[kind, noesc, tag]>>
          owner,   \* the object of the callbacks is alive
          conn
vars == <<queue, pend, owner, conn>>

Init == queue = <<>> /\ pend = <<>> /\ owner = TRUE /\ conn = TRUE

Kinds == [line |-> "line", noecho |-> "line", noesc |-> "line", fp |-> "line", char |-> "char"]
Valid(how) == how \in DOMAIN Kinds
Escapable == pend # <<>> /\ ~pend[1].noesc
EscapedHead == queue # <<>> /\ Escapable /\ Head(queue).esc

Arrive(items) == conn /\ queue' = queue \o items /\ UNCHANGED <<pend, owner, conn>>

\* input_to(...) / get_char(...) called for this user: its result
Setup(how, tag, ret, err) ==
  /\ conn
  /\ IF ~Valid(how)                 \* a function that does not exist: an LPC error (a second request may be refused first)
     THEN /\ ret = 0 /\ (pend = <<>> => err = 1) /\ UNCHANGED pend
     ELSE /\ err = 0
          /\ IF pend = <<>>
             THEN ret = 1 /\ pend' = <<[kind |-> Kinds[how], noesc |-> how = "noesc", tag |-> tag]>>
             ELSE ret = 0 /\ UNCHANGED pend
  /\ UNCHANGED <<queue, owner, conn>>

\* the user object's process_input() got a command
Command(text) ==
  /\ conn /\ queue # <<>>
  /\ IF EscapedHead THEN text = Head(queue).rest
     ELSE pend = <<>> /\ text = Head(queue).t
  /\ queue' = Tail(queue) /\ UNCHANGED <<pend, owner, conn>>

\* the pending callback ran with this line
Callback(text, tag) ==
  /\ conn /\ queue # <<>> /\ pend # <<>> /\ ~EscapedHead /\ owner
  /\ text = Head(queue).t /\ tag = pend[1].tag
  /\ queue' = Tail(queue) /\ pend' = <<>> /\ UNCHANGED <<owner, conn>>

\* the callback could not run (its object is gone): reported as an error; line and request are consumed
OwnerGone ==
  /\ conn /\ queue # <<>> /\ pend # <<>> /\ ~EscapedHead /\ ~owner
  /\ queue' = Tail(queue) /\ pend' = <<>> /\ UNCHANGED <<owner, conn>>

DestOwner == owner' = FALSE /\ UNCHANGED <<queue, pend, conn>>
Disconnect == conn' = FALSE /\ pend' = <<>> /\ queue' = <<>> /\ UNCHANGED owner
\* end of the scenario (the driver has been idle for several cycles): nothing is left unserved
Quiet == (conn => queue = <<>>) /\ UNCHANGED vars

TypeOK == Len(pend) <= 1
=============================================================================
