SPECIFICATION Spec
CONSTANTS Hows = {"line", "char", "noesc", "noecho", "fp", "nofunc", "nofuncc", "nofuncu"}
  Tags = {"ok", "err", "again", "againc", "dest"}
  MaxLen = 4
  Sim = FALSE
INVARIANT Emit
CHECK_DEADLOCK FALSE
