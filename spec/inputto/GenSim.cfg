SPECIFICATION Spec
CONSTANTS Hows = {"line", "char", "noesc", "noecho", "fp", "nofunc", "nofuncc", "nofuncu"}
  Tags = {"ok", "err", "again", "againc", "dest"}
  MaxLen = 12
  Sim = TRUE
INVARIANT Emit
CHECK_DEADLOCK FALSE
