---------------------------- MODULE InputToTrace ----------------------------
EXTENDS InputTo, Json, IOUtils, TLC
T == ndJsonDeserialize(IOEnv.TRACE)
VARIABLE l
tvars == <<vars, l>>
Ev(name) == l <= Len(T) /\ T[l].e = name /\ l' = l + 1
R == T[l]
TReset == Ev("Reset") /\ queue' = <<>> /\ pend' = <<>> /\ owner' = TRUE /\ conn' = TRUE
TArrive == Ev("Arrive") /\ Arrive(R.items)
TSetup == Ev("Setup") /\ Setup(R.how, R.tag, R.ret, R.err)
TCmd == Ev("Command") /\ Command(R.t)
TCb == Ev("Callback") /\ Callback(R.t, R.tag)
TGone == Ev("OwnerGone") /\ OwnerGone
TDest == Ev("DestOwner") /\ DestOwner
TDisc == Ev("Disconnect") /\ Disconnect
TQuiet == Ev("Quiet") /\ Quiet
TraceNext == TReset \/ TArrive \/ TSetup \/ TCmd \/ TCb \/ TGone \/ TDest \/ TDisc \/ TQuiet
TraceInit == Init /\ l = 1
TraceSpec == TraceInit /\ [][TraceNext]_tvars
ASSUME TLCSet(1, 0)
Track == TLCSet(1, IF TLCGet(1) < l THEN l ELSE TLCGet(1))
Accepted == IF TLCGet(1) = Len(T) + 1 THEN TRUE
            ELSE PrintT(<<"@@MATCHED", TLCGet(1)>>) /\ FALSE
=============================================================================
