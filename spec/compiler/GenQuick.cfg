SPECIFICATION Spec
CONSTANTS Seeds = {1, 2, 3} Damages = {"trunc", "deltok", "duptok", "nasty", "directive", "nest", "many", "funlit", "bytes", "textblock", "unterminated", "anonend", "none"} Positions = {0, 1, 2, 3, 4} Args = {0, 1, 2, 3, 4, 5, 6, 7} MaxLen = 1 Sim = FALSE
INVARIANT Emit
CHECK_DEADLOCK FALSE
