SPECIFICATION Spec
CONSTANTS Seeds = {1, 2, 3, 4} Damages = {"trunc", "deltok", "duptok", "nasty", "directive", "nest", "many", "funlit", "bytes", "textblock", "unterminated", "anonend", "none"} Positions = {0, 1, 2, 3, 4, 5, 6, 7, 8, 9} Args = {0, 1, 2, 3, 4, 5, 6, 7, 8, 9, 10, 11, 12, 13, 14, 15, 16, 17, 18, 19, 20, 21, 22, 23, 24, 25, 26, 27, 28, 29, 30, 31, 32, 33, 34, 35, 36, 37, 38, 39, 40, 41, 42, 43, 44, 45, 46, 47, 48, 49, 50, 51, 52, 53, 54, 55, 56, 57, 58, 59} MaxLen = 1 Sim = FALSE
INVARIANT Emit
CHECK_DEADLOCK FALSE
