---------------------------- MODULE CompilerTrace ----------------------------
(* P3 for C02: every Compile event of a real session must be a Compile step (terminated; program or >= 1 error;
   the driver alive), and every Probe event must show the reference image of the probe file.                 *)
EXTENDS Integers, Sequences, TLC, Json, IOUtils
T == ndJsonDeserialize(IOEnv.TRACE)
VARIABLES l, ref
vars == <<l, ref>>
Ev(name) == l <= Len(T) /\ T[l].e = name /\ l' = l + 1
R == T[l]
TReset == Ev("Reset") /\ ref' = R.ref
TCompile == /\ Ev("Compile") /\ R.finished
            /\ R.outcome \in {"program", "errors"} /\ (R.outcome = "errors" => R.nerr >= 1)
            /\ (R.outcome = "program" => R.nerr = 0)      \* a program is delivered only for an error-free compile
            /\ UNCHANGED ref
TProbe == Ev("Probe") /\ R.image = ref /\ UNCHANGED ref
TraceNext == TReset \/ TCompile \/ TProbe
Init == l = 1 /\ ref = ""
TraceSpec == Init /\ [][TraceNext]_vars
ASSUME TLCSet(1, 0)
Track == TLCSet(1, IF TLCGet(1) < l THEN l ELSE TLCGet(1))
Accepted == IF TLCGet(1) = Len(T) + 1 THEN TRUE
            ELSE PrintT(<<"@@MATCHED", TLCGet(1)>>) /\ FALSE
=============================================================================
