------------------------------ MODULE Compiler ------------------------------
(* Compile sessions (property C02).

   The compiler is a function of the source text and of nothing else: compiling a text terminates and yields
   either a program or at least one reported compile error, and it leaves no trace - whatever was compiled
   before (successfully or not, in any order), a given file compiles to the same program it compiles to in a
   freshly started driver.  The abstract specification therefore has NO variable that a compile may change:
   the only state is the fixed reference image of the probe file and the position in the history.           *)
EXTENDS Integers, Sequences, TLC, Json
CONSTANTS Seeds, Damages, Positions, Args, MaxLen, Sim
VARIABLES hist, done
vars == <<hist, done>>
Pick(S) == IF Sim THEN {RandomElement(S)} ELSE S

\* a recipe: take seed program s, apply damage d with argument a at position p (tools/c02 applies it token-wise)
Recipe == [s : Seeds, d : Damages, p : Positions, a : Args]

\* the abstract action: outcome and error count are the compiler's answer for that text
Compile(outcome, nerr) == outcome \in {"program", "errors"} /\ (outcome = "errors" => nerr >= 1)
\* the probe file compiled after the history must give the reference image
Probe(img, ref) == img = ref

Init == hist = <<>> /\ done = FALSE
Next == \/ /\ ~done /\ Len(hist) < MaxLen
           /\ \E s \in Pick(Seeds), d \in Pick(Damages), p \in Pick(Positions), a \in Pick(Args) :
                hist' = Append(hist, [s |-> s, d |-> d, p |-> p, a |-> a])
           /\ done' = (Len(hist') = MaxLen \/ (Sim /\ RandomElement(1..3) = 1))
        \/ /\ done /\ UNCHANGED vars
        \/ /\ ~done /\ Len(hist) >= 1 /\ done' = TRUE /\ UNCHANGED hist
Spec == Init /\ [][Next]_vars
Emit == done => PrintT(<<"@@B", ToJson(hist)>>)
=============================================================================
