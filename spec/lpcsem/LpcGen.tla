------------------------------- MODULE LpcGen -------------------------------
(* P2 + oracle for C03: the abstract stack machine of the expression core.  Every step pushes a leaf or applies an
   operator of LpcSem to the top of the abstract stack; the history is the program in postfix form, the top of the
   stack is the value the reference semantics gives it.  TLC enumerates all programs up to MaxTok tokens (BFS)
   and longer random ones (-simulate); tools render each program as LPC in several equivalent spellings.      *)
EXTENDS LpcSem, Json
CONSTANTS Ints, Strs, Arrs, MaxTok, MaxStack, Sim
VARIABLES stack, code, types          \* types: the static type of each stack entry ("i" "s" "a", "m" = mixed)
vars == <<stack, code, types>>
Pick(X) == IF Sim THEN {RandomElement(X)} ELSE X
Tok(r) == code' = Append(code, r)
More == Len(code) < MaxTok
Top(k) == stack[Len(stack) - k]
Pop(k) == SubSeq(stack, 1, Len(stack) - k)
Small(x) == IF x.t = "i" THEN (x.v >= -20000 /\ x.v <= 20000) ELSE TRUE          \* keep the model inside TLC's integers
ArrOf(q) == A(q)                     \* the pool holds sequences of tagged values

TT(k) == types[Len(types) - k]
PopT(k) == SubSeq(types, 1, Len(types) - k)
\* what the compiler accepts (it rejects ill-typed operands even in branches that are never evaluated)
\* "ax" / "sx": an array / a string produced by a binary operator; with operands of unknown static type (mixed
\* variables) the compiler types such results as int, so they are never indexed or ranged in the generated programs
N(t) == IF t = "ax" THEN "a" ELSE IF t = "sx" THEN "s" ELSE t
\* (array & array is left out: the order of the elements of an intersection is not specified)
Adm(op) == CASE op = "add" -> {"i", "s", "a", "m"} [] op = "sub" -> {"i", "a", "m"}
             [] op \in {"lt", "le", "gt", "ge", "eq", "ne"} -> {"i", "s", "m"} [] OTHER -> {"i", "m"}
Compat(op, a, b) ==
  IF a = "m" \/ b = "m" THEN TRUE
  ELSE IF a = "i" /\ b = "i" THEN TRUE
  ELSE IF op = "add" THEN <<a, b>> \in {<<"s", "s">>, <<"s", "i">>, <<"i", "s">>, <<"a", "a">>}
  ELSE a = b
\* - and & : an array on one side only (the other of unknown type) is not generated
OkBin(op, a, b) == /\ N(a) \in Adm(op) /\ N(b) \in Adm(op) /\ Compat(op, N(a), N(b))
                   /\ ~(op \in {"sub", "and"} /\ (N(a) = "a") # (N(b) = "a"))
\* the static type the compiler gives the result
TypeBin(op, a, b) ==
  IF op \in {"lt", "le", "gt", "ge", "eq", "ne"} THEN "i"
  ELSE IF op = "add" THEN
         (IF N(a) = "a" \/ N(b) = "a" THEN "ax"
          ELSE IF N(a) = "s" \/ N(b) = "s" THEN "sx" ELSE "i")          \* (mixed + int is typed int by the compiler)
  ELSE IF op \in {"sub", "and"} /\ N(a) = "a" /\ N(b) = "a" THEN "ax"
  ELSE "i"
Init == stack = <<>> /\ code = <<>> /\ types = <<>>
PushInt == /\ More /\ Len(stack) < MaxStack /\ \E n \in Pick(Ints) : stack' = Append(stack, I(n)) /\ types' = Append(types, "i") /\ Tok([k |-> "int", v |-> n])
PushStr == /\ More /\ Len(stack) < MaxStack /\ \E q \in Pick(Strs) : stack' = Append(stack, S(q)) /\ types' = Append(types, "s") /\ Tok([k |-> "str", v |-> q])
PushArr == /\ More /\ Len(stack) < MaxStack /\ \E q \in Pick(Arrs) : stack' = Append(stack, ArrOf(q)) /\ types' = Append(types, "a") /\ Tok([k |-> "arr", v |-> q])
BinOps == {"add", "sub", "mul", "div", "mod", "and", "or", "xor", "shl", "shr", "lt", "le", "gt", "ge", "eq", "ne"}
DoBin == /\ More /\ Len(stack) >= 2
         /\ \E op \in Pick(BinOps) :
              LET r == Bin(op, Top(1), Top(0)) IN
              /\ OkBin(op, TT(1), TT(0)) /\ types' = Append(PopT(2), TypeBin(op, TT(1), TT(0)))
              /\ Small(r) /\ ~(op \in {"shl", "shr"} /\ ~(Top(0).t = "i" /\ Top(0).v \in 0..8 /\ Top(1).t = "i"))
              /\ ~(op \in {"eq", "ne"} /\ Top(0).t # Top(1).t)           \* comparing different types: not generated
              /\ ~(op \in {"eq", "ne", "lt", "le", "gt", "ge"} /\ Top(0).t = "a")
              /\ ~(r.t = "e" /\ r.v = "type")                            \* ill-typed programs are the compiler's business
              /\ stack' = Append(Pop(2), r) /\ Tok([k |-> "bin", v |-> op])
DoUn == /\ More /\ Len(stack) >= 1
        /\ \E op \in Pick({"not", "neg", "compl", "sizeof"}) :
              LET r == Un(op, Top(0)) IN
              /\ ~(r.t = "e" /\ r.v = "type") /\ ~(op = "sizeof" /\ TT(0) \in {"i", "m"}) /\ ~(op = "not" /\ TT(0) \in {"a", "m"})
              /\ (op \in {"neg", "compl"} => TT(0) = "i") /\ types' = Append(PopT(1), "i")
              /\ stack' = Append(Pop(1), r) /\ Tok([k |-> "un", v |-> op])
DoLazy == /\ More /\ Len(stack) >= 2
          /\ \E op \in Pick({"land", "lor"}) :
               /\ TT(0) = "i" /\ TT(1) = "i" /\ types' = Append(PopT(2), "i")
               /\ stack' = Append(Pop(2), IF op = "land" THEN LAnd(Top(1), Top(0)) ELSE LOr(Top(1), Top(0)))
               /\ Tok([k |-> "lazy", v |-> op])
DoCond == /\ More /\ Len(stack) >= 3 /\ TT(2) = "i" /\ TT(1) = TT(0) /\ types' = Append(PopT(3), TT(0))
          /\ stack' = Append(Pop(3), Cond(Top(2), Top(1), Top(0))) /\ Tok([k |-> "cond", v |-> "cond"])
DoIndex == /\ More /\ Len(stack) >= 2 /\ TT(1) \in {"a", "s"} /\ TT(0) = "i" /\ types' = Append(PopT(2), IF TT(1) = "s" THEN "i" ELSE "m")
           /\ \E fe \in Pick(BOOLEAN) : stack' = Append(Pop(2), Index(Top(1), Top(0), fe)) /\ Tok([k |-> "index", v |-> fe])
DoRange == /\ More /\ Len(stack) >= 3 /\ TT(2) \in {"a", "s"} /\ TT(1) = "i" /\ TT(0) = "i" /\ types' = Append(PopT(3), TT(2))
           /\ \E ie \in Pick(BOOLEAN), je \in Pick(BOOLEAN) :
                /\ stack' = Append(Pop(3), Range(Top(2), Top(1), ie, Top(0), je)) /\ Tok([k |-> "range", ie |-> ie, je |-> je])
Stutter == ~More /\ UNCHANGED vars
Next == PushInt \/ PushStr \/ PushArr \/ DoBin \/ DoUn \/ DoLazy \/ DoCond \/ DoIndex \/ DoRange \/ Stutter
Spec == Init /\ [][Next]_vars
\* a complete program: exactly one value left, and it did something
Complete == Len(stack) = 1 /\ Len(code) >= 2 /\ code[Len(code)].k \notin {"int", "str", "arr"}
Emit == Complete => PrintT(<<"@@B", ToJson([code |-> code, expect |-> stack[1]])>>)
=============================================================================
