------------------------------- MODULE LpcGen -------------------------------
(* P2 + oracle for C03: the abstract stack machine of the expression core.  Every step pushes a leaf or applies an
   operator of LpcSem to the top of the abstract stack; the history is the program in postfix form, the top of the
   stack is the value the reference semantics gives it.  TLC enumerates all programs up to MaxTok tokens (BFS)
   and longer random ones (-simulate); tools render each program as LPC in several equivalent spellings.      *)
EXTENDS LpcSem, Json
CONSTANTS Ints, Strs, Arrs, MaxTok, MaxStack, Sim
VARIABLES stack, code
vars == <<stack, code>>
Pick(X) == IF Sim THEN {RandomElement(X)} ELSE X
Tok(r) == code' = Append(code, r)
More == Len(code) < MaxTok
Top(k) == stack[Len(stack) - k]
Pop(k) == SubSeq(stack, 1, Len(stack) - k)
Small(x) == IF x.t = "i" THEN (x.v >= -20000 /\ x.v <= 20000) ELSE TRUE          \* keep the model inside TLC's integers
ArrOf(q) == A(q)                     \* the pool holds sequences of tagged values

Init == stack = <<>> /\ code = <<>>
PushInt == /\ More /\ Len(stack) < MaxStack /\ \E n \in Pick(Ints) : stack' = Append(stack, I(n)) /\ Tok([k |-> "int", v |-> n])
PushStr == /\ More /\ Len(stack) < MaxStack /\ \E q \in Pick(Strs) : stack' = Append(stack, S(q)) /\ Tok([k |-> "str", v |-> q])
PushArr == /\ More /\ Len(stack) < MaxStack /\ \E q \in Pick(Arrs) : stack' = Append(stack, ArrOf(q)) /\ Tok([k |-> "arr", v |-> q])
BinOps == {"add", "sub", "mul", "div", "mod", "and", "or", "xor", "shl", "shr", "lt", "le", "gt", "ge", "eq", "ne"}
DoBin == /\ More /\ Len(stack) >= 2
         /\ \E op \in Pick(BinOps) :
              LET r == Bin(op, Top(1), Top(0)) IN
              /\ Small(r) /\ ~(op \in {"shl", "shr"} /\ ~(Top(0).t = "i" /\ Top(0).v \in 0..8 /\ Top(1).t = "i"))
              /\ ~(op \in {"eq", "ne"} /\ Top(0).t # Top(1).t)           \* comparing different types: not generated
              /\ ~(op \in {"eq", "ne", "lt", "le", "gt", "ge"} /\ Top(0).t = "a")
              /\ ~(r.t = "e" /\ r.v = "type")                            \* ill-typed programs are the compiler's business
              /\ stack' = Append(Pop(2), r) /\ Tok([k |-> "bin", v |-> op])
DoUn == /\ More /\ Len(stack) >= 1
        /\ \E op \in Pick({"not", "neg", "compl", "sizeof"}) :
              LET r == Un(op, Top(0)) IN
              /\ ~(r.t = "e" /\ r.v = "type") /\ ~(op = "sizeof" /\ Top(0).t = "i") /\ ~(op = "not" /\ Top(0).t = "a")
              /\ stack' = Append(Pop(1), r) /\ Tok([k |-> "un", v |-> op])
DoLazy == /\ More /\ Len(stack) >= 2
          /\ \E op \in Pick({"land", "lor"}) :
               /\ Top(0).t \in {"i", "e"} /\ Top(1).t \in {"i", "e"}
               /\ stack' = Append(Pop(2), IF op = "land" THEN LAnd(Top(1), Top(0)) ELSE LOr(Top(1), Top(0)))
               /\ Tok([k |-> "lazy", v |-> op])
DoCond == /\ More /\ Len(stack) >= 3 /\ Top(2).t \in {"i", "e"}
          /\ stack' = Append(Pop(3), Cond(Top(2), Top(1), Top(0))) /\ Tok([k |-> "cond", v |-> "cond"])
DoIndex == /\ More /\ Len(stack) >= 2 /\ Top(1).t \in {"a", "s", "e"} /\ Top(0).t \in {"i", "e"}
           /\ \E fe \in Pick(BOOLEAN) : stack' = Append(Pop(2), Index(Top(1), Top(0), fe)) /\ Tok([k |-> "index", v |-> fe])
DoRange == /\ More /\ Len(stack) >= 3 /\ Top(2).t \in {"a", "s", "e"} /\ Top(1).t \in {"i", "e"} /\ Top(0).t \in {"i", "e"}
           /\ \E ie \in Pick(BOOLEAN), je \in Pick(BOOLEAN) :
                /\ stack' = Append(Pop(3), Range(Top(2), Top(1), ie, Top(0), je)) /\ Tok([k |-> "range", ie |-> ie, je |-> je])
Stutter == ~More /\ UNCHANGED vars
Next == PushInt \/ PushStr \/ PushArr \/ DoBin \/ DoUn \/ DoLazy \/ DoCond \/ DoIndex \/ DoRange \/ Stutter
Spec == Init /\ [][Next]_vars
\* a complete program: exactly one value left, and it did something
Complete == Len(stack) = 1 /\ Len(code) >= 2 /\ code[Len(code)].k \notin {"int", "str", "arr"}
Emit == Complete => PrintT(<<"@@B", ToJson([code |-> code, expect |-> stack[1]])>>)
=============================================================================
