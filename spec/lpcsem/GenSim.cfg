SPECIFICATION Spec
CONSTANTS Ints <- SInts Strs <- SStrs Arrs <- SArrs MaxTok = 11 MaxStack = 4 Sim = TRUE
INVARIANT Emit
CHECK_DEADLOCK FALSE
