------------------------------ MODULE LpcMaps ------------------------------
(* The mapping part of LpcSem evaluated by TLC over a pool of mappings: every l + r, every m[k] and sizeof(m),
   every 'delete k, then put k'.  checks/c03.py renders each in several spellings (binary +, +=, entry-by-entry
   assignment into a copy, literal / typed / mixed / global operands) and compares the driver's values with these.
   Pool: empty, small, overlapping keys with different values, string and integer keys together, and two larger
   ones (beyond the initial hash-table size) that overlap.                                                  *)
EXTENDS LpcSem, Json
VARIABLE x
Big(lo, hi, f) == [n \in 1..(hi - lo + 1) |-> <<I(lo + n - 1), I(f * (lo + n - 1))>>]
Pool == << <<>>,
           << <<I(1), I(10)>> >>,
           << <<I(1), I(11)>>, <<I(2), I(20)>> >>,
           << <<I(3), I(30)>>, <<I(2), I(21)>>, <<I(1), I(12)>> >>,
           << <<S(<<97>>), I(1)>>, <<I(1), S(<<120>>)>>, <<I(2), I(22)>>, <<S(<<98>>), I(2)>> >>,
           << <<S(<<98>>), I(5)>>, <<I(7), I(70)>> >>,
           Big(0, 39, 2),
           Big(20, 70, -1),
           << <<I(-1), I(0)>>, <<I(0), I(-1)>> >> >>
Keys == <<I(0), I(1), I(2), I(3), I(7), I(25), I(40), I(-1), S(<<97>>), S(<<98>>), S(<<>>)>>
N == Len(Pool)
Init == x = 0
Next == UNCHANGED x
Spec == Init /\ [][Next]_x
Emit == /\ \A i \in 1..N, j \in 1..N : PrintT(<<"@@B", ToJson([k |-> "add", l |-> i, r |-> j, v |-> Bin("add", M(Pool[i]), M(Pool[j]))])>>)
        /\ \A i \in 1..N, q \in 1..Len(Keys) : PrintT(<<"@@B", ToJson([k |-> "idx", l |-> i, r |-> q, v |-> Index(M(Pool[i]), Keys[q], FALSE)])>>)
        /\ \A i \in 1..N : PrintT(<<"@@B", ToJson([k |-> "size", l |-> i, r |-> 0, v |-> Un("sizeof", M(Pool[i]))])>>)
        /\ \A i \in 1..N, q \in 1..Len(Keys) : PrintT(<<"@@B", ToJson([k |-> "delput", l |-> i, r |-> q, v |-> MapPut(MapDel(Pool[i], Keys[q]).v, Keys[q], I(99))])>>)
PoolJson == PrintT(<<"@@B", ToJson([k |-> "pool", l |-> 0, r |-> 0, v |-> [pool |-> Pool, keys |-> Keys]])>>)
EmitAll == Emit /\ PoolJson
=============================================================================
