SPECIFICATION Spec
INVARIANT EmitAll
CHECK_DEADLOCK FALSE
