SPECIFICATION Spec
CONSTANTS Ints <- QInts Strs <- QStrs Arrs <- QArrs MaxTok = 5 MaxStack = 3 Sim = FALSE
INVARIANT Emit
CHECK_DEADLOCK FALSE
