------------------------------- MODULE LpcSem -------------------------------
(* Reference semantics of the LPC value core (property C03), written as operators on tagged values so that TLC
   can EVALUATE them: the specification is the oracle.

     [t |-> "i", v |-> n]        integer            (64-bit in the driver; the model keeps values small)
     [t |-> "s", v |-> <<c..>>]  string, as its character codes
     [t |-> "a", v |-> <<x..>>]  array of values
     [t |-> "m", v |-> <<<<k, x>>..>>]  mapping: its entries, keys pairwise different (integers and strings)
     [t |-> "e", v |-> kind]     the evaluation raised a runtime error: "div0" | "index" | "type"

   Sources: docs/manual/lpc.md (operators; 'Indexing and Ranging': an out-of-bounds INDEX is an error, a RANGE is
   cut down to the maximal sub-range inside the value, else empty; x[<n] counts from the end) and C semantics for
   integer division (truncation towards zero).  && || ?: evaluate lazily.                                      *)
EXTENDS Integers, Sequences, FiniteSets, TLC

I(n) == [t |-> "i", v |-> n]
S(q) == [t |-> "s", v |-> q]
A(q) == [t |-> "a", v |-> q]
E(k) == [t |-> "e", v |-> k]
IsErr(x) == x.t = "e"
Truthy(x) == ~(x.t = "i" /\ x.v = 0)
Bool(b) == I(IF b THEN 1 ELSE 0)

Abs(n) == IF n < 0 THEN -n ELSE n
TDiv(a, b) == IF (a < 0) = (b < 0) THEN Abs(a) \div Abs(b) ELSE -(Abs(a) \div Abs(b))     \* truncation towards zero
TMod(a, b) == a - b * TDiv(a, b)
RECURSIVE Pow2(_)
Pow2(n) == IF n = 0 THEN 1 ELSE 2 * Pow2(n - 1)
\* bitwise operators through 16-bit two's complement (the results of & | ^ on 16-bit values fit in 16 bits)
U16(n) == IF n < 0 THEN n + 65536 ELSE n
S16(n) == IF n >= 32768 THEN n - 65536 ELSE n
RECURSIVE BitOp(_, _, _, _)
BitOp(op, a, b, k) ==
  IF k = 16 THEN 0
  ELSE LET x == a % 2  y == b % 2
           r == CASE op = "and" -> IF x = 1 /\ y = 1 THEN 1 ELSE 0
                  [] op = "or" -> IF x = 1 \/ y = 1 THEN 1 ELSE 0
                  [] op = "xor" -> IF x # y THEN 1 ELSE 0
       IN r + 2 * BitOp(op, a \div 2, b \div 2, k + 1)
Bits(op, a, b) == S16(BitOp(op, U16(a), U16(b), 0))

\* decimal text of an integer, as character codes
RECURSIVE Digits(_)
Digits(n) == IF n < 10 THEN <<48 + n>> ELSE Digits(n \div 10) \o <<48 + (n % 10)>>
Dec(n) == IF n < 0 THEN <<45>> \o Digits(-n) ELSE Digits(n)

\* strcmp: -1 / 0 / 1
RECURSIVE SCmp(_, _)
SCmp(p, q) == IF p = <<>> /\ q = <<>> THEN 0
              ELSE IF p = <<>> THEN -1 ELSE IF q = <<>> THEN 1
              ELSE IF Head(p) < Head(q) THEN -1 ELSE IF Head(p) > Head(q) THEN 1 ELSE SCmp(Tail(p), Tail(q))

\* array minus array: the elements of p that are equal to no element of q (integers and strings compare by value)
Same(x, y) == x.t = y.t /\ x.t \in {"i", "s"} /\ x.v = y.v
RECURSIVE ASub(_, _)
ASub(p, q) == IF p = <<>> THEN <<>>
              ELSE (IF \E k \in 1..Len(q) : Same(Head(p), q[k]) THEN <<>> ELSE <<Head(p)>>) \o ASub(Tail(p), q)
RECURSIVE AAnd(_, _)
AAnd(p, q) == IF p = <<>> THEN <<>>
              ELSE (IF \E k \in 1..Len(q) : Same(Head(p), q[k]) THEN <<Head(p)>> ELSE <<>>) \o AAnd(Tail(p), q)

IntOps == {"add", "sub", "mul", "div", "mod", "and", "or", "xor", "shl", "shr", "lt", "le", "gt", "ge", "eq", "ne"}
\* mappings (lpc.md, 'Mappings'): m[k] of an absent key is 0; l + r holds the entries of both, and for a key present in
\* both the value of the RIGHT operand (the same as 'l += r' and as assigning r's entries into a copy of l one by one)
M(q) == [t |-> "m", v |-> q]
MapHas(q, k) == \E n \in 1..Len(q) : Same(q[n][1], k)
MapGet(q, k) == IF MapHas(q, k) THEN q[CHOOSE n \in 1..Len(q) : Same(q[n][1], k)][2] ELSE I(0)
MapAdd(l, r) == M(SelectSeq(l, LAMBDA e : ~MapHas(r, e[1])) \o r)
MapDel(q, k) == M(SelectSeq(q, LAMBDA e : ~Same(e[1], k)))
MapPut(q, k, x) == M(IF MapHas(q, k) THEN [n \in 1..Len(q) |-> IF Same(q[n][1], k) THEN <<k, x>> ELSE q[n]] ELSE Append(q, <<k, x>>))
\* two mappings hold the same entries (the order of entries means nothing)
MapSame(p, q) == Len(p) = Len(q) /\ \A n \in 1..Len(p) : MapHas(q, p[n][1]) /\ MapGet(q, p[n][1]) = p[n][2]

Bin(op, x, y) ==
  IF IsErr(x) THEN x ELSE IF IsErr(y) THEN y
  ELSE IF x.t = "m" /\ y.t = "m" THEN (IF op = "add" THEN MapAdd(x.v, y.v) ELSE E("type"))
  ELSE IF x.t = "i" /\ y.t = "i" THEN
    LET a == x.v  b == y.v IN
    CASE op = "add" -> I(a + b) [] op = "sub" -> I(a - b) [] op = "mul" -> I(a * b)
      [] op = "div" -> IF b = 0 THEN E("div0") ELSE I(TDiv(a, b))
      [] op = "mod" -> IF b = 0 THEN E("div0") ELSE I(TMod(a, b))
      [] op \in {"and", "or", "xor"} -> I(Bits(op, a, b))
      [] op = "shl" -> IF b \in 0..8 THEN I(a * Pow2(b)) ELSE E("type")          \* other shift counts are not generated
      [] op = "shr" -> IF b \in 0..8 THEN I(a \div Pow2(b)) ELSE E("type")       \* arithmetic shift = floor division
      [] op = "lt" -> Bool(a < b) [] op = "le" -> Bool(a <= b) [] op = "gt" -> Bool(a > b) [] op = "ge" -> Bool(a >= b)
      [] op = "eq" -> Bool(a = b) [] op = "ne" -> Bool(a # b)
      [] OTHER -> E("type")
  ELSE IF x.t = "s" /\ y.t = "s" THEN
    CASE op = "add" -> S(x.v \o y.v)
      [] op = "eq" -> Bool(x.v = y.v) [] op = "ne" -> Bool(x.v # y.v)
      [] op = "lt" -> Bool(SCmp(x.v, y.v) < 0) [] op = "le" -> Bool(SCmp(x.v, y.v) <= 0)
      [] op = "gt" -> Bool(SCmp(x.v, y.v) > 0) [] op = "ge" -> Bool(SCmp(x.v, y.v) >= 0)
      [] OTHER -> E("type")
  ELSE IF x.t = "s" /\ y.t = "i" /\ op = "add" THEN S(x.v \o Dec(y.v))
  ELSE IF x.t = "i" /\ y.t = "s" /\ op = "add" THEN S(Dec(x.v) \o y.v)
  ELSE IF x.t = "a" /\ y.t = "a" THEN
    CASE op = "add" -> A(x.v \o y.v) [] op = "sub" -> A(ASub(x.v, y.v)) [] op = "and" -> A(AAnd(x.v, y.v))
      [] OTHER -> E("type")
  ELSE IF op \in {"eq", "ne"} THEN Bool(op = "ne")            \* values of different types are never equal
  ELSE E("type")

Un(op, x) ==
  IF IsErr(x) THEN x
  ELSE CASE op = "not" -> Bool(~Truthy(x))
         [] op = "neg" -> IF x.t = "i" THEN I(-x.v) ELSE E("type")
         [] op = "compl" -> IF x.t = "i" THEN I(-x.v - 1) ELSE E("type")
         [] op = "sizeof" -> IF x.t \in {"a", "s", "m"} THEN I(Len(x.v)) ELSE I(0)
         [] OTHER -> E("type")

\* lazy operators: the right operand of && / || and the untaken branch of ?: are not evaluated
LAnd(x, y) == IF IsErr(x) THEN x ELSE IF ~Truthy(x) THEN I(0) ELSE IF IsErr(y) THEN y ELSE y
LOr(x, y)  == IF IsErr(x) THEN x ELSE IF Truthy(x) THEN x ELSE y
Cond(c, x, y) == IF IsErr(c) THEN c ELSE IF Truthy(c) THEN x ELSE y

\* x[i]  /  x[<i]
Elem(x, k) == IF x.t = "s" THEN I(x.v[k]) ELSE x.v[k]
Index(x, i, fromEnd) ==
  IF IsErr(x) THEN x ELSE IF IsErr(i) THEN i
  ELSE IF x.t = "m" THEN (IF fromEnd THEN E("type") ELSE MapGet(x.v, i))
  ELSE IF x.t \notin {"a", "s"} \/ i.t # "i" THEN E("type")
  ELSE LET n == Len(x.v)  p == IF fromEnd THEN n - i.v ELSE i.v
       IN IF x.t = "s" /\ p = n THEN I(0)                  \* the terminating NUL may be read (MudOS: index == length is allowed for strings)
          ELSE IF p < 0 \/ p >= n THEN E("index") ELSE Elem(x, p + 1)
\* x[i..j] with optional counting from the end on either side
Range(x, i, ie, j, je) ==
  IF IsErr(x) THEN x ELSE IF IsErr(i) THEN i ELSE IF IsErr(j) THEN j
  ELSE IF x.t \notin {"a", "s"} \/ i.t # "i" \/ j.t # "i" THEN E("type")
  ELSE LET n == Len(x.v)
           lo1 == IF ie THEN n - i.v ELSE i.v
           hi1 == IF je THEN n - j.v ELSE j.v
           \* the driver is built with OLD_RANGE_BEHAVIOR: in a STRING range an index that is negative (after the
           \* conversion of <n) counts from the end (lpc.md, 'Indexing and Ranging'); arrays are only cut down
           lo0 == IF x.t = "s" /\ lo1 < 0 THEN lo1 + n ELSE lo1
           hi0 == IF x.t = "s" /\ hi1 < 0 THEN hi1 + n ELSE hi1
           lo == IF lo0 < 0 THEN 0 ELSE lo0
           hi == IF hi0 >= n THEN n - 1 ELSE hi0
           q == IF lo > hi THEN <<>> ELSE SubSeq(x.v, lo + 1, hi + 1)
       IN [t |-> x.t, v |-> q]
=============================================================================
