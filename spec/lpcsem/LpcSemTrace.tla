----------------------------- MODULE LpcSemTrace -----------------------------
(* P3 for C03: every spelling of a program returns the value the reference semantics gives the program
   (expected, computed by TLC from LpcSem or by its cross-checked transcription), and all spellings of one
   program agree with each other (where no reference value exists - "any" - the first spelling fixes it).  *)
EXTENDS Integers, Sequences, TLC, Json, IOUtils
T == ndJsonDeserialize(IOEnv.TRACE)
VARIABLES l, cur, val
vars == <<l, cur, val>>
Ev(name) == l <= Len(T) /\ T[l].e = name /\ l' = l + 1
R == T[l]
TReset == Ev("Reset") /\ cur' = "" /\ val' = ""
TResult == /\ Ev("Result")
           /\ IF R.expected # "any" THEN R.value = R.expected
              ELSE (R.prog = cur => R.value = val)
           /\ cur' = R.prog /\ val' = IF R.prog = cur THEN val ELSE R.value
TraceNext == TReset \/ TResult
Init == l = 1 /\ cur = "" /\ val = ""
TraceSpec == Init /\ [][TraceNext]_vars
ASSUME TLCSet(1, 0)
Track == TLCSet(1, IF TLCGet(1) < l THEN l ELSE TLCGet(1))
Accepted == IF TLCGet(1) = Len(T) + 1 THEN TRUE
            ELSE PrintT(<<"@@MATCHED", TLCGet(1)>>) /\ FALSE
=============================================================================
