SPECIFICATION GSpec
CONSTANTS Tokens = {"a", "b", "sp", "crlf", "crnul", "bs", "del", "iaciac", "will", "wont", "do", "dont", "nop", "sb", "sbiac"}
  MaxTok = 9
  Sim = TRUE
INVARIANT Emit
CHECK_DEADLOCK FALSE
