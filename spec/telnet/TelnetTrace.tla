----------------------------- MODULE TelnetTrace -----------------------------
EXTENDS Telnet, Json, IOUtils, TLC
T == ndJsonDeserialize(IOEnv.TRACE)
VARIABLE l
tvars == <<vars, l>>
Ev(name) == l <= Len(T) /\ T[l].e = name /\ l' = l + 1
R == T[l]
TReset == Ev("Reset") /\ dec' = D0 /\ nserved' = 0 /\ strict' = (R.cls = "strict") /\ port' = R.port
TRecv  == Ev("Recv") /\ Receive(R.bytes)
TLine  == Ev("Line") /\ Deliver(R.text)
TBuf   == Ev("Buf") /\ Buffer(R.ts, R.te)
TEnd   == Ev("Drained") /\ Drained
TraceNext == TReset \/ TRecv \/ TLine \/ TBuf \/ TEnd
TraceInit == Init /\ l = 1
TraceSpec == TraceInit /\ [][TraceNext]_tvars
ASSUME TLCSet(1, 0)
Track == TLCSet(1, IF TLCGet(1) < l THEN l ELSE TLCGet(1))
Accepted == IF TLCGet(1) = Len(T) + 1 THEN TRUE
            ELSE PrintT(<<"@@MATCHED", TLCGet(1)>>) /\ FALSE
=============================================================================
