SPECIFICATION TraceSpec
CONSTANT MaxText = 2048
CONSTRAINT Track
POSTCONDITION Accepted
CHECK_DEADLOCK FALSE
