SPECIFICATION GSpec
CONSTANTS Tokens = {"a", "b", "lf", "sp"}
  MaxTok = 4
  Sim = FALSE
INVARIANT Emit
CHECK_DEADLOCK FALSE
