SPECIFICATION GSpec
CONSTANTS Tokens = {"a", "crlf", "crnul", "bs", "iaciac", "will", "do", "sb"}
  MaxTok = 3
  Sim = FALSE
INVARIANT Emit
CHECK_DEADLOCK FALSE
