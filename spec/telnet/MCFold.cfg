SPECIFICATION GSpec
CONSTANTS Tokens = {"a", "b", "crlf", "crnul", "bs", "iaciac", "will", "do", "nop", "sb", "sbiac"}
  MaxTok = 4
  Sim = FALSE
INVARIANT FoldOk
INVARIANT NoLeak
CHECK_DEADLOCK FALSE
