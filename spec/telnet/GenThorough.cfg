SPECIFICATION GSpec
CONSTANTS Tokens = {"a", "b", "crlf", "crnul", "bs", "del", "iaciac", "will", "do", "nop", "sb", "sbiac"}
  MaxTok = 3
  Sim = FALSE
INVARIANT Emit
CHECK_DEADLOCK FALSE
