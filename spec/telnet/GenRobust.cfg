SPECIFICATION GSpec
CONSTANTS Tokens = {"a", "crlf", "crnul", "bs", "iaciac", "will", "sb", "lonecr", "lf", "nul", "iacse", "iacend", "sbopen", "sbbig", "sbbad", "long", "long2047", "l680", "hi"}
  MaxTok = 6
  Sim = TRUE
INVARIANT Emit
CHECK_DEADLOCK FALSE
