------------------------------ MODULE TelnetGen ------------------------------
(* P1 + P2 for C13.
   P1 (MCFold.cfg): for every token stream up to MaxTok tokens and every cut position, feeding
   the two pieces one after the other equals feeding the whole (the reference is a fold), and
   the strict class never produces a line containing a negotiation byte.
   P2 (Gen*.cfg): prints (token stream, segmentation) pairs for the binding.                *)
EXTENDS TelnetRef, TLC, Json

CONSTANTS Tokens, MaxTok, Sim
VARIABLES toks, cuts, phase
gvars == <<toks, cuts, phase>>

Bytes(t) == CASE t = "a" -> <<97>> [] t = "b" -> <<98>> [] t = "sp" -> <<32>>
              [] t = "crlf" -> <<13, 10>> [] t = "crnul" -> <<13, 0>>
              [] t = "bs" -> <<8>> [] t = "del" -> <<127>>
              [] t = "iaciac" -> <<255, 255>>
              [] t = "will" -> <<255, 251, 24>> [] t = "wont" -> <<255, 252, 31>>
              [] t = "do" -> <<255, 253, 3>> [] t = "dont" -> <<255, 254, 3>>
              [] t = "nop" -> <<255, 241>>
              [] t = "sb" -> <<255, 250, 24, 0, 120, 121, 255, 240>>
              [] t = "sbiac" -> <<255, 250, 31, 255, 255, 80, 0, 24, 255, 240>>
              \* robust-class tokens: outside what the reference decides
              [] t = "lonecr" -> <<13, 97>> [] t = "lf" -> <<10>> [] t = "nul" -> <<0>>
              [] t = "iacse" -> <<255, 240>> [] t = "iacend" -> <<255>> [] t = "sbopen" -> <<255, 250, 24>>
              [] t = "sbbig" -> <<255, 250, 24, 0>> \o [i \in 1 .. 130 |-> 120] \o <<255, 240>>
              [] t = "sbbad" -> <<255, 250, 24, 255, 241, 120, 255, 240>>
              [] t = "long" -> [i \in 1 .. 2100 |-> 97]
              [] t = "long2047" -> [i \in 1 .. 2047 |-> 97]
              [] t = "l680" -> [i \in 1 .. 680 |-> 98]
              [] t = "hi" -> <<200, 233>>
RECURSIVE Flat(_)
Flat(ts) == IF ts = <<>> THEN <<>> ELSE Bytes(Head(ts)) \o Flat(Tail(ts))

Pick(S) == IF Sim THEN (IF S = {} THEN {} ELSE {RandomElement(S)}) ELSE S

Init0 == toks = <<>> /\ cuts = {} /\ phase = "build"
GNext ==
  \/ /\ phase = "build" /\ Len(toks) < MaxTok
     /\ \E t \in Pick(Tokens) : toks' = Append(toks, t)
     /\ UNCHANGED <<cuts, phase>>
  \/ /\ phase = "build" /\ Len(toks) >= 1
     /\ LET n == Len(Flat(toks)) IN
        \E c \in Pick({{}} \cup {{i} : i \in 1 .. n - 1} \cup {1 .. n - 1}
                      \cup (IF Sim /\ n > 1 THEN {{RandomElement(1 .. n - 1), RandomElement(1 .. n - 1), RandomElement(1 .. n - 1)}} ELSE {})) : cuts' = c
     /\ phase' = "done" /\ UNCHANGED toks
  \/ phase = "done" /\ UNCHANGED gvars
GSpec == Init0 /\ [][GNext]_gvars

CutsSeq == LET n == Len(Flat(toks)) IN [i \in 1 .. n - 1 |-> IF i \in cuts THEN 1 ELSE 0]
Emit == phase = "done" => PrintT(<<"@@B", ToJson([toks |-> toks, bytes |-> Flat(toks), cuts |-> CutsSeq])>>)

\* ---- P1: the reference is compositional, and negotiation never leaks into lines
FoldOk == phase = "build" =>
  LET s == Flat(toks) IN
  \A i \in 0 .. Len(s) : Feed(Feed(D0, SubSeq(s, 1, i)), SubSeq(s, i + 1, Len(s))) = Feed(D0, s)
NoLeak == phase = "build" =>
  LET d == Feed(D0, Flat(toks)) IN
  \A k \in 1 .. Len(d.done) : \A j \in 1 .. Len(d.done[k]) : d.done[k][j] \in {97, 98, 32, 8, 127, 255}
=============================================================================
