------------------------------- MODULE Telnet -------------------------------
(* Behavioural specification of input framing used for trace validation (property C13);
   the reference decoder (a fold over the byte stream) is in TelnetRef.                    *)
EXTENDS TelnetRef

CONSTANT MaxText          \* size of the per-user input buffer (2048)
VARIABLES dec,      \* reference decoder state over everything received so far
          nserved,  \* number of lines handed to the mudlib
          strict,   \* class of this execution
          port      \* "telnet" | "ascii"
vars == <<dec, nserved, strict, port>>

Init == dec = D0 /\ nserved = 0 /\ strict = TRUE /\ port = "telnet"

Receive(bytes) == /\ dec' = IF port = "ascii" THEN FeedA(dec, bytes) ELSE Feed(dec, bytes)
                  /\ UNCHANGED <<nserved, strict, port>>

\* robust class: a byte may appear in a command only if the reference decoder met it as data
DataByte(b) == b \in dec.seen

Deliver(text) ==
  /\ IF strict
     THEN /\ nserved < Len(dec.done)                      \* something complete is waiting
          /\ text = (IF port = "ascii" THEN dec.done[nserved + 1] ELSE Edited(dec.done[nserved + 1]))  \* in order, exactly
     ELSE \A i \in 1 .. Len(text) : DataByte(text[i])     \* robust: no negotiation byte leaks
  /\ nserved' = nserved + 1
  /\ UNCHANGED <<dec, strict, port>>

\* projection of the driver's buffer indices after every poll
Buffer(start, end) ==
  /\ 0 <= start /\ start <= end /\ end <= MaxText - 1     \* bounded, never past the buffer
  /\ UNCHANGED vars

\* end of a strict execution after the client stopped sending and the driver had time to drain
Drained == (strict => nserved = Len(dec.done)) /\ UNCHANGED vars
=============================================================================
