------------------------------ MODULE TelnetRef ------------------------------
(* Abstract specification of input framing on a telnet port (property C13).

   The reference decoder is a FOLD over the client's byte stream, so its result cannot depend
   on how the stream was cut into network reads:  Feed(Feed(d, s1), s2) = Feed(d, s1 \o s2).
   RFC 854 level: IAC IAC is the data byte 255; IAC WILL/WONT/DO/DONT x and IAC SB ... IAC SE
   are removed; other IAC commands are removed; CR LF and CR NUL end a line; BS / DEL edit the
   line when it is delivered.  What the property (and the RFC) leave open is NOT decided by
   this specification: a CR followed by another byte, a bare LF or NUL, an IAC other than
   IAC IAC / IAC SE inside a sub-negotiation -- streams containing those are "robust class"
   and only their safety is judged.                                                       *)
EXTENDS Integers, Sequences, FiniteSets

IAC == 255  DONT == 254  DO == 253  WONT == 252  WILL == 251  SB == 250  SE == 240
CR == 13  LF == 10  NUL == 0  BS == 8  DEL == 127

\* decoder state: mode, CR pending, current line, completed raw lines
D0 == [mode |-> "data", cr |-> FALSE, line |-> <<>>, done |-> <<>>, seen |-> {}]

\* `seen` collects every byte the reference met as DATA (used to judge robust-class streams:
\* a byte that was only ever part of a negotiation must not show up in a command)
Step0(d, b) ==
  CASE d.mode = "data" ->
         IF b = IAC THEN [d EXCEPT !.mode = "iac", !.cr = FALSE]
         ELSE IF b = CR THEN [d EXCEPT !.cr = TRUE]
         ELSE IF d.cr /\ (b = LF \/ b = NUL)
              THEN [d EXCEPT !.cr = FALSE, !.done = Append(@, d.line), !.line = <<>>]
         ELSE IF d.cr THEN [d EXCEPT !.cr = FALSE]              \* left open; outside the strict class
         ELSE [d EXCEPT !.line = Append(@, b)]
    [] d.mode = "iac" ->
         IF b = IAC THEN [d EXCEPT !.mode = "data", !.line = Append(@, IAC)]
         ELSE IF b \in {DO, DONT, WILL, WONT} THEN [d EXCEPT !.mode = "opt"]
         ELSE IF b = SB THEN [d EXCEPT !.mode = "sb"]
         ELSE [d EXCEPT !.mode = "data"]
    [] d.mode = "opt" -> [d EXCEPT !.mode = "data"]
    [] d.mode = "sb" -> IF b = IAC THEN [d EXCEPT !.mode = "sbiac"] ELSE d
    [] d.mode = "sbiac" ->
         IF b = SE THEN [d EXCEPT !.mode = "data"]
         ELSE IF b = IAC THEN [d EXCEPT !.mode = "sb"]
         ELSE d                                                  \* left open; outside the strict class

Step(d, b) ==
  LET e == Step0(d, b) IN
  IF d.mode = "data" /\ b # IAC THEN [e EXCEPT !.seen = @ \cup {b}]
  ELSE IF d.mode = "iac" /\ b = IAC THEN [e EXCEPT !.seen = @ \cup {IAC}]
  ELSE e

RECURSIVE Feed(_, _)
Feed(d, s) == IF s = <<>> THEN d ELSE Feed(Step(d, Head(s)), Tail(s))

\* line-mode (ASCII) port: no telnet processing, LF ends a line
StepA(d, b) == IF b = LF THEN [d EXCEPT !.done = Append(@, d.line), !.line = <<>>, !.seen = @ \cup {b}]
               ELSE [d EXCEPT !.line = Append(@, b), !.seen = @ \cup {b}]
RECURSIVE FeedA(_, _)
FeedA(d, s) == IF s = <<>> THEN d ELSE FeedA(StepA(d, Head(s)), Tail(s))

\* BS / DEL editing applied when a line is handed to the mudlib
RECURSIVE Edit(_, _)
Edit(acc, s) == IF s = <<>> THEN acc
                ELSE IF Head(s) = BS \/ Head(s) = DEL
                     THEN Edit(IF acc = <<>> THEN acc ELSE SubSeq(acc, 1, Len(acc) - 1), Tail(s))
                     ELSE Edit(Append(acc, Head(s)), Tail(s))
Edited(s) == Edit(<<>>, s)

=============================================================================
