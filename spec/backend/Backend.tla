------------------------------- MODULE Backend -------------------------------
(* Abstract specification of the driver's main loop under faults (property C09).

   Whatever external events arrive and whichever task raises an uncaught error, the driver
   (1) is still alive at the end (no fatal signal, no sanitizer report, no exit, no hang),
   (2) has reported every error -- to the master's error_handler or, when that fails or is
       absent, to its log -- before it polls again,
   (3) keeps every other object's heart beat: between two polls the set of heart-beat objects
       changes only for objects somebody touched (set_heart_beat / destruct / clone) and for
       the object whose own heart_beat raised the error,
   (4) keeps serving the other users (checked on the same trace against CmdTurn).
   Tasks: command, process_input, input_to, heart_beat, call_out, reset, clean_up, connect,
   logon, net_dead, telnet callbacks, master error_handler.                                *)
EXTENDS Integers, FiniteSets, Sequences

CONSTANT Objs

VARIABLES unreported,  \* errors raised and not yet reported
          hb,          \* objects with a heart beat at the last poll
          touched,     \* objects whose heart beat was set / that were created or destructed since
          failed,      \* objects whose own heart_beat raised an error since the last poll
          ended
vars == <<unreported, hb, touched, failed, ended>>

Init == unreported = 0 /\ hb = {} /\ touched = {} /\ failed = {} /\ ended = FALSE

Raise(task, ob) ==
  /\ ~ended
  /\ unreported' = unreported + 1
  /\ failed' = IF task = "hb" THEN failed \cup {ob} ELSE failed
  /\ UNCHANGED <<hb, touched, ended>>

\* the master's error_handler received the error
Reported == /\ unreported > 0 /\ unreported' = unreported - 1
            /\ UNCHANGED <<hb, touched, failed, ended>>

\* the driver wrote the error to its log (master handler absent or failing)
Logged == /\ unreported' = (IF unreported > 0 THEN unreported - 1 ELSE 0)
          /\ UNCHANGED <<hb, touched, failed, ended>>

Touch(ob) == touched' = touched \cup {ob} /\ UNCHANGED <<unreported, hb, failed, ended>>

Poll(hblist) ==
  /\ ~ended
  /\ unreported = 0                                        \* every error was reported
  /\ \A o \in Objs : o \notin touched =>
        (o \in hblist <=> (o \in hb /\ o \notin failed))   \* only the failing object loses its heart beat
  /\ hb' = hblist /\ touched' = {} /\ failed' = {}
  /\ UNCHANGED <<unreported, ended>>

\* end of the execution as seen by the parent process
End(ok) == /\ ok /\ ended' = TRUE /\ UNCHANGED <<unreported, hb, touched, failed>>
=============================================================================
