SPECIFICATION Spec
CONSTANTS Steps = 3
  Alphabet = {"tick", "tick40", "conn1", "conn2", "cmd1", "cmd2", "err1", "err2", "partial1", "eof1", "hangup1", "rst2", "hberr", "coerr", "copair", "copair2", "pi_err1", "inputto_err1", "dest_self1", "quit1", "netdead_err", "logon_err", "connect_err", "ttype_err1", "reset_err", "cleanup_err", "recon1", "hb_ok", "co_ok", "console_cmd", "console_err", "console_eof"}
  Modes = {"network", "console"}
  Handlers = {"ok", "failing"}
  Sim = FALSE
INVARIANT Emit
CHECK_DEADLOCK FALSE
