------------------------------ MODULE BackendGen ------------------------------
(* Behaviour enumeration for C09 (P2): short histories of external events with errors injected
   into each kind of task, in network and console mode, with a master error_handler that works,
   fails or is silent.                                                                      *)
EXTENDS Integers, Sequences, FiniteSets, TLC, Json
CONSTANTS Steps, Alphabet, Modes, Handlers, Sim
VARIABLES hist, k
vars == <<hist, k>>
Pick(S) == IF Sim THEN (IF S = {} THEN {} ELSE {RandomElement(S)}) ELSE S
Init == hist = <<>> /\ k = 0
Next == \/ /\ k = 0
           /\ \E m \in Pick(Modes), h \in Pick(Handlers) : hist' = <<[a |-> "setup", mode |-> m, eh |-> h]>>
           /\ k' = 1
        \/ /\ k >= 1 /\ k <= Steps
           /\ \E s \in Pick(Alphabet) : hist' = Append(hist, [a |-> s])
           /\ k' = k + 1
        \/ k > Steps /\ UNCHANGED vars
Spec == Init /\ [][Next]_vars
Emit == k = Steps + 1 => PrintT(<<"@@B", ToJson(hist)>>)
=============================================================================
