----------------------------- MODULE BackendTrace -----------------------------
EXTENDS Backend, Json, IOUtils, TLC
T == ndJsonDeserialize(IOEnv.TRACE)
VARIABLE l
tvars == <<vars, l>>
Ev(name) == l <= Len(T) /\ T[l].e = name /\ l' = l + 1
R == T[l]
SeqToSet(s) == {s[i] : i \in 1..Len(s)}
TReset == Ev("Reset") /\ unreported' = 0 /\ hb' = {} /\ touched' = {} /\ failed' = {} /\ ended' = FALSE
TRaise == Ev("Raise") /\ Raise(R.task, R.ob)
TRep   == Ev("Reported") /\ Reported
TLog   == Ev("Logged") /\ Logged
TTouch == Ev("Touch") /\ Touch(R.ob)
TPoll  == Ev("Poll") /\ Poll(SeqToSet(R.hb))
TEnd   == Ev("End") /\ End(R.ok)
TraceNext == TReset \/ TRaise \/ TRep \/ TLog \/ TTouch \/ TPoll \/ TEnd
TraceInit == Init /\ l = 1
TraceSpec == TraceInit /\ [][TraceNext]_tvars
ASSUME TLCSet(1, 0)
Track == TLCSet(1, IF TLCGet(1) < l THEN l ELSE TLCGet(1))
Accepted == IF TLCGet(1) = Len(T) + 1 THEN TRUE
            ELSE PrintT(<<"@@MATCHED", TLCGet(1)>>) /\ FALSE
=============================================================================
