SPECIFICATION TraceSpec
CONSTANT Objs = {"o1", "o2", "o3", "u1", "u2", "u3", "c"}
CONSTRAINT Track
POSTCONDITION Accepted
CHECK_DEADLOCK FALSE
