SPECIFICATION GSpec
CONSTANTS Keys = {1, 7, 126, 65536} Datas = {0, 1, 7, 126, 65535} Msgs = {"a", "b", "c", "d"} MaxLen = 24 MaxPosts = 6 Sim = TRUE Caps = {1, 2, 3}
INVARIANT QueueBounded DroppedOnlyWhenPolicy Emit
CHECK_DEADLOCK FALSE
