------------------------------ MODULE AsyncRTGen ------------------------------
(* Behaviour generator for C19: the logical threads (producers posting completions / wake-ups and
   enqueueing, the backend thread waiting and dequeueing, a controller creating / stopping / joining the
   worker) are interleaved by TLC at the grain of one library call — each call is one atomic step with
   respect to the kernel pipe / mutex it touches, so the harness realises a schedule by issuing the calls
   in TLC's order.  The abstract AsyncRT actions are taken alongside so the invariants of the design are
   checked on exactly the histories that are replayed.                                                  *)
EXTENDS AsyncRT, TLC, Json
CONSTANTS Keys, Datas, Msgs, MaxLen, MaxPosts, Sim, Caps
VARIABLES hist, nposts
gvars == <<vars, hist, nposts>>
Pick(S) == IF Sim THEN {RandomElement(S)} ELSE S
Log(r) == hist' = Append(hist, r)

GInit == Init /\ hist = <<>> /\ nposts = 0
More == Len(hist) < MaxLen

GPost == /\ More /\ nposts < MaxPosts
         /\ \E k \in Pick(Keys), d \in Pick(Datas) : Post(k, d, TRUE) /\ Log([op |-> "post", k |-> k, d |-> d])
         /\ nposts' = nposts + 1
GWake == More /\ wakes < 2 /\ Wake /\ Log([op |-> "wake"]) /\ UNCHANGED nposts
\* the abstract effect of a wait that is not cut short by the caller's array
GWait == /\ More /\ Wait(posted, wakes, FALSE) /\ Log([op |-> "wait", n |-> 64]) /\ nposts' = 0
\* a wait with a one- or two-slot array: what is delivered is the implementation's choice (checked when the trace is validated)
GWaitN == /\ More /\ BagCardinality(posted) + wakes > 2
          /\ \E n \in Pick({1, 2}) : Log([op |-> "wait", n |-> n])
          /\ posted' = EmptyBag /\ wakes' = 0 /\ nposts' = 0     \* generator bookkeeping only: follow with drains
          /\ UNCHANGED <<q, cap, policy, dropped, blocked, wstate>>
GQC == /\ More /\ cap = 0 /\ \E c \in Pick(Caps), pol \in Pick({"refuse", "drop", "block"}) : QCreate(c, pol) /\ Log([op |-> "qcreate", cap |-> c, policy |-> pol])
       /\ UNCHANGED nposts
GEnqOne(m) == /\ IF policy = "block" /\ Len(q) >= cap THEN EnqBlocked(m) ELSE Enq(m, Len(q) < cap \/ policy = "drop")
              /\ Log([op |-> "enq", m |-> m])
GEnq == /\ More /\ cap > 0 /\ blocked = <<>>
        /\ \E m \in Pick(Msgs) : GEnqOne(m)
        /\ UNCHANGED nposts
\* the waiting writer proceeds as soon as there is room (the harness waits for it after every dequeue)
GResume == /\ blocked # <<>> /\ Len(q) < cap /\ EnqResumed(Head(blocked), TRUE) /\ UNCHANGED <<hist, nposts>>
GDeq == /\ More /\ cap > 0 /\ ~(blocked # <<>> /\ Len(q) < cap) /\ Deq(IF q = <<>> THEN "" ELSE Head(q), q # <<>>) /\ Log([op |-> "deq"]) /\ UNCHANGED nposts
GQS == /\ More /\ cap > 0 /\ Len(hist) > 0 /\ hist[Len(hist)].op # "qstats" /\ Log([op |-> "qstats"]) /\ UNCHANGED <<vars, nposts>>
\* how the worker waits for its stop (polling should_stop, sleeping on its stop event with / without a time limit) is
\* the worker's business: the life-cycle rules are the same
GWC == More /\ WCreate /\ (\E k \in Pick({"poll", "sleep", "block"}) : Log([op |-> "wcreate", kind |-> k])) /\ UNCHANGED nposts
GWS == More /\ wstate = "running" /\ WStop /\ Log([op |-> "wstop"]) /\ UNCHANGED nposts
GWJ == /\ More /\ wstate \in {"running", "stopping"}
       /\ \E long \in Pick(IF wstate = "running" THEN {FALSE} ELSE {TRUE}) :
            /\ WJoin(TRUE, wstate = "stopping" /\ long, long)
            /\ Log([op |-> "wjoin", long |-> long])
       /\ UNCHANGED nposts
GWD == /\ More /\ wstate = "joined" /\ WDestroy /\ Log([op |-> "wdestroy"]) /\ UNCHANGED nposts
Stutter == ~More /\ UNCHANGED gvars
GNext == GResume \/ GPost \/ GWake \/ GWait \/ GWaitN \/ GQC \/ GEnq \/ GDeq \/ GQS \/ GWC \/ GWS \/ GWJ \/ GWD \/ Stutter
GSpec == GInit /\ [][GNext]_gvars

\* design invariants (P1 on the abstract level)
QueueBounded == Len(q) <= cap
DroppedOnlyWhenPolicy == dropped > 0 => policy = "drop"
Emit == (Len(hist) = MaxLen) => PrintT(<<"@@B", ToJson(hist)>>)
=============================================================================
