SPECIFICATION Spec
CONSTANTS Keys = {126, 7}
  Datas = {7, 9}
  MaxPosts = 4
  Counter = FALSE
INVARIANT Delivered
CHECK_DEADLOCK FALSE
