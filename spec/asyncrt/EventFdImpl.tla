------------------------------ MODULE EventFdImpl ------------------------------
(* Implementation-shaped model of the completion channel of lib/async/async_runtime_epoll.c.
   Counter = TRUE: an eventfd - write ADDS the 64-bit word (key * 2^32 + data) to a counter, read
   returns the sum and resets it; wakeup writes the word 1.  Counter = FALSE: a pipe of records.
   Invariant checked at every wait: the events decoded equal the completions posted since the
   previous wait, each once with its own key and data.                                     *)
EXTENDS Integers, Sequences, FiniteSets, Bags, TLC
CONSTANTS Keys, Datas, MaxPosts, Counter
VARIABLES chan, posted, nposts, bad
vars == <<chan, posted, nposts, bad>>
W == 1000     \* scaled: the real word is key * 2^32 + data; TLC integers are 32-bit
Init == chan = (IF Counter THEN 0 ELSE <<>>) /\ posted = EmptyBag /\ nposts = 0 /\ bad = FALSE
Post(k, d) == /\ nposts < MaxPosts /\ nposts' = nposts + 1
              /\ chan' = IF Counter THEN chan + k * W + d ELSE Append(chan, <<k, d>>)
              /\ posted' = posted (+) SetToBag({<<k, d>>}) /\ bad' = bad
Wakeup == /\ nposts < MaxPosts /\ nposts' = nposts + 1
          /\ chan' = IF Counter THEN chan + 1 ELSE Append(chan, <<0, 1>>)
          /\ UNCHANGED <<posted, bad>>
RECURSIVE ToBag(_)
ToBag(s) == IF s = <<>> THEN EmptyBag ELSE (IF s[1][1] = 0 THEN EmptyBag ELSE SetToBag({s[1]})) (+) ToBag(Tail(s))
Wait == /\ chan # (IF Counter THEN 0 ELSE <<>>)
        /\ LET got == IF Counter THEN (IF chan \div W = 0 THEN EmptyBag ELSE SetToBag({<<chan \div W, chan % W>>}))
                      ELSE ToBag(chan) IN
           bad' = (bad \/ got # posted)
        /\ chan' = (IF Counter THEN 0 ELSE <<>>) /\ posted' = EmptyBag /\ nposts' = nposts
Next == (\E k \in Keys, d \in Datas : Post(k, d)) \/ Wakeup \/ Wait
Spec == Init /\ [][Next]_vars
Delivered == ~bad
=============================================================================
