------------------------------- MODULE AsyncRT -------------------------------
(* Abstract specification of the cross-thread notification layer (property C19).

   Notifications: every completion posted (key, data) is delivered by a later wait exactly once,
   with the key and data it was posted with, however many pile up between two waits; a wake-up
   makes the next wait return (several wake-ups may be reported together).
   Queue: accepted messages are handed over exactly once, in FIFO order; when the queue is full
   the overflow policy decides: DROP_OLDEST discards the oldest accepted message and accepts the
   new one, BLOCK_WRITER makes the writer wait until a dequeue made room, otherwise the new one is refused.
   Worker: join after signal_stop terminates and returns TRUE; join with a timeout on a worker
   that was not stopped returns FALSE after the timeout instead of hanging.               *)
EXTENDS Integers, Sequences, FiniteSets, Bags

VARIABLES posted,    \* bag of <<key, data>> posted and not yet delivered
          wakes,     \* number of wake-ups not yet reported
          q, cap, policy, dropped,   \* policy: "refuse" | "drop" (drop oldest) | "block" (writer waits for room)
          blocked,   \* messages of writers waiting for room (policy "block")
          wstate     \* "none" | "running" | "stopping" | "joined"
vars == <<posted, wakes, q, cap, policy, dropped, blocked, wstate>>

Init == posted = EmptyBag /\ wakes = 0 /\ q = <<>> /\ cap = 0 /\ policy = "refuse" /\ dropped = 0 /\ blocked = <<>> /\ wstate = "none"

Post(key, data, ok) == /\ ok /\ posted' = posted (+) SetToBag({<<key, data>>})
                       /\ UNCHANGED <<wakes, q, cap, policy, dropped, blocked, wstate>>
Wake == wakes' = wakes + 1 /\ UNCHANGED <<posted, q, cap, policy, dropped, blocked, wstate>>

\* a wait returned: evs = bag of completion events <<key, data>>, nwake = number of wake-up events,
\* full = the caller's event array was filled completely (the rest stays pending for the next wait)
Wait(evs, nwake, full) ==
  /\ IF full
     THEN /\ evs \sqsubseteq posted /\ nwake <= wakes         \* only what was posted, nothing twice
          /\ posted' = posted (-) evs /\ wakes' = wakes - nwake
     ELSE /\ evs = posted                             \* everything posted, each exactly once, unmerged
          /\ (wakes > 0) = (nwake > 0) /\ nwake <= wakes
          /\ posted' = EmptyBag /\ wakes' = 0
  /\ UNCHANGED <<q, cap, policy, dropped, blocked, wstate>>

QCreate(c, pol) == /\ cap' = c /\ policy' = pol /\ q' = <<>> /\ dropped' = 0 /\ blocked' = <<>> /\ UNCHANGED <<posted, wakes, wstate>>
\* enqueue returned ok (policy "block": it returned without having to wait)
Enq(m, ok) ==
  /\ IF Len(q) < cap THEN ok /\ q' = Append(q, m) /\ dropped' = dropped
     ELSE IF policy = "drop" THEN ok /\ q' = Append(Tail(q), m) /\ dropped' = dropped + 1
     ELSE policy = "refuse" /\ ~ok /\ q' = q /\ dropped' = dropped
  /\ UNCHANGED <<posted, wakes, cap, policy, blocked, wstate>>
\* policy "block": the queue is full, the writer waits (nothing is lost, nothing is overwritten)
EnqBlocked(m) ==
  /\ policy = "block" /\ Len(q) >= cap /\ blocked' = Append(blocked, m)
  /\ UNCHANGED <<posted, wakes, q, cap, policy, dropped, wstate>>
\* a waiting writer found room: its message goes to the tail
EnqResumed(m, ok) ==
  /\ ok /\ blocked # <<>> /\ m = Head(blocked) /\ Len(q) < cap
  /\ q' = Append(q, m) /\ blocked' = Tail(blocked)
  /\ UNCHANGED <<posted, wakes, cap, policy, dropped, wstate>>
Deq(m, ok) ==
  /\ IF q = <<>> THEN ~ok /\ q' = q ELSE ok /\ m = Head(q) /\ q' = Tail(q)
  /\ UNCHANGED <<posted, wakes, cap, policy, dropped, blocked, wstate>>
QStats(size, ndropped) == size = Len(q) /\ ndropped = dropped /\ UNCHANGED vars

WCreate == wstate = "none" /\ wstate' = "running" /\ UNCHANGED <<posted, wakes, q, cap, policy, dropped, blocked>>
WStop == wstate \in {"running", "stopping"} /\ wstate' = "stopping" /\ UNCHANGED <<posted, wakes, q, cap, policy, dropped, blocked>>
\* join(timeout): returned = it came back at all within the allowed time; ok = its result;
\* long = the timeout leaves the worker ample time to notice the stop request (or is infinite)
WJoin(returned, ok, long) ==
  /\ returned
  /\ wstate \in {"running", "stopping"}
  /\ IF wstate = "stopping"
     THEN /\ (long => ok) /\ wstate' = IF ok THEN "joined" ELSE wstate
     ELSE ~ok /\ wstate' = wstate                                \* still running: the timeout expires
  /\ UNCHANGED <<posted, wakes, q, cap, policy, dropped, blocked>>
WDestroy == wstate' = "none" /\ UNCHANGED <<posted, wakes, q, cap, policy, dropped, blocked>>
=============================================================================
