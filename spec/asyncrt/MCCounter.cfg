SPECIFICATION Spec
CONSTANTS Keys = {126, 7}
  Datas = {7, 9}
  MaxPosts = 4
  Counter = TRUE
INVARIANT Delivered
CHECK_DEADLOCK FALSE
