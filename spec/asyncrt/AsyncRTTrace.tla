----------------------------- MODULE AsyncRTTrace -----------------------------
EXTENDS AsyncRT, Json, IOUtils, TLC
T == ndJsonDeserialize(IOEnv.TRACE)
VARIABLE l
tvars == <<vars, l>>
Ev(name) == l <= Len(T) /\ T[l].e = name /\ l' = l + 1
R == T[l]
RECURSIVE SeqToBag(_)
SeqToBag(s) == IF s = <<>> THEN EmptyBag ELSE SetToBag({<<s[1][1], s[1][2]>>}) (+) SeqToBag(Tail(s))
TReset == Ev("Reset") /\ posted' = EmptyBag /\ wakes' = 0 /\ q' = <<>> /\ cap' = 0 /\ policy' = "refuse" /\ dropped' = 0 /\ blocked' = <<>> /\ wstate' = "none"
TPost == Ev("Post") /\ Post(R.key, R.data, R.ret = 0)
TWake == Ev("Wake") /\ Wake
TWait == Ev("Wait") /\ Wait(SeqToBag(R.events), R.nwake, R.full)
TQC == Ev("QCreate") /\ QCreate(R.cap, R.policy)
TEnq == Ev("Enq") /\ Enq(R.m, R.ok)
TEnqB == Ev("EnqBlocked") /\ EnqBlocked(R.m)
TEnqR == Ev("EnqResumed") /\ EnqResumed(R.m, R.ok)
TDeq == Ev("Deq") /\ Deq(R.m, R.ok)
TQS == Ev("QStats") /\ QStats(R.size, R.dropped)
TWC == Ev("WCreate") /\ WCreate
TWS == Ev("WStop") /\ WStop
TWJ == Ev("WJoin") /\ WJoin(R.returned, R.ok, R.long)
TWD == Ev("WDestroy") /\ WDestroy
TraceNext == TEnqB \/ TEnqR \/ TReset \/ TPost \/ TWake \/ TWait \/ TQC \/ TEnq \/ TDeq \/ TQS \/ TWC \/ TWS \/ TWJ \/ TWD
TraceInit == Init /\ l = 1
TraceSpec == TraceInit /\ [][TraceNext]_tvars
ASSUME TLCSet(1, 0)
Track == TLCSet(1, IF TLCGet(1) < l THEN l ELSE TLCGet(1))
Accepted == IF TLCGet(1) = Len(T) + 1 THEN TRUE
            ELSE PrintT(<<"@@MATCHED", TLCGet(1)>>) /\ FALSE
=============================================================================
