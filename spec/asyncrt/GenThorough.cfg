SPECIFICATION GSpec
CONSTANTS Keys = {7, 126} Datas = {7, 126} Msgs = {"a", "b"} MaxLen = 6 MaxPosts = 3 Sim = FALSE Caps = {1, 2}
INVARIANT QueueBounded DroppedOnlyWhenPolicy Emit
CHECK_DEADLOCK FALSE
