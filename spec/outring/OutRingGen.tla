----------------------------- MODULE OutRingGen -----------------------------
(* Behaviour enumeration for C14 (P2): one user; each step is a command that writes one or two
   messages (lengths around the 4096-byte buffer, LF patterns), preceded by the results of the
   next send() calls, followed by flush points (poll with/without unblocking, hang-up).    *)
EXTENDS Integers, Sequences, FiniteSets, TLC, Json
CONSTANTS Steps, Lens, Pats, Plans, Afters, Sim
VARIABLES hist
vars == <<hist>>
Pick(S) == IF Sim THEN (IF S = {} THEN {} ELSE {RandomElement(S)}) ELSE S
Init == hist = <<>>
Step == [len1 : Lens, pat1 : Pats, len2 : Lens \cup {0}, plan : Plans, after : Afters]
Next == \/ /\ Len(hist) < Steps
           /\ \E s \in Pick(Step) : hist' = Append(hist, s)
        \/ Len(hist) >= Steps /\ UNCHANGED vars
Spec == Init /\ [][Next]_vars
Emit == Len(hist) = Steps => PrintT(<<"@@B", ToJson(hist)>>)
=============================================================================
