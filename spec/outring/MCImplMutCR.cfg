SPECIFICATION Spec
CONSTANTS Size = 5
  MaxMsg = 7
  MaxWritten = 10
  LFs = {2, 5, 6, 10}
  ChunkFix = TRUE
  CRRoom = FALSE
INVARIANT WirePrefix
INVARIANT RingOk
INVARIANT CRLF
