----------------------------- MODULE OutRingImpl -----------------------------
(* Implementation-shaped model of add_message()/flush_message() in src/comm.c: the ring
   message_buf[Size] with message_producer / message_consumer / message_length, LF -> CR LF
   expansion with the "room for both" test, the two-branch contiguous chunk of flush_message(),
   modulo arithmetic, and send() results {all, partial k, EWOULDBLOCK/EINTR, EPIPE}.
   Bytes are natural numbers: data byte i of the written stream is i, the CR inserted before LF
   number i is -i.  Ghost `offered` = expanded stream accepted so far; `wire` = what the socket
   took.  Invariant: wire is a prefix of offered; the ring content equals offered minus wire. *)
EXTENDS Integers, Sequences, FiniteSets, TLC

CONSTANTS Size, MaxMsg, MaxWritten, LFs,   \* LFs: set of stream positions that are line feeds
          ChunkFix,    \* TRUE as written; FALSE: length computed as producer - consumer even after wrap (mutation)
          CRRoom       \* TRUE as written; FALSE: no room test before CR (mutation)

VARIABLES buf, prod, cons, len, offered, wire, next, dead, pc, todo, flushed, bad
vars == <<buf, prod, cons, len, offered, wire, next, dead, pc, todo, flushed, bad>>

IsLF(i) == i \in LFs

Init == /\ buf = [i \in 0 .. Size - 1 |-> 0] /\ prod = 0 /\ cons = 0 /\ len = 0
        /\ offered = <<>> /\ wire = <<>> /\ next = 1 /\ dead = FALSE
        /\ pc = "idle" /\ todo = 0 /\ flushed = FALSE /\ bad = "none"

Put(b) == /\ buf' = [buf EXCEPT ![prod] = b]
          /\ prod' = (prod + 1) % Size
          /\ len' = len + 1
          /\ offered' = Append(offered, b)

\* add_message(): a message of k bytes starting at stream position `next`
StartWrite(k) ==
  /\ pc = "idle" /\ ~dead /\ next + k - 1 <= MaxWritten /\ k \in 1 .. MaxMsg
  /\ pc' = "add" /\ todo' = k /\ flushed' = FALSE
  /\ UNCHANGED <<buf, prod, cons, len, offered, wire, next, dead, bad>>

\* one iteration of the copy loop (the CR of an LF and the LF itself are two steps)
AddByte ==
  /\ pc = "add" /\ todo > 0
  /\ IF len = Size /\ ~flushed
     THEN /\ pc' = "flush_add" /\ UNCHANGED <<buf, prod, len, offered, next, todo, flushed>>
     ELSE IF len = Size
     THEN /\ pc' = "idle" /\ next' = next + todo /\ todo' = 0 /\ UNCHANGED <<buf, prod, len, offered, flushed>>   \* tail dropped
     ELSE IF IsLF(next) /\ CRRoom /\ len = Size - 1 /\ ~flushed
     THEN /\ pc' = "flush_add" /\ UNCHANGED <<buf, prod, len, offered, next, todo, flushed>>
     ELSE IF IsLF(next) /\ CRRoom /\ len = Size - 1
     THEN /\ pc' = "idle" /\ next' = next + todo /\ todo' = 0 /\ UNCHANGED <<buf, prod, len, offered, flushed>>
     ELSE IF IsLF(next)
     THEN /\ buf' = [buf EXCEPT ![prod] = -next, ![(prod + 1) % Size] = next]     \* CR and LF in one iteration
          /\ prod' = (prod + 2) % Size /\ len' = len + 2
          /\ offered' = offered \o <<-next, next>>
          /\ next' = next + 1 /\ todo' = todo - 1 /\ flushed' = FALSE
          /\ pc' = IF todo = 1 THEN "idle" ELSE "add"
     ELSE /\ Put(next) /\ next' = next + 1 /\ todo' = todo - 1 /\ flushed' = FALSE
          /\ pc' = IF todo = 1 THEN "idle" ELSE "add"
  /\ UNCHANGED <<cons, wire, dead, bad>>

\* flush_message(): contiguous chunk, one send() call per loop iteration
ChunkLen == IF cons < prod THEN prod - cons
            ELSE IF ChunkFix THEN Size - cons ELSE (IF prod - cons > 0 THEN prod - cons ELSE Size - cons - 1)

Flushing == pc \in {"flush_add", "flush_idle"}
After == IF pc = "flush_add" THEN "add" ELSE "idle"

SendSome(n) ==
  /\ Flushing /\ len > 0 /\ n \in 1 .. ChunkLen
  /\ wire' = wire \o [i \in 1 .. n |-> buf[(cons + i - 1) % Size]]
  /\ cons' = (cons + n) % Size
  /\ len' = len - n
  /\ pc' = IF len - n = 0 THEN After ELSE pc
  /\ flushed' = IF len - n = 0 THEN TRUE ELSE flushed
  /\ UNCHANGED <<buf, prod, offered, next, dead, todo, bad>>

SendBlocks ==      \* EWOULDBLOCK / EINTR: flush_message returns 1
  /\ Flushing /\ len > 0
  /\ pc' = After /\ flushed' = TRUE
  /\ UNCHANGED <<buf, prod, cons, len, offered, wire, next, dead, todo, bad>>

SendBreaks ==      \* EPIPE: NET_DEAD
  /\ Flushing /\ len > 0
  /\ dead' = TRUE /\ pc' = "idle" /\ todo' = 0
  /\ UNCHANGED <<buf, prod, cons, len, offered, wire, next, flushed, bad>>

FlushEmpty == /\ Flushing /\ len = 0 /\ pc' = After /\ flushed' = TRUE
              /\ UNCHANGED <<buf, prod, cons, len, offered, wire, next, dead, todo, bad>>

StartFlush == /\ pc = "idle" /\ ~dead /\ pc' = "flush_idle"
              /\ UNCHANGED <<buf, prod, cons, len, offered, wire, next, dead, todo, flushed, bad>>

Next == \/ \E k \in 1 .. MaxMsg : StartWrite(k)
        \/ AddByte \/ StartFlush \/ SendBlocks \/ SendBreaks \/ FlushEmpty
        \/ \E n \in 1 .. Size : SendSome(n)
Spec == Init /\ [][Next]_vars

IsPrefix(s, t) == Len(s) <= Len(t) /\ \A i \in 1 .. Len(s) : s[i] = t[i]
\* order / exactly once
WirePrefix == IsPrefix(wire, offered)
\* ring content = offered minus wire
RingOk == /\ len = Len(offered) - Len(wire) /\ len >= 0 /\ len <= Size
          /\ \A i \in 1 .. len : buf[(cons + i - 1) % Size] = offered[Len(wire) + i]
\* a CR is never left without its LF at the end of a write
CRLF == pc = "idle" => (offered = <<>> \/ offered[Len(offered)] >= 0)
=============================================================================
