SPECIFICATION Spec
CONSTANTS Size = 6
  MaxMsg = 9
  MaxWritten = 14
  LFs = {2, 5, 6, 10, 13}
  ChunkFix = TRUE
  CRRoom = TRUE
INVARIANT WirePrefix
INVARIANT RingOk
INVARIANT CRLF
