SPECIFICATION Spec
CONSTANTS Steps = 2
  Lens = {1, 2, 4095, 4096, 4097, 8193}
  Pats = {"n", "l", "k1"}
  Plans = {"all", "1,all", "EWOULDBLOCK", "2000,EWOULDBLOCK", "EINTR,all", "EPIPE"}
  Afters = {"cycle", "unblock"}
  Sim = FALSE
INVARIANT Emit
CHECK_DEADLOCK FALSE
