SPECIFICATION TraceSpec
CONSTANT Cap = 4096
CONSTRAINT Track
POSTCONDITION Accepted
INVARIANT Bounded
CHECK_DEADLOCK FALSE
