------------------------------- MODULE OutRing -------------------------------
(* Abstract specification of per-user output (property C14).

   Bytes are identified by their index in the stream the mudlib wrote after LF -> CR LF
   expansion.  `accepted` counts the bytes taken into the user's output buffer, `sent` the bytes
   the socket took.  The projection (tools) has already compared byte contents: a Send event
   carries ok = TRUE iff the bytes handed to the socket are exactly bytes sent+1 .. sent+n of
   the accepted stream (in order, once), and a WriteEnd event says how long a prefix of the
   expanded message was accepted.  The specification decides the protocol:
     - the socket stream is a prefix of the accepted stream, never ahead of it;
     - the buffer never holds more than Cap bytes;
     - a message loses bytes only if the buffer was full after the flush attempts, or the
       connection is dead, and then only its tail; CR is never accepted without its LF;
     - a poll with unsent bytes on a live connection has write interest registered.      *)
EXTENDS Integers, Sequences, FiniteSets

CONSTANT Cap

VARIABLES accepted, sent, dead, interest, inWrite,
          blockedInWrite     \* a flush attempt inside the current write made no room (the socket would block)
vars == <<accepted, sent, dead, interest, inWrite, blockedInWrite>>

Init == accepted = 0 /\ sent = 0 /\ dead = FALSE /\ interest = FALSE /\ inWrite = FALSE /\ blockedInWrite = FALSE

WriteBegin == /\ ~inWrite /\ inWrite' = TRUE /\ blockedInWrite' = FALSE /\ UNCHANGED <<accepted, sent, dead, interest>>

\* a message of `len` expanded bytes; `acc` of them were accepted; crsplit = a CR without its LF
WriteEnd(len, acc, crsplit) ==
  /\ inWrite /\ inWrite' = FALSE
  /\ acc >= 0 /\ acc <= len
  /\ ~crsplit
  /\ accepted' = accepted + acc
  \* the tail is dropped only if the buffer is full, or was full when a flush attempt inside this write was refused
  \* by the socket (the end of a driver-generated write is not logged: sends of the following flush may already
  \* have been recorded before its WriteEnd), or the connection is dead
  /\ acc < len => (dead \/ accepted' - sent >= Cap - 1 \/ blockedInWrite)
  /\ accepted' - sent <= Cap
  /\ blockedInWrite' = FALSE
  /\ UNCHANGED <<sent, dead, interest>>

\* the socket took n bytes; avail = bytes known to be accepted at that moment (lower bound is
\* not known inside a write, so only the final accounting constrains it)
Send(n, ok) ==
  /\ n > 0 /\ ok /\ ~dead
  /\ sent' = sent + n
  /\ (~inWrite) => sent' <= accepted
  /\ UNCHANGED <<accepted, dead, interest, inWrite, blockedInWrite>>

\* EWOULDBLOCK / EINTR: nothing moves
SendBlocked == blockedInWrite' = inWrite /\ UNCHANGED <<accepted, sent, dead, interest, inWrite>>
SendBroken == dead' = TRUE /\ UNCHANGED <<accepted, sent, interest, inWrite, blockedInWrite>>
SetInterest(w) == interest' = w /\ UNCHANGED <<accepted, sent, dead, inWrite, blockedInWrite>>
Close == dead' = TRUE /\ UNCHANGED <<accepted, sent, interest, inWrite, blockedInWrite>>

Poll == /\ ~inWrite
        /\ sent <= accepted
        /\ (accepted - sent > 0 /\ ~dead) => interest
        /\ UNCHANGED vars

Bounded == sent >= 0 /\ (~inWrite => (sent <= accepted /\ accepted - sent <= Cap))
=============================================================================
