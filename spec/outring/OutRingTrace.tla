----------------------------- MODULE OutRingTrace -----------------------------
EXTENDS OutRing, Json, IOUtils, TLC
T == ndJsonDeserialize(IOEnv.TRACE)
VARIABLE l
tvars == <<vars, l>>
Ev(name) == l <= Len(T) /\ T[l].e = name /\ l' = l + 1
R == T[l]
TReset == /\ Ev("Reset")
          /\ accepted' = 0 /\ sent' = 0 /\ dead' = FALSE /\ interest' = FALSE /\ inWrite' = FALSE /\ blockedInWrite' = FALSE
TWB  == Ev("WriteBegin") /\ WriteBegin
TWE  == Ev("WriteEnd") /\ WriteEnd(R.len, R.acc, R.crsplit)
TSend == Ev("Send") /\ Send(R.n, R.ok)
TBlk == Ev("SendBlocked") /\ SendBlocked
TBrk == Ev("SendBroken") /\ SendBroken
TInt == Ev("Interest") /\ SetInterest(R.w = 1)
TCls == Ev("Close") /\ Close
TPoll == Ev("Poll") /\ Poll
TraceNext == TReset \/ TWB \/ TWE \/ TSend \/ TBlk \/ TBrk \/ TInt \/ TCls \/ TPoll
TraceInit == Init /\ l = 1
TraceSpec == TraceInit /\ [][TraceNext]_tvars
ASSUME TLCSet(1, 0)
Track == TLCSet(1, IF TLCGet(1) < l THEN l ELSE TLCGet(1))
Accepted == IF TLCGet(1) = Len(T) + 1 THEN TRUE
            ELSE PrintT(<<"@@MATCHED", TLCGet(1)>>) /\ FALSE
=============================================================================
