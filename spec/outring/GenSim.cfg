SPECIFICATION Spec
CONSTANTS Steps = 4
  Lens = {1, 2, 100, 2047, 2048, 4094, 4095, 4096, 4097, 6000, 8191, 8192, 8193}
  Pats = {"n", "l", "k2", "k7", "k64", "k4096", "k1"}
  Plans = {"all", "1,all", "EWOULDBLOCK", "2000,EWOULDBLOCK", "EINTR,all", "EPIPE", "4095,1,all", "1,1,1,EWOULDBLOCK", "EWOULDBLOCK,EWOULDBLOCK,all", "4096,EINTR,EWOULDBLOCK", "3000,2000,EWOULDBLOCK", "ECONNRESET"}
  Afters = {"cycle", "unblock", "writable", "cycle2", "hangup", "tick"}
  Sim = TRUE
INVARIANT Emit
CHECK_DEADLOCK FALSE
