SPECIFICATION Spec
CONSTANTS Size = 7
  MaxMsg = 9
  MaxWritten = 18
  LFs = {1, 4, 5, 9, 12, 17}
  ChunkFix = TRUE
  CRRoom = TRUE
INVARIANT WirePrefix
INVARIANT RingOk
INVARIANT CRLF
