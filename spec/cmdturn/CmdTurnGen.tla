----------------------------- MODULE CmdTurnGen -----------------------------
(* Behaviour enumeration for C12 (P2): users connect (some drop, leaving gaps in the slot
   table), then cycles in which each user may receive 0..MaxArr complete commands in one read;
   optional error commands, ticks, single-character users and mid-cycle connects.          *)
EXTENDS Integers, Sequences, FiniteSets, TLC, Json

CONSTANTS N, MaxArr, Cycles, Drops, CharUsers, Extras, Sim

VARIABLES hist, c
vars == <<hist, c>>
Users == 1 .. N

Pick(S) == IF Sim THEN (IF S = {} THEN {} ELSE {RandomElement(S)}) ELSE S

Init == hist = <<>> /\ c = 0

Arr == [Users -> 0 .. MaxArr]
Next ==
  \/ /\ c = 0
     /\ \E d \in Pick(Drops), ch \in Pick(CharUsers) :
          hist' = <<[a |-> "setup", n |-> N, drop |-> d, chr |-> ch]>> /\ c' = 1
  \/ /\ c >= 1 /\ c <= Cycles
     /\ \E arr \in Pick(Arr), x \in Pick(Extras) :
          /\ hist' = Append(hist, [a |-> "cycle", arr |-> [u \in Users |-> arr[u]], x |-> x])
          /\ c' = c + 1
  \/ c > Cycles /\ UNCHANGED vars      \* keeps -simulate traces alive to their depth
Spec == Init /\ [][Next]_vars
Emit == (c = Cycles + 1) => PrintT(<<"@@B", ToJson(hist)>>)
=============================================================================
