----------------------------- MODULE CmdTurnImpl -----------------------------
(* Implementation-shaped model of the command turn machinery of src/backend.c and src/comm.c:
   all_users[] with gaps, HAS_CMD_TURN / pending commands per slot, the static descending cursor
   s_next_user of get_user_command() (wrap-around, no decrement when a command is found, one
   extra decrement after it), and the backend's
       for (i = 0; process_user_command () && i < connected_users; i++);
   Invariant: when the loop ends, no slot holds both a turn and a complete command, and no slot
   was served twice in the cycle.  A served command may fail (uncaught error): the longjmp to
   the backend's error context abandons the loop and a new cycle begins, with every turn granted
   again.  Across such restarts nobody is overtaken: between two services of one slot every
   other slot that had a complete command waiting at the first of them is served (owed).   *)
EXTENDS Integers, Sequences, FiniteSets, TLC

CONSTANTS M,         \* max_users (slots 0..M-1)
          MaxQ,      \* bound on queued commands per user
          MaxCycles,
          TurnCheck, \* TRUE: get_user_command() tests HAS_CMD_TURN
          AdvanceAfterHit, \* TRUE: the cursor moves past the slot just served (as written); FALSE: it stays on it (mutation)
          Bound      \* "users" : loop bounded by connected_users (as written); "one": a single call per cycle (mutation)

VARIABLES used,    \* slot -> connected?
          q,       \* slot -> number of complete commands buffered
          turnf,   \* slot -> HAS_CMD_TURN
          cursor,  \* s_next_user
          phase,   \* "poll" | "serve"
          i, cu,   \* loop counter, connected_users
          servedN, \* slot -> times served in this cycle
          owed,    \* slot -> slots that had a command waiting when this slot was last served and have not been served since
          cycles, bad
vars == <<used, q, turnf, cursor, phase, i, cu, servedN, owed, cycles, bad>>

Slots == 0 .. M - 1

Init == /\ used \in [Slots -> BOOLEAN] /\ q = [s \in Slots |-> 0] /\ turnf = [s \in Slots |-> FALSE]
        /\ cursor \in Slots /\ phase = "poll" /\ i = 0 /\ cu = 0
        /\ servedN = [s \in Slots |-> 0] /\ cycles = 0 /\ bad = "none"
        /\ owed = [s \in Slots |-> {}]

\* top of the backend loop: grant turns, count users; then process_io(): arrivals, (dis)connects
Grant ==
  /\ phase = "poll" /\ cycles < MaxCycles
  /\ \E arr \in [Slots -> 0 .. MaxQ], flip \in SUBSET Slots :
       LET used2 == [s \in Slots |-> IF s \in flip THEN ~used[s] ELSE used[s]] IN
       /\ Cardinality(flip) <= 1
       /\ used' = used2
       /\ turnf' = [s \in Slots |-> used[s] /\ s \notin flip]         \* new connections come without a turn
       /\ q' = [s \in Slots |-> IF ~used2[s] \/ s \in flip THEN 0
                                 ELSE IF q[s] + arr[s] > MaxQ THEN MaxQ ELSE q[s] + arr[s]]
       /\ cu' = Cardinality({s \in Slots : used[s]})
       /\ owed' = [s \in Slots |-> IF s \in flip THEN {} ELSE owed[s] \ flip]
  /\ phase' = "serve" /\ i' = 0 /\ servedN' = [s \in Slots |-> 0]
  /\ cycles' = cycles + 1
  /\ UNCHANGED <<cursor, bad>>

\* one scan of get_user_command(): returns the slot served (or -1) and the new cursor
RECURSIVE Scan(_, _)
Scan(c, n) ==   \* c = cursor, n = iterations left
  IF n = 0 THEN <<-1, c>>
  ELSE IF used[c] /\ q[c] > 0 /\ (turnf[c] \/ ~TurnCheck)
       THEN <<c, c>>
       ELSE Scan(IF c = 0 THEN M - 1 ELSE c - 1, n - 1)

ServeCall ==
  /\ phase = "serve"
  /\ LET r == Scan(cursor, M)
         s == r[1]
         c2 == IF ~AdvanceAfterHit THEN r[2] ELSE IF r[2] = 0 THEN M - 1 ELSE r[2] - 1     \* the extra decrement after a hit
     IN IF s = -1
        THEN /\ phase' = "poll" /\ cursor' = r[2]
             /\ bad' = IF \E t \in Slots : used[t] /\ turnf[t] /\ q[t] > 0 THEN "skipped" ELSE bad
             /\ UNCHANGED <<q, turnf, servedN, i, owed>>
        ELSE /\ q' = [q EXCEPT ![s] = @ - 1]
             /\ turnf' = [turnf EXCEPT ![s] = FALSE]
             /\ servedN' = [servedN EXCEPT ![s] = @ + 1]
             /\ cursor' = c2
             /\ owed' = [t \in Slots |-> IF t = s THEN {w \in Slots \ {s} : used[w] /\ q[w] > 0} ELSE owed[t] \ {s}]
             /\ \E fails \in BOOLEAN :
                  LET more == IF fails THEN FALSE ELSE IF Bound = "users" THEN i < cu ELSE FALSE
                      b0 == IF servedN[s] >= 1 THEN "twice" ELSE IF owed[s] # {} THEN "overtaken" ELSE bad IN
                  IF more THEN /\ phase' = "serve" /\ i' = i + 1 /\ bad' = b0
                  ELSE /\ phase' = "poll" /\ i' = i
                       /\ bad' = IF b0 # "none" THEN b0
                                 \* an uncaught error abandons the loop: the unserved keep their turn for the next cycle
                                 ELSE IF ~fails /\ \E t \in Slots : t # s /\ used[t] /\ turnf[t] /\ q[t] > 0 THEN "skipped"
                                 ELSE bad
  /\ UNCHANGED <<used, cu, cycles>>

Next == Grant \/ ServeCall
Spec == Init /\ [][Next]_vars
NoViolation == bad = "none"
=============================================================================
