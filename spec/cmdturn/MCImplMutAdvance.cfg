SPECIFICATION Spec
CONSTANTS M = 4
  MaxQ = 2
  MaxCycles = 3
  TurnCheck = TRUE
  AdvanceAfterHit = FALSE
  Bound = "users"
INVARIANT NoViolation
