SPECIFICATION Spec
CONSTANTS N = 3
  MaxArr = 2
  Cycles = 2
  Drops = {0, 1, 2}
  CharUsers = {0, 3}
  Extras = {"none", "err1", "aerr1", "exec1", "tick", "conn"}
  Sim = FALSE
INVARIANT Emit
CHECK_DEADLOCK FALSE
