----------------------------- MODULE CmdTurnTrace -----------------------------
EXTENDS CmdTurn, Json, IOUtils, TLC
T == ndJsonDeserialize(IOEnv.TRACE)
VARIABLE l
tvars == <<vars, l>>
Ev(name) == l <= Len(T) /\ T[l].e = name /\ l' = l + 1
R == T[l]

TReset == /\ Ev("Reset")
          /\ conn' = {} /\ mode' = [u \in Users |-> "line"] /\ queue' = [u \in Users |-> <<>>]
          /\ turn' = {} /\ errCycle' = FALSE /\ owed' = [u \in Users |-> {}]
TConn   == Ev("Connect") /\ Connect(R.u)
TDisc   == Ev("Disconnect") /\ Disconnect(R.u)
TMode   == Ev("Mode") /\ SetMode(R.u, R.m)
TArrive == Ev("Arrive") /\ Arrive(R.u, R.items)
TServe  == Ev("Serve") /\ Serve(R.u, R.items)
TErr    == Ev("Error") /\ Error
TPoll   == Ev("Poll") /\ Poll(R.to)
TraceNext == TReset \/ TConn \/ TDisc \/ TMode \/ TArrive \/ TServe \/ TErr \/ TPoll
TraceInit == Init /\ l = 1
TraceSpec == TraceInit /\ [][TraceNext]_tvars
ASSUME TLCSet(1, 0)
Track == TLCSet(1, IF TLCGet(1) < l THEN l ELSE TLCGet(1))
Accepted == IF TLCGet(1) = Len(T) + 1 THEN TRUE
            ELSE PrintT(<<"@@MATCHED", TLCGet(1)>>) /\ FALSE
=============================================================================
