SPECIFICATION Spec
CONSTANTS M = 4
  MaxQ = 2
  MaxCycles = 3
  TurnCheck = FALSE
  AdvanceAfterHit = TRUE
  Bound = "users"
INVARIANT NoViolation
