SPECIFICATION Spec
CONSTANTS M = 4
  MaxQ = 2
  MaxCycles = 3
  TurnCheck = TRUE
  AdvanceAfterHit = TRUE
  Bound = "users"
INVARIANT NoViolation
