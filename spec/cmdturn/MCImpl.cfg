SPECIFICATION Spec
CONSTANTS M = 4
  MaxQ = 2
  MaxCycles = 3
  TurnCheck = TRUE
  Bound = "users"
INVARIANT NoViolation
