SPECIFICATION Spec
CONSTANTS M = 5
  MaxQ = 2
  MaxCycles = 3
  TurnCheck = TRUE
  AdvanceAfterHit = TRUE
  Bound = "users"
INVARIANT NoViolation
