SPECIFICATION Spec
CONSTANTS N = 5
  MaxArr = 3
  Cycles = 6
  Drops = {0, 1, 2, 3, 4}
  CharUsers = {0, 2, 5}
  Extras = {"none", "err1", "err2", "aerr1", "aerr2", "aerr3", "exec1", "exec2", "exec3", "tick", "conn", "drop5", "force"}
  Sim = TRUE
INVARIANT Emit
CHECK_DEADLOCK FALSE
