SPECIFICATION TraceSpec
CONSTANT Users = {"u1", "u2", "u3", "u4", "u5", "u6", "u7", "u8", "u9", "u10", "u11"}
CONSTRAINT Track
POSTCONDITION Accepted
INVARIANT TypeOK
CHECK_DEADLOCK FALSE
