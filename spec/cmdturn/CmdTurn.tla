------------------------------- MODULE CmdTurn -------------------------------
(* Abstract specification of buffered-command service (property C12).

   A backend cycle begins at a poll.  At the poll every connected user is granted one turn.
   Then this poll's input arrives, then commands are served.  When the next poll is reached
   every user that held a turn and had a complete command waiting has been served exactly
   once -- unless an uncaught error cut the cycle short (then the unserved keep their place).
   A poll must not block (timeout 0) while any connected user has a complete command waiting.
   Commands of one user are served in the order received.  Users in single-character mode are
   served any non-empty prefix of their buffered bytes per turn (the property is silent about
   how much).  command() efun calls are not modelled: they are not limited.
   Nobody starves, also across cycles cut short by errors: between two services of one user,
   every other user that had a command waiting at the first of them is served (owed).     *)
EXTENDS Integers, Sequences, FiniteSets

CONSTANT Users

VARIABLES conn,     \* connected users
          mode,     \* "line" | "char" per user
          queue,    \* line users: sequence of commands; char users: one string of bytes (as a sequence of 1-char strings)
          turn,     \* users holding a turn in this cycle
          errCycle, \* an uncaught error cut this cycle short
          owed      \* user -> users that were waiting when it was last served and have not been served since
vars == <<conn, mode, queue, turn, errCycle, owed>>

Init == /\ conn = {} /\ mode = [u \in Users |-> "line"] /\ queue = [u \in Users |-> <<>>]
        /\ turn = {} /\ errCycle = FALSE /\ owed = [u \in Users |-> {}]

Connect(u) == /\ u \notin conn
              /\ conn' = conn \cup {u}
              /\ queue' = [queue EXCEPT ![u] = <<>>]
              /\ mode' = [mode EXCEPT ![u] = "line"]
              /\ owed' = [w \in Users |-> IF w = u THEN {} ELSE owed[w] \ {u}]
              /\ UNCHANGED <<turn, errCycle>>

Disconnect(u) == /\ conn' = conn \ {u}
                 /\ turn' = turn \ {u}
                 /\ queue' = [queue EXCEPT ![u] = <<>>]
                 /\ owed' = [w \in Users |-> IF w = u THEN {} ELSE owed[w] \ {u}]
                 /\ UNCHANGED <<mode, errCycle>>

SetMode(u, m) == /\ mode' = [mode EXCEPT ![u] = m] /\ UNCHANGED <<conn, queue, turn, errCycle, owed>>

\* complete commands (or, in char mode, bytes) received from u in this poll
Arrive(u, items) == /\ u \in conn
                    /\ queue' = [queue EXCEPT ![u] = @ \o items]
                    /\ UNCHANGED <<conn, mode, turn, errCycle, owed>>

IsPrefix(s, t) == Len(s) <= Len(t) /\ SubSeq(t, 1, Len(s)) = s

\* the driver hands one buffered command of u to the mudlib
Serve(u, items) ==
  /\ u \in conn /\ u \in turn          \* one per user per cycle
  /\ items # <<>> /\ IsPrefix(items, queue[u])     \* in the order received
  /\ mode[u] = "line" => Len(items) = 1
  /\ queue' = [queue EXCEPT ![u] = SubSeq(@, Len(items) + 1, Len(@))]
  /\ turn' = turn \ {u}
  /\ owed[u] = {}                                   \* nobody who was waiting when u was last served is still unserved
  /\ owed' = [w \in Users |-> IF w = u THEN {v \in conn \ {u} : queue[v] # <<>>} ELSE owed[w] \ {u}]
  /\ UNCHANGED <<conn, mode, errCycle>>

Error == errCycle' = TRUE /\ UNCHANGED <<conn, mode, queue, turn, owed>>

Waiting == {u \in conn : queue[u] # <<>>}

\* the next poll: end of this cycle, beginning of the next
Poll(timeout) ==
  /\ errCycle \/ (\A u \in turn : queue[u] = <<>>)   \* nobody with a turn and a command was skipped
  /\ Waiting # {} => timeout = 0                      \* must not sleep on pending commands
  /\ turn' = conn
  /\ errCycle' = FALSE
  /\ UNCHANGED <<conn, mode, queue, owed>>

TypeOK == turn \subseteq conn
=============================================================================
