SPECIFICATION GSpec
CONSTANTS Regions = {"call", "other", "fp", "filter", "map", "sort", "catch", "clone", "move", "load", "mod"}
  Raises = {"none", "type", "bounds", "user", "throw", "div", "eval", "depth"}
  MaxDepth = 2
  Sim = FALSE
INVARIANT Emit
CHECK_DEADLOCK FALSE
