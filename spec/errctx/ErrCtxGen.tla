------------------------------ MODULE ErrCtxGen ------------------------------
(* P2 for C05: all nestings of up to MaxDepth regions above each raise kind.                *)
EXTENDS Integers, Sequences, FiniteSets, TLC, Json
CONSTANTS Regions, Raises, MaxDepth, Sim
VARIABLES shape, done
gvars == <<shape, done>>
Pick(S) == IF Sim THEN (IF S = {} THEN {} ELSE {RandomElement(S)}) ELSE S
GInit == shape = <<>> /\ done = FALSE
\* inside a move_or_destruct() hook the driver lets only the hooked object itself be destructed: regions that
\* create and destruct helper objects are not nested below "mod" (they would fail by that rule, not by the raise)
Helpers == {"clone", "move", "load", "mod"}
Nestable == IF \E j \in 1 .. Len(shape) : shape[j] = "mod" THEN Regions \ Helpers ELSE Regions
GNext == \/ /\ ~done /\ Len(shape) < MaxDepth
            /\ \E r \in Pick(Nestable) : shape' = Append(shape, r) /\ done' = FALSE
         \/ /\ ~done /\ \E k \in Pick(Raises) : shape' = Append(shape, k) /\ done' = TRUE
         \/ done /\ UNCHANGED gvars
GSpec == GInit /\ [][GNext]_gvars
Emit == done => PrintT(<<"@@B", ToJson(shape)>>)
=============================================================================
