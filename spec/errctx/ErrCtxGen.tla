------------------------------ MODULE ErrCtxGen ------------------------------
(* P2 for C05: all nestings of up to MaxDepth regions above each raise kind.                *)
EXTENDS Integers, Sequences, FiniteSets, TLC, Json
CONSTANTS Regions, Raises, MaxDepth, Sim
VARIABLES shape, done
gvars == <<shape, done>>
Pick(S) == IF Sim THEN (IF S = {} THEN {} ELSE {RandomElement(S)}) ELSE S
GInit == shape = <<>> /\ done = FALSE
GNext == \/ /\ ~done /\ Len(shape) < MaxDepth
            /\ \E r \in Pick(Regions) : shape' = Append(shape, r) /\ done' = FALSE
         \/ /\ ~done /\ \E k \in Pick(Raises) : shape' = Append(shape, k) /\ done' = TRUE
         \/ done /\ UNCHANGED gvars
GSpec == GInit /\ [][GNext]_gvars
Emit == done => PrintT(<<"@@B", ToJson(shape)>>)
=============================================================================
