----------------------------- MODULE ErrCtxTrace -----------------------------
EXTENDS ErrCtx, Json, IOUtils, TLC
T == ndJsonDeserialize(IOEnv.TRACE)
VARIABLE l
tvars == <<vars, l>>
Ev(name) == l <= Len(T) /\ T[l].e = name /\ l' = l + 1
R == T[l]
TReset == Ev("Reset") /\ stk' = <<>> /\ raised' = "none" /\ fault' = FALSE /\ base' = <<>> /\ running' = FALSE
TArm == Ev("Arm") /\ Arm
TBegin == Ev("Begin") /\ Begin
TEnter == Ev("Enter") /\ Enter(R.k, R.i, Ctx(R.depth, R.tp, R.to))
TLeave == Ev("Leave") /\ Leave(R.k, R.i, Ctx(R.depth, R.tp, R.to))
TRaise == Ev("RaiseAt") /\ RaiseAt(R.k)
TCatch == Ev("AfterCatch") /\ AfterCatch(R.i, R.caught = 1, R.val, Ctx(R.depth, R.tp, R.to))
TEnd == Ev("End") /\ End
TRep == Ev("Reported") /\ Reported(R.fault)
TPoll == Ev("Poll") /\ Poll(R.regs)
TProbe == Ev("Probe") /\ Probe(R.c1, R.c2, R.sum, R.chain, R.dt, R.ns, R.depthOk)
TraceNext == TReset \/ TArm \/ TBegin \/ TEnter \/ TLeave \/ TRaise \/ TCatch \/ TEnd \/ TRep \/ TPoll \/ TProbe
TraceInit == Init /\ l = 1
TraceSpec == TraceInit /\ [][TraceNext]_tvars
ASSUME TLCSet(1, 0)
Track == TLCSet(1, IF TLCGet(1) < l THEN l ELSE TLCGet(1))
Accepted == IF TLCGet(1) = Len(T) + 1 THEN TRUE
            ELSE PrintT(<<"@@MATCHED", TLCGet(1)>>) /\ FALSE
=============================================================================
