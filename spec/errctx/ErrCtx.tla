------------------------------- MODULE ErrCtx -------------------------------
(* Abstract specification of error unwinding (property C05).

   An evaluation is a stack of regions (plain call, call_other, function pointer, efun callbacks
   filter/map/sort, catch, create() of a clone, create() of an object being loaded, init() of a
   move, the move_or_destruct() hook applied by destruct() of a container).  Every region logs the
   LPC-visible machine context (call depth, this_player, this_object) when it is entered; the
   same context must be observed when it is left and, for a catch region, right after the catch
   whether or not something was caught.  An error (raised explicitly, or injected by the H1
   fault hook at an arbitrary instruction) unwinds to the innermost catch region, which yields
   the raised message / thrown value; limit errors (evaluation cost, recursion depth) are never
   yielded by a catch; without a catch region the error is reported at driver level.
   At the polls before and after, the interpreter's registers (value stack height, control
   stack depth, error-context chain depth, command-giver stack depth, re-entrancy guards) are
   equal, and a fixed probe evaluation gives its fixed answers.                            *)
EXTENDS Integers, Sequences, FiniteSets

VARIABLES stk,      \* sequence of [k, i, depth, tp, to]
          raised,   \* "none" or the kind of the error in flight
          fault,    \* an injected fault is armed and has not been observed yet
          base,     \* registers at the first poll (<<>> before)
          running
vars == <<stk, raised, fault, base, running>>

Init == stk = <<>> /\ raised = "none" /\ fault = FALSE /\ base = <<>> /\ running = FALSE

Limit(k) == k \in {"eval", "depth"}
Ctx(d, tp, to) == [depth |-> d, tp |-> tp, to |-> to]

Arm == fault' = TRUE /\ UNCHANGED <<stk, raised, base, running>>

Begin == /\ ~running /\ running' = TRUE /\ stk' = <<>> /\ raised' = "none" /\ UNCHANGED <<fault, base>>

Enter(k, i, c) == /\ running /\ raised = "none" /\ Len(stk) = i
                  /\ stk' = Append(stk, [k |-> k, i |-> i, c |-> c])
                  /\ UNCHANGED <<raised, fault, base, running>>

Leave(k, i, c) == /\ running /\ raised = "none" /\ Len(stk) = i + 1
                  /\ stk[i + 1].k = k /\ stk[i + 1].c = c          \* context at exit = context at entry
                  /\ stk' = SubSeq(stk, 1, i)
                  /\ UNCHANGED <<raised, fault, base, running>>

RaiseAt(k) == /\ running /\ raised = "none"
              /\ raised' = IF k = "none" THEN "none" ELSE k
              /\ UNCHANGED <<stk, fault, base, running>>

ValOk(k, val) == CASE k = "user" -> val = "*user error"
                   [] k = "throw" -> val = "thrown value"
                   [] k \in {"type", "bounds", "div"} -> TRUE
                   [] OTHER -> FALSE

AfterCatch(i, caught, val, c) ==
  /\ running /\ Len(stk) >= i + 1 /\ stk[i + 1].k = "catch"
  /\ stk[i + 1].c = c                                              \* machine context restored at the catch point
  /\ \A j \in i + 2 .. Len(stk) : stk[j].k # "catch" \/ Limit(raised) \/ fault   \* the innermost catch gets it
  /\ IF caught
     THEN \/ /\ raised # "none" /\ ~Limit(raised) /\ ValOk(raised, val)
             /\ raised' = "none" /\ fault' = fault
          \/ /\ fault /\ val = "*verif fault"
             /\ raised' = "none" /\ fault' = FALSE
     ELSE /\ raised = "none" /\ Len(stk) = i + 1 /\ UNCHANGED <<raised, fault>>
  /\ stk' = SubSeq(stk, 1, i + 1)
  /\ UNCHANGED <<base, running>>

End == /\ running /\ raised = "none" /\ stk = <<>> /\ running' = FALSE
       /\ UNCHANGED <<stk, raised, fault, base>>

\* the error arrived at driver level (master error_handler / log)
Reported(isFault) ==
  \/ /\ ~running /\ ~isFault /\ UNCHANGED vars     \* the same error reported a second time (log and master)
  \/ /\ \/ /\ running /\ raised # "none" /\ ~isFault
           /\ (Limit(raised) \/ \A j \in 1 .. Len(stk) : stk[j].k # "catch")
        \/ fault /\ isFault
     /\ fault' = IF isFault THEN FALSE ELSE fault
     /\ running' = FALSE /\ stk' = <<>> /\ raised' = "none"
     /\ UNCHANGED base

Poll(regs) ==
  /\ ~running \/ fault        \* an evaluation cut short by an unreported fault never happens: see Reported
  /\ IF base = <<>> THEN base' = regs ELSE regs = base /\ base' = base
  /\ UNCHANGED <<stk, raised, fault, running>>

\* chain: a chain of nested loads exactly as deep as the configured limit still loads (load_object's depth guard is back at
\* its value); dt: an unrelated object can be destructed (destruct's move_or_destruct restriction is not left behind)
\* ns: a sort_array() whose compare callback runs - and catches - a failing sort_array() of its own still sorts
Probe(c1, c2, sum, chain, dt, ns, depthOk) == /\ c1 = 1 /\ c2 = "p" /\ sum = 5 /\ chain = 1 /\ dt = 1 /\ ns = 1 /\ depthOk /\ UNCHANGED vars
=============================================================================
