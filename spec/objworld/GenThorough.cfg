SPECIFICATION GSpec
CONSTANTS Steps = 5
  Ops = {"new2", "mv21", "mv32", "mv12", "dest1", "dest2", "lddest", "ldkeep", "lireenter", "liplain"}
  CreateHooks = {"none", "wmv:me:o1"}
  InitHooks = {"none", "wdest:o2"}
  ModHooks = {"stay", "go"}
  Sim = FALSE
INVARIANT Emit
CHECK_DEADLOCK FALSE
