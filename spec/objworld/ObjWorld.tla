------------------------------ MODULE ObjWorld ------------------------------
(* Abstract specification of object names, inventories and destruction (property C08).

   alive  the objects that exist;  env[o]  the object o is inside of ("0" = none).
   Operations may be issued re-entrantly from create / init / move_or_destruct hooks: every
   operation is bracketed by a Try and a Res event, events of nested operations lie in between.
   A move takes effect at its Try (the hooks it triggers already see the new place), a
   destruct at its Res (its cascade - move_or_destruct offered to every content, those that
   stay are destructed with everything inside them - happens in between).
   After every command the driver's structures (super / contains / name table / destruct
   list) and what LPC code sees (environment, all_inventory, find_object, stale references)
   are compared with this state.                                                           *)
EXTENDS Integers, FiniteSets, Sequences

CONSTANT Names

VARIABLES alive, env, stk
vars == <<alive, env, stk>>

None == "0"
Init == alive = {} /\ env = [o \in Names |-> None] /\ stk = <<>>

RECURSIVE Anc(_, _)
\* ancestors of o (bounded by the number of names, so a cycle cannot loop for ever)
Anc(o, n) == IF n = 0 \/ env[o] = None THEN {} ELSE {env[o]} \cup Anc(env[o], n - 1)
Ancestors(o) == Anc(o, Cardinality(Names))
Inside(o) == {x \in alive : o \in Ancestors(x)}

\* one stack of everything in progress: operations (mv / dest / new) and hooks
Push(r) == stk' = Append(stk, r)
Top == stk[Len(stk)]
Pop == stk' = SubSeq(stk, 1, Len(stk) - 1)
IsOp(r) == r.k \in {"mv", "dest", "new"}

CreateTry == Push([k |-> "new", ob |-> None, ok |-> "any"]) /\ UNCHANGED <<alive, env>>
Created(o) == /\ o \notin alive /\ alive' = alive \cup {o} /\ env' = [env EXCEPT ![o] = None]
              /\ UNCHANGED stk
CreateRes == /\ stk # <<>> /\ Top.k = "new" /\ Pop /\ UNCHANGED <<alive, env>>

MoveLegal(o, d) == o \in alive /\ d \in alive /\ o # d /\ o \notin Ancestors(d)

MoveTry(o, d) ==
  /\ Push([k |-> "mv", ob |-> o, ok |-> IF MoveLegal(o, d) THEN "yes" ELSE "no"])
  /\ env' = IF MoveLegal(o, d) THEN [env EXCEPT ![o] = d] ELSE env
  /\ UNCHANGED alive

Matches(want, ok) == want = "any" \/ (want = "yes") = ok

MoveRes(o, ok) ==
  /\ stk # <<>> /\ Top.k = "mv" /\ Top.ob = o /\ Matches(Top.ok, ok)
  /\ Pop /\ UNCHANGED <<alive, env>>

\* the innermost active move_or_destruct hook restricts destruct() to its own object
Restrict == LET M == {i \in 1 .. Len(stk) : stk[i].k = "mod"} IN
            IF M = {} THEN None ELSE stk[CHOOSE i \in M : \A j \in M : j <= i].ob

DestTry(o) ==
  \* inside a move_or_destruct hook a destruct of another object is normally refused; an error caught inside the hook
  \* lifts that restriction (the driver resets it during error recovery), so such a destruct may also be performed -
  \* the property only asks that the world stays consistent either way
  /\ Push([k |-> "dest", ob |-> o, ok |-> IF Restrict = None \/ Restrict = o THEN "yes" ELSE "any"])
  /\ UNCHANGED <<alive, env>>

DestRes(o, ok) ==
  /\ stk # <<>> /\ Top.k = "dest" /\ Top.ob = o /\ Matches(Top.ok, ok)
  /\ Pop
  /\ IF ok /\ o \in alive
     THEN /\ alive' = alive \ ({o} \cup Inside(o))       \* what did not leave goes down with it
          /\ env' = [x \in Names |-> IF x = o \/ x \in Inside(o) THEN None ELSE env[x]]
     ELSE IF ~ok /\ o \in alive
     THEN \* a cascade that an error cut short: contents that were offered move_or_destruct and
          \* stayed are already gone (with everything inside them); o itself survives
          \E S \in SUBSET Inside(o) :
             /\ \A x \in S : Inside(x) \subseteq S
             /\ alive' = alive \ S
             /\ env' = [x \in Names |-> IF x \in S THEN None ELSE env[x]]
     ELSE UNCHANGED <<alive, env>>

HookBegin(o, k) == Push([k |-> k, ob |-> o, ok |-> "any"]) /\ UNCHANGED <<alive, env>>
HookEnd(o, k) == /\ stk # <<>> /\ Top.ob = o /\ Top.k = k /\ Pop /\ UNCHANGED <<alive, env>>

\* an LPC error: it lands in the catch of one of the operations in progress - usually the innermost,
\* but a "too deep recursion" error passes the frames whose catch could not be set up - or it
\* unwinds everything.  The operation that catches it may report a failure although its effect
\* took place.
Raise ==
  LET P == {i \in 1 .. Len(stk) : IsOp(stk[i])} IN
  /\ \/ stk' = <<>>
     \/ \E m \in P : stk' = [i \in 1 .. m |-> IF i = m THEN [stk[i] EXCEPT !.ok = "any"] ELSE stk[i]]
  /\ UNCHANGED <<alive, env>>

\* comparison with the driver's structures (cAlive, cEnv, cInv) and LPC's views (lAlive, lEnv, lInv)
Invs(e) == [o \in Names |-> {x \in alive : e[x] = o}]
Snapshot(cAlive, cEnv, cInv, cFoundOk, lAlive, lEnv, lInv, lFoundOk) ==
  /\ stk = <<>>
  /\ cAlive = alive /\ lAlive = alive
  /\ \A o \in alive : cEnv[o] = env[o] /\ lEnv[o] = env[o]
  /\ \A o \in alive : cInv[o] = Invs(env)[o] /\ lInv[o] = Invs(env)[o]
  /\ cFoundOk /\ lFoundOk
  /\ UNCHANGED vars

\* structural invariants of the specification itself
\* load_object(name) / call_other(name, ...) of an object that is not loaded: if its create() destructs it, the name yields
\* nothing - no object is handed out, nothing runs in it, it is not found afterwards; otherwise it is loaded, called, found
LoadNamed(selfDestructs, got, ran, found) ==
  /\ IF selfDestructs THEN ~got /\ ~ran /\ ~found ELSE got /\ ran /\ found
  /\ UNCHANGED <<alive, env, stk>>

\* loading a program whose parent is not loaded yet, the parent's create() loading the same child by name in the meantime:
\* the name still stands for exactly one live object, the one the load hands out
LoadInherit(got, same, copies) == got /\ same /\ copies = 1 /\ UNCHANGED <<alive, env, stk>>

Forest == \A o \in alive : o \notin Ancestors(o) /\ (env[o] # None => env[o] \in alive)
DeadClean == \A o \in Names \ alive : env[o] = None
=============================================================================
