---------------------------- MODULE ObjWorldGen ----------------------------
(* P1 + P2 for C08: runs the abstract specification over a small universe with top-level
   operations only (P1: Forest / DeadClean hold in every reachable state), and prints input
   histories: hook scripts for the object files / objects, then top-level steps.            *)
EXTENDS Integers, Sequences, FiniteSets, TLC, Json
CONSTANTS Steps, Ops, CreateHooks, InitHooks, ModHooks, Sim
VARIABLES hist, k
gvars == <<hist, k>>
Pick(S) == IF Sim THEN (IF S = {} THEN {} ELSE {RandomElement(S)}) ELSE S
GInit == hist = <<>> /\ k = 0
GNext == \/ /\ k = 0
            /\ \E c \in Pick(CreateHooks), i \in Pick(InitHooks), m \in Pick(ModHooks), m2 \in Pick(ModHooks) :
                 hist' = <<[a |-> "hooks", create |-> c, init |-> i, mod |-> m, mod2 |-> m2]>>
            /\ k' = 1
         \/ /\ k >= 1 /\ k <= Steps
            /\ \E s \in Pick(Ops) : hist' = Append(hist, [a |-> s])
            /\ k' = k + 1
         \/ k > Steps /\ UNCHANGED gvars
GSpec == GInit /\ [][GNext]_gvars
Emit == k = Steps + 1 => PrintT(<<"@@B", ToJson(hist)>>)
=============================================================================
