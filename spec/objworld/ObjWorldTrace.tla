--------------------------- MODULE ObjWorldTrace ---------------------------
EXTENDS ObjWorld, Json, IOUtils, TLC
T == ndJsonDeserialize(IOEnv.TRACE)
VARIABLE l
tvars == <<vars, l>>
Ev(name) == l <= Len(T) /\ T[l].e = name /\ l' = l + 1
R == T[l]
SeqToSet(s) == {s[i] : i \in 1..Len(s)}
F(rec) == [o \in Names |-> IF o \in DOMAIN rec THEN rec[o] ELSE None]
FS(rec) == [o \in Names |-> IF o \in DOMAIN rec THEN SeqToSet(rec[o]) ELSE {}]
TReset == Ev("Reset") /\ alive' = {} /\ env' = [o \in Names |-> None] /\ stk' = <<>>
TCreateTry == Ev("CreateTry") /\ CreateTry
TCreateRes == Ev("CreateRes") /\ CreateRes
TCreated == Ev("Created") /\ Created(R.ob)
TMoveTry == Ev("MoveTry") /\ MoveTry(R.ob, R.d)
TMoveRes == Ev("MoveRes") /\ MoveRes(R.ob, R.ok = 1)
TDestTry == Ev("DestTry") /\ DestTry(R.ob)
TDestRes == Ev("DestRes") /\ DestRes(R.ob, R.ok = 1)
THook == Ev("Hook") /\ HookBegin(R.ob, R.k)
THookEnd == Ev("HookEnd") /\ HookEnd(R.ob, R.k)
TRaise == Ev("Raise") /\ Raise
TSnap == Ev("Snapshot") /\ Snapshot(SeqToSet(R.cAlive), F(R.cEnv), FS(R.cInv), R.cFoundOk,
                                     SeqToSet(R.lAlive), F(R.lEnv), FS(R.lInv), R.lFoundOk)
TLoadNamed == Ev("LoadNamed") /\ LoadNamed(R.mode = "dest", R.got = 1, R.ran = 1, R.found = 1)
TLoadInherit == Ev("LoadInherit") /\ LoadInherit(R.got = 1, R.same = 1, R.copies)
TraceNext == TLoadNamed \/ TLoadInherit \/ TReset \/ TCreateTry \/ TCreateRes \/ TCreated \/ TMoveTry \/ TMoveRes \/ TDestTry \/ TDestRes \/ THook \/ THookEnd \/ TRaise \/ TSnap
TraceInit == Init /\ l = 1
TraceSpec == TraceInit /\ [][TraceNext]_tvars
ASSUME TLCSet(1, 0)
Track == TLCSet(1, IF TLCGet(1) < l THEN l ELSE TLCGet(1))
Accepted == IF TLCGet(1) = Len(T) + 1 THEN TRUE
            ELSE PrintT(<<"@@MATCHED", TLCGet(1)>>) /\ FALSE
=============================================================================
