SPECIFICATION TraceSpec
CONSTANT Names = {"b1", "b2", "b3", "o1", "o2", "o3", "o4", "o5", "o6", "o7", "o8", "o9", "o10", "o11", "a1", "a2", "a3", "a4", "a5", "a6", "a7", "a8", "a9", "a10"}
CONSTRAINT Track
POSTCONDITION Accepted
INVARIANT Forest
INVARIANT DeadClean
CHECK_DEADLOCK FALSE
