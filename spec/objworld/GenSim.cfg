SPECIFICATION GSpec
CONSTANTS Steps = 9
  Ops = {"new1", "new2", "new3", "mv21", "mv31", "mv12", "mv32", "mv13", "mv11", "mv41", "mv24", "dest1", "dest2", "dest3", "lddest", "ldkeep", "lireenter", "liplain"}
  CreateHooks = {"none", "wmv:me:o1", "wdest:me", "wmv:o1:me", "wnew:auto:/obj/w3", "err"}
  InitHooks = {"none", "wdest:o2", "wdest:me", "wmv:o3:o1", "wdest:o1", "wmv:o2:o3", "err"}
  ModHooks = {"stay", "go", "wdest:me", "wdest:o3", "err", "wmv:me:o3", "wdest:o1"}
  Sim = TRUE
INVARIANT Emit
CHECK_DEADLOCK FALSE
