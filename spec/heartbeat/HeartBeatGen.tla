---------------------------- MODULE HeartBeatGen ----------------------------
(* Behaviour enumeration for C11 (P2): a population of heart-beat objects, each with an initial
   interval and a script its heart_beat function performs, then a sequence of ticks and
   top-level operations.  Inputs only; verdicts come from HeartBeatTrace.                  *)
EXTENDS Integers, Sequences, FiniteSets, TLC, Json

CONSTANTS N,          \* objects o1..oN
          Intervals,  \* initial intervals (0 = not enabled)
          Scripts,    \* per-object heart_beat scripts
          Steps,      \* number of tick / top-level steps after the configuration
          TopOps,     \* top-level operations between ticks
          Sim         \* TRUE under -simulate: one random successor per step

VARIABLES hist, k
vars == <<hist, k>>

Pick(S) == IF Sim THEN (IF S = {} THEN {} ELSE {RandomElement(S)}) ELSE S

Init == hist = <<>> /\ k = 0

Cfg  == [a : {"cfg"}, iv : Intervals, scr : Scripts]
Step == [a : {"tick"}] \cup [a : {"top"}, op : TopOps]

Next ==
  \/ /\ k < N
     /\ \E c \in Pick(Cfg) : hist' = Append(hist, c) /\ k' = k + 1
  \/ /\ k >= N /\ k < N + Steps
     /\ \E s \in Pick({x \in Step : x.a = "top" => (k > N => hist[Len(hist)].a = "tick")}) :
                       /\ TRUE
                       /\ hist' = Append(hist, s) /\ k' = k + 1
  \/ k >= N + Steps /\ UNCHANGED vars      \* keeps -simulate traces alive to their depth

Spec == Init /\ [][Next]_vars
Emit == (k = N + Steps /\ \E i \in 1 .. Len(hist) : hist[i].a = "tick") => PrintT(<<"@@B", ToJson(hist)>>)
=============================================================================
