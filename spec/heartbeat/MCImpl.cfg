SPECIFICATION Spec
CONSTANTS Objs = {"a", "b", "c"}
  Intervals = {1, 2}
  MaxTicks = 3
  MaxOps = 2
  CompIdx = TRUE
  CompToDo = TRUE
  IsolateErrors = TRUE
INVARIANT NoViolation
