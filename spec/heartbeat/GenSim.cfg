SPECIFICATION Spec
CONSTANTS N = 4
  Intervals = {0, 1, 2, 3}
  Scripts = {"none", "dis_self", "dis_o1", "dis_o2", "dis_o3", "dis_o4", "en_o1_1", "en_o2_2", "en_o3_1", "en_o4_3", "dest_self", "dest_o1", "dest_o2", "dest_o3", "err", "mk", "dis_o1_err", "dis_o2_dis_self", "en_self_2", "dest_o3_dis_o1"}
  Steps = 5
  TopOps = {"hb:o1:0", "hb:o2:1", "hb:o3:2", "dest:o1", "dest:o4", "hb:o4:0", "set=kx=err;co:A:1:kx", "set=ky=err;co:A:3:ky"}
  Sim = TRUE
INVARIANT Emit
CHECK_DEADLOCK FALSE
