SPECIFICATION Spec
CONSTANTS N = 3
  Intervals = {0, 1, 2}
  Scripts = {"none", "dis_self", "dis_o1", "dis_o2", "dis_o3", "en_o1_1", "en_o3_2", "dest_self", "dest_o1", "dest_o3", "err", "mk"}
  Steps = 2
  TopOps = {"hb:o1:0", "hb:o2:1", "dest:o1", "set=kx=err;co:A:1:kx"}
  Sim = FALSE
INVARIANT Emit
CHECK_DEADLOCK FALSE
