SPECIFICATION TraceSpec
CONSTANT Objs = {"o1", "o2", "o3", "o4", "o5", "o6", "o7", "o8"}
CONSTRAINT Track
POSTCONDITION Accepted
INVARIANT TypeOK
CHECK_DEADLOCK FALSE
