SPECIFICATION Spec
CONSTANTS Objs = {"a", "b", "c", "d"}
  Intervals = {1, 2}
  MaxTicks = 2
  MaxOps = 2
  CompIdx = TRUE
  CompToDo = TRUE
INVARIANT NoViolation
