--------------------------- MODULE HeartBeatTrace ---------------------------
EXTENDS HeartBeat, Json, IOUtils, TLC

T == ndJsonDeserialize(IOEnv.TRACE)
VARIABLE l
tvars == <<vars, l>>
Ev(name) == l <= Len(T) /\ T[l].e = name /\ l' = l + 1
R == T[l]
SeqToSet(s) == {s[i] : i \in 1..Len(s)}

TReset == /\ Ev("Reset")
          /\ on' = [o \in Objs |-> FALSE] /\ iv' = [o \in Objs |-> 0] /\ cnt' = [o \in Objs |-> 0]
          /\ alive' = {} /\ inTick' = FALSE /\ pre' = [o \in Objs |-> 0]
          /\ called' = {} /\ touched' = {} /\ errTick' = FALSE
TCreate == Ev("Create") /\ Create(R.ob)
TSet    == Ev("SetHB") /\ SetHB(R.ob, R.n)
TDest   == Ev("Destruct") /\ Destruct(R.ob)
TTick   == Ev("TickBegin") /\ TickBegin
TBeat   == Ev("HB") /\ Beat(R.ob)
TErr    == Ev("HBError") /\ BeatError(R.ob)
TPoll   == Ev("Poll") /\ Poll({<<x[1], x[2]>> : x \in SeqToSet(R.list)})

TraceNext == TReset \/ TCreate \/ TSet \/ TDest \/ TTick \/ TBeat \/ TErr \/ TPoll
TraceInit == Init /\ l = 1
TraceSpec == TraceInit /\ [][TraceNext]_tvars

ASSUME TLCSet(1, 0)
Track == TLCSet(1, IF TLCGet(1) < l THEN l ELSE TLCGet(1))
Accepted == IF TLCGet(1) = Len(T) + 1 THEN TRUE
            ELSE PrintT(<<"@@MATCHED", TLCGet(1)>>) /\ FALSE
=============================================================================
