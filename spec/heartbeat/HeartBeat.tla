------------------------------ MODULE HeartBeat ------------------------------
(* Abstract specification of heart beats (property C11).

   on[o]   heart beat enabled          iv[o]  interval n          cnt[o] ticks until the next beat
   Strict rules (ticks that complete without an error, objects nobody touched with
   set_heart_beat during the tick): an object enabled when the tick began is called exactly
   once iff its counter runs out, and nobody is ever called twice in a tick.  An object that
   was disabled or destructed is not called until it is enabled again; an object enabled
   during a tick is not called in that tick; an error in o's heart_beat switches off o only.
   Permissive (the property is silent): objects touched during the tick before their turn and
   every object in a tick that an error cut short may or may not have been counted.        *)
EXTENDS Integers, FiniteSets, Sequences

CONSTANT Objs

VARIABLES on, iv, cnt, alive,
          inTick,   \* between the beginning of a tick's work and the next poll
          pre,      \* counters of the objects enabled when the tick began
          called,   \* objects whose heart_beat ran in this tick
          touched,  \* objects that were the target of set_heart_beat / destruct in this tick
          errTick   \* an uncaught error cut this tick short
vars == <<on, iv, cnt, alive, inTick, pre, called, touched, errTick>>

Init == /\ on = [o \in Objs |-> FALSE] /\ iv = [o \in Objs |-> 0] /\ cnt = [o \in Objs |-> 0]
        /\ alive = {} /\ inTick = FALSE /\ pre = [o \in Objs |-> 0]
        /\ called = {} /\ touched = {} /\ errTick = FALSE

Create(o) == /\ o \notin alive /\ ~on[o]
             /\ alive' = alive \cup {o}
             /\ UNCHANGED <<on, iv, cnt, inTick, pre, called, touched, errTick>>

\* set_heart_beat(o, n) by anybody (n = 0 disables; n > 0 enables or restarts the countdown)
SetHB(o, n) ==
  /\ o \in alive /\ n >= 0
  /\ on' = [on EXCEPT ![o] = n > 0]
  /\ iv' = [iv EXCEPT ![o] = n]
  /\ cnt' = [cnt EXCEPT ![o] = n]
  /\ touched' = IF inTick THEN touched \cup {o} ELSE touched
  /\ UNCHANGED <<alive, inTick, pre, called, errTick>>

Destruct(o) ==
  /\ alive' = alive \ {o}
  /\ on' = [on EXCEPT ![o] = FALSE]
  /\ touched' = IF inTick THEN touched \cup {o} ELSE touched
  /\ UNCHANGED <<iv, cnt, inTick, pre, called, errTick>>

TickBegin ==
  /\ inTick' = TRUE
  /\ pre' = [o \in Objs |-> IF on[o] THEN cnt[o] ELSE 0]
  /\ called' = {} /\ touched' = {} /\ errTick' = FALSE
  /\ UNCHANGED <<on, iv, cnt, alive>>

\* o's heart_beat function is entered
\* (also after an error in the same tick: the driver goes on with the round - since fix 'heart beat error isolation' -;
\*  the property is silent about ticks in which an error occurred, so a round cut short there is accepted as well)
Beat(o) ==
  /\ inTick
  /\ o \in alive /\ on[o]
  /\ o \notin called                    \* at most once per tick
  /\ pre[o] > 0                         \* was enabled when the tick began
  /\ o \notin touched => pre[o] <= 1    \* untouched: only when its counter runs out
  /\ o \in touched => cnt[o] <= 1
  /\ called' = called \cup {o}
  /\ cnt' = [cnt EXCEPT ![o] = iv[o]]
  /\ UNCHANGED <<on, iv, alive, inTick, pre, touched, errTick>>

\* an uncaught error inside o's heart_beat: o's heart beat is switched off; the rest of the tick is not judged strictly
BeatError(o) ==
  /\ inTick /\ o \in called
  /\ on' = [on EXCEPT ![o] = FALSE]
  /\ errTick' = TRUE
  /\ UNCHANGED <<iv, cnt, alive, inTick, pre, called, touched>>

\* counters of the objects still enabled and not called, at the end of the tick
Strict(o) == on[o] /\ o \notin called /\ o \notin touched /\ pre[o] > 0 /\ ~errTick
Loose(o)  == on[o] /\ o \notin called /\ ~Strict(o) /\ pre[o] > 0

\* the poll that follows: `list` is the driver's own listing {<<object, interval>>}
Poll(list) ==
  /\ list = {<<o, iv[o]>> : o \in {x \in Objs : on[x]}}
  /\ IF inTick
     THEN /\ \A o \in Objs : Strict(o) => pre[o] > 1      \* a counter that ran out was called
          /\ \E f \in [Objs -> 0 .. 1] :
               /\ \A o \in Objs : f[o] = 1 => (Loose(o) /\ cnt[o] > 1)
               /\ cnt' = [o \in Objs |-> IF Strict(o) THEN cnt[o] - 1 ELSE cnt[o] - f[o]]
     ELSE cnt' = cnt
  /\ inTick' = FALSE
  /\ UNCHANGED <<on, iv, alive, pre, called, touched, errTick>>

TypeOK == /\ \A o \in Objs : on[o] => (o \in alive /\ iv[o] >= 1 /\ cnt[o] >= 1 /\ cnt[o] <= iv[o])
          /\ called \subseteq Objs
=============================================================================
