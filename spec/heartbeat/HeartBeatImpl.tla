---------------------------- MODULE HeartBeatImpl ----------------------------
(* Implementation-shaped model of call_heart_beat()/set_heart_beat() in src/backend.c:
   the array heart_beats[], num_hb_objs (= Len(hbs)), heart_beat_index, num_hb_to_do, the
   index compensation on removal, append on enable, and error_handler() switching off
   current_heart_beat while the cursor variables stay stale until the next tick.
   Ghost variables (pre, called, touched, err) carry what the abstract spec HeartBeat needs;
   `bad` names the first strict rule that a step violated.  Indices are 0-based as in C.   *)
EXTENDS Integers, Sequences, FiniteSets, TLC

CONSTANTS Objs, Intervals, MaxTicks, MaxOps,
          CompIdx,   \* TRUE: "if (index <= heart_beat_index) heart_beat_index--" present
          CompToDo,  \* TRUE: "if (index < num_hb_to_do) num_hb_to_do--" present
          IsolateErrors  \* TRUE: an error ends the failing call only (as written); FALSE: it ends the tick (the behaviour before the fix)

VARIABLES hbs,     \* sequence of [ob, ticks, ttb]
          idx, todo, phase, cur, nticks, nops,
          alive, pre, called, touched, err, bad
vars == <<hbs, idx, todo, phase, cur, nticks, nops, alive, pre, called, touched, err, bad>>

None == "none"
Pos(o) == IF \E i \in 1 .. Len(hbs) : hbs[i].ob = o
          THEN CHOOSE i \in 1 .. Len(hbs) : hbs[i].ob = o ELSE 0
Enabled(o) == Pos(o) # 0

Init == /\ hbs = <<>> /\ idx = 0 /\ todo = 0 /\ phase = "idle" /\ cur = None
        /\ nticks = 0 /\ nops = 0 /\ alive = Objs
        /\ pre = [o \in Objs |-> 0] /\ called = {} /\ touched = {} /\ err = FALSE /\ bad = None

InTick == phase \in {"loop", "inhb"}
CanOp == phase = "idle" \/ (phase = "inhb" /\ nops < MaxOps)
Touch(o) == touched' = IF InTick THEN touched \cup {o} ELSE touched

\* set_heart_beat(ob, 0)
RemoveHB(o) ==
  LET i == Pos(o) - 1 IN      \* C index
  IF Pos(o) = 0 THEN UNCHANGED <<hbs, idx, todo>>
  ELSE /\ hbs' = SubSeq(hbs, 1, i) \o SubSeq(hbs, i + 2, Len(hbs))
       /\ IF todo # 0
          THEN /\ idx' = IF CompIdx /\ i <= idx THEN idx - 1 ELSE idx
               /\ todo' = IF CompToDo /\ i < todo THEN todo - 1 ELSE todo
          ELSE UNCHANGED <<idx, todo>>

SetHB(o, n) ==
  /\ CanOp /\ o \in alive /\ n \in Intervals
  /\ IF Enabled(o)
     THEN hbs' = [hbs EXCEPT ![Pos(o)] = [ob |-> o, ticks |-> n, ttb |-> n]]
     ELSE hbs' = Append(hbs, [ob |-> o, ticks |-> n, ttb |-> n])
  /\ Touch(o) /\ nops' = (IF phase = "inhb" THEN nops + 1 ELSE nops)
  /\ UNCHANGED <<idx, todo, phase, cur, nticks, alive, pre, called, err, bad>>

Disable(o) ==
  /\ CanOp /\ o \in alive
  /\ RemoveHB(o) /\ Touch(o) /\ nops' = (IF phase = "inhb" THEN nops + 1 ELSE nops)
  /\ UNCHANGED <<phase, cur, nticks, alive, pre, called, err, bad>>

Destruct(o) ==
  /\ CanOp /\ o \in alive
  /\ RemoveHB(o) /\ Touch(o) /\ nops' = (IF phase = "inhb" THEN nops + 1 ELSE nops)
  /\ alive' = alive \ {o}
  /\ UNCHANGED <<phase, cur, nticks, pre, called, err, bad>>

\* call_heart_beat(): num_hb_to_do = num_hb_objs; heart_beat_index = 0
TickStart ==
  /\ phase = "idle" /\ nticks < MaxTicks
  /\ nticks' = nticks + 1
  /\ todo' = Len(hbs)
  /\ pre' = [o \in Objs |-> IF Enabled(o) THEN hbs[Pos(o)].ticks ELSE 0]
  /\ called' = {} /\ touched' = {} /\ err' = FALSE
  /\ IF Len(hbs) > 0 THEN phase' = "loop" /\ idx' = 0
                     ELSE phase' = "idle" /\ idx' = idx
  /\ UNCHANGED <<hbs, cur, nops, alive, bad>>

\* end of the loop: counting rule for the objects nobody touched
EndChecks == IF \E o \in Objs : /\ Enabled(o) /\ o \notin called /\ o \notin touched
                               /\ pre[o] > 0 /\ pre[o] <= 1        \* (also in a tick in which a heart beat failed)
             THEN "missed" ELSE bad

Advance(i, td) ==   \* if (++heart_beat_index == num_hb_to_do) break;
  IF i + 1 = td THEN /\ phase' = "idle" /\ idx' = 0 /\ todo' = 0
                ELSE /\ phase' = "loop" /\ idx' = i + 1 /\ todo' = td

LoopStep ==
  /\ phase = "loop"
  /\ IF idx < 0 \/ idx >= Len(hbs)
     THEN /\ bad' = "index out of the array" /\ phase' = "idle"
          /\ UNCHANGED <<hbs, idx, todo, cur, nticks, nops, alive, pre, called, touched, err>>
     ELSE LET e == hbs[idx + 1] t == e.ticks - 1 IN
          IF t < 1
          THEN /\ hbs' = [hbs EXCEPT ![idx + 1].ticks = e.ttb]
               /\ phase' = "inhb" /\ cur' = e.ob /\ nops' = 0
               /\ called' = called \cup {e.ob}
               /\ bad' = IF e.ob \in called THEN "twice"
                         ELSE IF pre[e.ob] = 0 THEN "enabled in this tick"
                         ELSE IF e.ob \notin touched /\ pre[e.ob] > 1 THEN "early"
                         ELSE bad
               /\ UNCHANGED <<idx, todo, nticks, alive, pre, touched, err>>
          ELSE /\ hbs' = [hbs EXCEPT ![idx + 1].ticks = t]
               /\ Advance(idx, todo)
               /\ bad' = IF phase' = "idle" THEN EndChecks ELSE bad
               /\ UNCHANGED <<cur, nticks, nops, alive, pre, called, touched, err>>

HBReturns ==
  /\ phase = "inhb"
  /\ Advance(idx, todo) /\ cur' = None
  /\ bad' = IF idx + 1 > todo THEN "cursor passed the end"
            ELSE IF phase' = "idle" THEN EndChecks ELSE bad
  /\ UNCHANGED <<hbs, nticks, nops, alive, pre, called, touched, err>>

\* error(): error_handler() does set_heart_beat(current_heart_beat, 0) and longjmps to the error context that
\* call_heart_beat() keeps around each call: the round goes on behind the failing entry (IsolateErrors; HBReturns
\* follows).  Before the fix 'heart beat error isolation' the jump went to backend() and the tick ended there.
HBError ==
  /\ phase = "inhb" /\ cur # None
  /\ RemoveHB(cur) /\ cur' = None /\ err' = TRUE
  /\ IF IsolateErrors THEN phase' = "inhb" /\ nops' = MaxOps /\ bad' = bad
     ELSE /\ phase' = "idle" /\ nops' = nops
          /\ bad' = IF \E o \in Objs \ {cur} : Enabled(o) /\ o \notin called /\ o \notin touched /\ pre[o] > 0 /\ pre[o] <= 1
                    THEN "missed" ELSE bad
  /\ UNCHANGED <<nticks, alive, pre, called, touched>>

Next == \/ \E o \in Objs, n \in Intervals : SetHB(o, n)
        \/ \E o \in Objs : Disable(o) \/ Destruct(o)
        \/ TickStart \/ LoopStep \/ HBReturns \/ HBError

Spec == Init /\ [][Next]_vars
NoViolation == bad = None
=============================================================================
