SPECIFICATION GSpec
CONSTANTS MaxLen = 5 Sim = FALSE UseRule = "driver" WithS = TRUE
INVARIANT NeverStale
CHECK_DEADLOCK FALSE
