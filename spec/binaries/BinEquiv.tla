------------------------------- MODULE BinEquiv -------------------------------
(* P3 for C17 (equivalence): a program obtained by loading its saved binary is indistinguishable from the
   one obtained by compiling its source: the same canonical structural dump (inherits, functions with flags /
   argument and local counts, variables, strings, disassembly, line table), the same results for every probe
   call and the same file / line / trace for every reported error.                                         *)
EXTENDS Integers, Sequences, TLC, Json, IOUtils
T == ndJsonDeserialize(IOEnv.TRACE)
VARIABLES l, img, have
vars == <<l, img, have>>
Ev(name) == l <= Len(T) /\ T[l].e = name /\ l' = l + 1
R == T[l]
TReset == Ev("Reset") /\ img' = <<>> /\ have' = FALSE
\* image of the program compiled from source (the driver read the source file)
\* (the driver may always decline a binary and compile again: compiling the same source twice gives the same image)
TCompiled == /\ Ev("Image") /\ R.how = "compiled"
             /\ have => <<R.dump, R.results, R.reports>> = img
             /\ img' = <<R.dump, R.results, R.reports>> /\ have' = TRUE
\* image of the program loaded from its binary (the driver read only the .b file)
TLoaded == /\ Ev("Image") /\ R.how = "binary" /\ have
           /\ <<R.dump, R.results, R.reports>> = img
           /\ UNCHANGED <<img, have>>
TraceNext == TReset \/ TCompiled \/ TLoaded
Init == l = 1 /\ img = <<>> /\ have = FALSE
TraceSpec == Init /\ [][TraceNext]_vars
ASSUME TLCSet(1, 0)
Track == TLCSet(1, IF TLCGet(1) < l THEN l ELSE TLCGet(1))
Accepted == IF TLCGet(1) = Len(T) + 1 THEN TRUE
            ELSE PrintT(<<"@@MATCHED", TLCGet(1)>>) /\ FALSE
=============================================================================
