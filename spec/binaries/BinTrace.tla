------------------------------ MODULE BinTrace ------------------------------
(* P3 for C17 (staleness): the events of a real run - Edit / Touch / OldFormat / Restart, and for every
   re-load which binaries the driver used and the version tags the loaded program answered - must be a
   behaviour of Binaries in which every answer equals the current versions.                            *)
EXTENDS Binaries, Json, IOUtils
T == ndJsonDeserialize(IOEnv.TRACE)
VARIABLE l
tvars == <<vars, l>>
Ev(name) == l <= Len(T) /\ T[l].e = name /\ l' = l + 1
R == T[l]
Tag(f, k) == f \o ToString(k)
TReset == /\ Ev("Reset") /\ now' = 5 /\ mtime' = [f \in Files |-> CASE f = "A" -> 1 [] f = "B" -> 2 [] f = "H" -> 3 [] f = "S" -> 4 [] f = "G" -> 0]
          /\ ver' = [f \in Files |-> 1] /\ bin' = [p \in Progs |-> NoBin] /\ bootS' = 1 /\ saveB' = R.saveB /\ stale' = FALSE
TEdit == Ev("Edit") /\ Edit(R.f)
TTouch == Ev("Touch") /\ Touch(R.f)
TRestart == Ev("Restart") /\ Restart
TOld == Ev("OldFormat") /\ OldFormat(R.p)
Expected(p) == IF p = "A" THEN <<Tag("A", ver["A"]), Tag("H", ver["H"]), Tag("B", ver["B"]), Tag("G", ver["G"]), Tag("S", bootS)>>
               ELSE <<Tag("B", ver["B"]), Tag("G", ver["G"])>>
TLoad == /\ Ev("Load")
         /\ Load(R.p, [q \in Progs |-> IF q = "A" THEN R.usedA ELSE R.usedB])
         /\ R.tags = Expected(R.p)            \* what the loaded program says = the current versions
TraceNext == TReset \/ TEdit \/ TTouch \/ TRestart \/ TOld \/ TLoad
TraceInit == Init /\ l = 1
TraceSpec == TraceInit /\ [][TraceNext]_tvars
ASSUME TLCSet(1, 0)
Track == TLCSet(1, IF TLCGet(1) < l THEN l ELSE TLCGet(1))
Accepted == IF TLCGet(1) = Len(T) + 1 THEN TRUE
            ELSE PrintT(<<"@@MATCHED", TLCGet(1)>>) /\ FALSE
=============================================================================
