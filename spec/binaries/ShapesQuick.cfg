SPECIFICATION Spec
CONSTANTS Feats = {"strswitch", "intswitch", "inherit", "include", "class", "funlit", "savetypes", "ginit", "varargs", "floats", "modifiers", "manyfuncs", "manystrings", "nestedswitch"} Sizes = {1, 4, 23} MaxFeats = 2 Sim = FALSE
INVARIANT Emit
CHECK_DEADLOCK FALSE
