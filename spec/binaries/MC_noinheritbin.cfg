SPECIFICATION GSpec
CONSTANTS MaxLen = 6 Sim = FALSE UseRule = "noinheritbin" WithS = TRUE
INVARIANT NeverStale
CHECK_DEADLOCK FALSE
