------------------------------ MODULE BinShapes ------------------------------
(* P2 for C17 (equivalence): the program shapes whose compiled and binary-loaded images are compared.
   A shape = a set of language features the generated program uses + a size parameter (number of switch
   cases / functions / strings).  BFS enumerates every feature set up to MaxFeats features (and the full
   set); -simulate draws larger random sets.                                                          *)
EXTENDS Integers, FiniteSets, Sequences, TLC, Json, Randomization
CONSTANTS Feats, Sizes, MaxFeats, Sim
VARIABLES shape
Pick(S) == IF Sim THEN {RandomElement(S)} ELSE S
RandSub(S) == IF Sim THEN {RandomSubset(RandomElement(1..Cardinality(S)), S)} ELSE {fs \in SUBSET S : Cardinality(fs) <= MaxFeats \/ fs = S}
Init == shape = [feats |-> {}, n |-> 0, done |-> FALSE]
Next == \/ /\ ~shape.done /\ \E fs \in RandSub(Feats), n \in Pick(Sizes) : shape' = [feats |-> fs, n |-> n, done |-> TRUE]
        \/ /\ shape.done /\ UNCHANGED shape
Spec == Init /\ [][Next]_shape
Emit == shape.done => PrintT(<<"@@B", ToJson([feats |-> shape.feats, n |-> shape.n])>>)
=============================================================================
