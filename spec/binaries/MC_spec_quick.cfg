SPECIFICATION GSpec
CONSTANTS MaxLen = 5 Sim = FALSE UseRule = "spec" WithS = TRUE
INVARIANT NeverStale
CHECK_DEADLOCK FALSE
