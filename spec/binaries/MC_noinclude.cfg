SPECIFICATION GSpec
CONSTANTS MaxLen = 6 Sim = FALSE UseRule = "noinclude" WithS = TRUE
INVARIANT NeverStale
CHECK_DEADLOCK FALSE
