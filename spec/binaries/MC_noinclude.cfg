SPECIFICATION GSpec
CONSTANTS MaxLen = 5 Sim = FALSE UseRule = "noinclude" WithS = TRUE
INVARIANT NeverStale
CHECK_DEADLOCK FALSE
