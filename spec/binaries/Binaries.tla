------------------------------ MODULE Binaries ------------------------------
(* Abstract specification of saved program binaries (property C17), staleness part.

   Files carry a logical modification time and a content version.  Program A is built from its own
   source A, the include file H and inherits program B (source B); every program is compiled against
   the simul_efun file S as it was when the driver booted.  A compile writes the program's binary,
   stamped with the time of the compile, and the binary embodies the versions it was built from.
   Load(p) re-loads p (its inherited programs first): for each program the driver decides whether to
   use the binary.  It may use it only if
     - the binary has the current bytecode format,
     - it was compiled against the simul_efun file the driver is running now,
     - the program's source and every file it includes are older than the binary,
     - the source of every inherited program and every file that program includes are older than the binary,
       and so is the inherited program's own binary if there is one.
   The design is right if a binary that may be used always embodies the current versions (NeverStale).  *)
EXTENDS Integers, FiniteSets, Sequences, TLC

Progs == {"A", "B"}
Files == {"A", "B", "H", "G", "S"}        \* G: a header that only the inherited program B includes
Src(p)  == IF p = "A" THEN {"A", "H"} ELSE {"B", "G"} \* own source + includes
Inh(p)  == IF p = "A" THEN {"B"} ELSE {}
Order   == <<"B", "A">>                                \* inherited programs load first

VARIABLES now, mtime, ver,        \* files
          bin,                    \* p -> [present, mtime, fmt, vers (f -> version it embodies), sver]
          bootS,                  \* version of S the running driver booted with
          saveB,                  \* does program B ask for a saved binary at all (#pragma save_binary)?
          stale                   \* history: some load used a binary that did not embody the current versions
vars == <<now, mtime, ver, bin, bootS, saveB, stale>>

NoBin == [present |-> FALSE, mtime |-> 0, fmt |-> TRUE, vers |-> [f \in Files |-> 0], sver |-> 0]
Init == /\ now = 5 /\ mtime = [f \in Files |-> CASE f = "A" -> 1 [] f = "B" -> 2 [] f = "H" -> 3 [] f = "S" -> 4 [] f = "G" -> 0]
        /\ ver = [f \in Files |-> 1] /\ bin = [p \in Progs |-> NoBin] /\ bootS = 1 /\ saveB \in BOOLEAN /\ stale = FALSE

Edit(f)  == now' = now + 1 /\ mtime' = [mtime EXCEPT ![f] = now] /\ ver' = [ver EXCEPT ![f] = @ + 1] /\ UNCHANGED <<bin, bootS, saveB, stale>>
Touch(f) == now' = now + 1 /\ mtime' = [mtime EXCEPT ![f] = now] /\ UNCHANGED <<ver, bin, bootS, saveB, stale>>
Restart  == bootS' = ver["S"] /\ UNCHANGED <<now, mtime, ver, bin, saveB, stale>>
OldFormat(p) == bin[p].present /\ bin' = [bin EXCEPT ![p].fmt = FALSE] /\ UNCHANGED <<now, mtime, ver, bootS, saveB, stale>>

\* may the binary of q be used, given the binaries b as they are at that moment?
Allowed(q, b) ==
  /\ b[q].present /\ b[q].fmt /\ b[q].sver = bootS
  /\ \A f \in Src(q) : mtime[f] < b[q].mtime
  /\ \A i \in Inh(q) : /\ \A f \in Src(i) : mtime[f] < b[q].mtime        \* the inherited program's source AND what it includes
                        /\ (b[i].present => b[i].mtime <= b[q].mtime)

\* what a program embodies: its sources, and (through the layout it was linked against) everything its inherited programs embody
Deps(q) == Src(q) \cup Inh(q) \cup UNION {Src(i) : i \in Inh(q)}
Cur(q)  == [f \in Files |-> IF f \in Deps(q) THEN ver[f] ELSE 0]
Compiled(q) == IF q = "B" /\ ~saveB THEN bin[q]      \* no #pragma save_binary: nothing is written
               ELSE [present |-> TRUE, mtime |-> now, fmt |-> TRUE, vers |-> Cur(q), sver |-> bootS]

\* Load of the programs in qs (a sequence, inherited first); used : q -> BOOLEAN is the driver's decision
AfterLoad(qs, used) ==
  LET b1 == IF Len(qs) >= 1 /\ ~used[qs[1]] THEN [bin EXCEPT ![qs[1]] = Compiled(qs[1])] ELSE bin
      b2 == IF Len(qs) >= 2 /\ ~used[qs[2]] THEN [b1 EXCEPT ![qs[2]] = Compiled(qs[2])] ELSE b1
  IN <<b1, b2>>
Load(p, used) ==
  LET qs == IF p = "A" THEN <<"B", "A">> ELSE <<"B">>
      bs == AfterLoad(qs, used)
  IN /\ used[qs[1]] => Allowed(qs[1], bin)
     /\ (Len(qs) >= 2 /\ used[qs[2]]) => Allowed(qs[2], bs[1])
     /\ bin' = bs[2]
     /\ stale' = (stale \/ \E k \in DOMAIN qs : used[qs[k]] /\ (bin[qs[k]].vers # Cur(qs[k]) \/ bin[qs[k]].sver # bootS))
     /\ now' = now + 1
     /\ UNCHANGED <<mtime, ver, bootS, saveB>>

NeverStale == ~stale
=============================================================================
