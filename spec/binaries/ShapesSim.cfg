SPECIFICATION Spec
CONSTANTS Feats = {"strswitch", "intswitch", "inherit", "include", "class", "funlit", "savetypes", "ginit", "varargs", "floats", "modifiers", "manyfuncs", "manystrings", "nestedswitch"} Sizes = {1, 2, 3, 4, 7, 9, 17, 23, 40, 60} MaxFeats = 3 Sim = TRUE
INVARIANT Emit
CHECK_DEADLOCK FALSE
