SPECIFICATION TraceSpec
CONSTRAINT Track
POSTCONDITION Accepted
INVARIANT NeverStale
CHECK_DEADLOCK FALSE
