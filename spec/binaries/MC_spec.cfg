SPECIFICATION GSpec
CONSTANTS MaxLen = 6 Sim = FALSE UseRule = "spec" WithS = TRUE
INVARIANT NeverStale
CHECK_DEADLOCK FALSE
