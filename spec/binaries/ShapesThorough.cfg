SPECIFICATION Spec
CONSTANTS Feats = {"strswitch", "intswitch", "inherit", "include", "class", "funlit", "savetypes", "ginit", "varargs", "floats", "modifiers", "manyfuncs", "manystrings", "nestedswitch"} Sizes = {1, 2, 4, 9, 23, 60} MaxFeats = 3 Sim = FALSE
INVARIANT Emit
CHECK_DEADLOCK FALSE
