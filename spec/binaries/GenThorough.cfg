SPECIFICATION GSpec
CONSTANTS MaxLen = 6 Sim = FALSE UseRule = "spec" WithS = FALSE
INVARIANT NeverStale Emit
CHECK_DEADLOCK FALSE
