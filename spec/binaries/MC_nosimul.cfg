SPECIFICATION GSpec
CONSTANTS MaxLen = 6 Sim = FALSE UseRule = "nosimul" WithS = TRUE
INVARIANT NeverStale
CHECK_DEADLOCK FALSE
