SPECIFICATION GSpec
CONSTANTS MaxLen = 5 Sim = FALSE UseRule = "nosimul" WithS = TRUE
INVARIANT NeverStale
CHECK_DEADLOCK FALSE
