SPECIFICATION GSpec
CONSTANTS MaxLen = 5 Sim = FALSE UseRule = "spec" WithS = TRUE
INVARIANT NeverStale Emit
CHECK_DEADLOCK FALSE
