------------------------------- MODULE BinGen -------------------------------
(* P1 + P2 for C17 (staleness): explores Binaries with a driver that uses a binary WHENEVER it is allowed
   (UseRule = "spec") or under a weakened rule (the mutants: sensitivity of the model), checks NeverStale
   and prints every history up to the bound.                                                            *)
EXTENDS Binaries, Json
CONSTANTS MaxLen, Sim, UseRule, WithS
VARIABLES hist
gvars == <<vars, hist>>
Pick(S) == IF Sim THEN {RandomElement(S)} ELSE S
Log(r) == hist' = Append(hist, r)
More == Len(hist) < MaxLen

\* what the modelled driver does
Use(q, b) ==
  CASE UseRule = "spec" -> Allowed(q, b)
    [] UseRule = "noinclude" -> /\ b[q].present /\ b[q].fmt /\ b[q].sver = bootS /\ mtime[q] < b[q].mtime
                                /\ \A i \in Inh(q) : (\A f \in Src(i) : mtime[f] < b[q].mtime) /\ (b[i].present => b[i].mtime <= b[q].mtime)
    [] UseRule = "driver" -> /\ b[q].present /\ b[q].fmt /\ b[q].sver = bootS            \* what load_binary() checks: the inherited
                             /\ \A f \in Src(q) : mtime[f] < b[q].mtime                  \* program's source file and binary, not its includes
                             /\ \A i \in Inh(q) : mtime[i] < b[q].mtime /\ (b[i].present => b[i].mtime <= b[q].mtime)
    [] UseRule = "noinheritbin" -> /\ b[q].present /\ b[q].fmt /\ b[q].sver = bootS
                                   /\ \A f \in Src(q) : mtime[f] < b[q].mtime /\ \A i \in Inh(q) : mtime[i] < b[q].mtime
    [] UseRule = "nosimul" -> /\ b[q].present /\ b[q].fmt
                              /\ \A f \in Src(q) : mtime[f] < b[q].mtime
                              /\ \A i \in Inh(q) : (\A f \in Src(i) : mtime[f] < b[q].mtime) /\ (b[i].present => b[i].mtime <= b[q].mtime)

GLoad(p) ==
  LET uB == Use("B", bin)
      b1 == IF uB THEN bin ELSE [bin EXCEPT !["B"] = Compiled("B")]
      uA == Use("A", b1)
      used == [q \in Progs |-> IF q = "B" THEN uB ELSE (p = "A" /\ uA)]
      b2 == IF p = "A" /\ ~uA THEN [b1 EXCEPT !["A"] = Compiled("A")] ELSE b1
  IN /\ bin' = b2
     /\ stale' = (stale \/ (uB /\ (bin["B"].vers # Cur("B") \/ bin["B"].sver # bootS))
                        \/ (p = "A" /\ uA /\ (bin["A"].vers # Cur("A") \/ bin["A"].sver # bootS)))
     /\ now' = now + 1 /\ UNCHANGED <<mtime, ver, bootS, saveB>>
     /\ Log([a |-> "load", p |-> p])

FilesG == IF WithS THEN Files ELSE Files \ {"S"}
GNext ==
  \/ /\ More /\ \E f \in Pick(FilesG) : Edit(f) /\ Log([a |-> "edit", f |-> f])
  \/ /\ More /\ \E f \in Pick(FilesG) : Touch(f) /\ Log([a |-> "touch", f |-> f])
  \/ /\ More /\ WithS /\ Restart /\ Log([a |-> "restart"])
  \/ /\ More /\ \E p \in Pick(Progs) : OldFormat(p) /\ Log([a |-> "oldformat", p |-> p])
  \/ /\ More /\ \E p \in Pick(Progs) : GLoad(p)
  \/ /\ ~More /\ UNCHANGED gvars
GInit == Init /\ hist = <<>>
GSpec == GInit /\ [][GNext]_gvars
Useful == \E i \in 1..Len(hist) : hist[i].a = "load"
Emit == (Len(hist) = MaxLen /\ hist[MaxLen].a = "load" /\ hist[1].a = "load") => PrintT(<<"@@B", ToJson([saveB |-> saveB, h |-> hist])>>)
=============================================================================
