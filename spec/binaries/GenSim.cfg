SPECIFICATION GSpec
CONSTANTS MaxLen = 10 Sim = TRUE UseRule = "spec" WithS = FALSE
INVARIANT NeverStale Emit
CHECK_DEADLOCK FALSE
