----------------------------- MODULE EvalBudget -----------------------------
(* Abstract specification of evaluation limits (property C04).

   Every evaluation the driver starts is charged per executed instruction; `ticks` is the
   number of instructions the interpreter executed between two polls (H1 counter).
     - ticks never exceed the configured evaluation cost plus a fixed allowance for the error
       report (the master's error_handler runs on a fresh budget);
     - an evaluation ends in one of: normal completion, an ordinary error, or a limit error
       (cost / call depth / value stack) that was reported at driver level - a limit error is
       never the value a catch yields, and control always returns to the driver;
     - every value an operator or efun builds respects the configured maximum size for its
       kind (array, mapping, buffer, string).                                              *)
EXTENDS Integers, Sequences, FiniteSets

CONSTANTS Allowance     \* instructions granted to the error report / command dispatch

VARIABLES maxEval, limits, inEval, limitHit, caughtLimit
vars == <<maxEval, limits, inEval, limitHit, caughtLimit>>

Init == maxEval = 0 /\ limits = [array |-> 0, mapping |-> 0, buffer |-> 0, string |-> 0]
        /\ inEval = FALSE /\ limitHit = FALSE /\ caughtLimit = FALSE

Config(me, la, lm, lb, ls) ==
  /\ maxEval' = me /\ limits' = [array |-> la, mapping |-> lm, buffer |-> lb, string |-> ls]
  /\ UNCHANGED <<inEval, limitHit, caughtLimit>>

Begin == inEval' = TRUE /\ limitHit' = FALSE /\ caughtLimit' = FALSE /\ UNCHANGED <<maxEval, limits>>

\* a catch returned; isLimit = the value it yielded is a limit error's message
CatchYield(isLimit) == /\ inEval /\ ~isLimit            \* "cannot be swallowed"
                       /\ UNCHANGED vars

\* a limit error arrived at driver level
LimitReported == /\ limitHit' = TRUE /\ UNCHANGED <<maxEval, limits, inEval, caughtLimit>>

\* the poll after the evaluation: ticks executed since the poll before
Done(ticks, completed) ==
  /\ inEval
  /\ ticks <= maxEval + Allowance
  /\ completed \/ limitHit \/ TRUE     \* an ordinary error may also have ended it
  /\ inEval' = FALSE
  /\ UNCHANGED <<maxEval, limits, limitHit, caughtLimit>>

\* a value of `kind` and `size` was obtained from a constructor
Built(kind, size) == /\ size <= limits[kind] /\ UNCHANGED vars
=============================================================================
