---------------------------- MODULE EvalBudgetImpl ----------------------------
(* Implementation-shaped model of the evaluation budget and of catch (src/interpret.c
   eval_instruction, src/frame.c do_catch, src/error_context.c pop_context/error_handler):
     if (!--eval_cost) { set ES_MAX_EVAL_COST; eval_cost = MAX; error }
   do_catch: restore_context; if the limit state is set: pop_context (which clears the state),
   [Fixed: set the state again], re-raise; error_handler at a driver-level context
   [Fixed: clears the state].  A program is a nest of catch regions around an endless loop,
   followed by more work after each catch.
   Invariants: the instructions executed in one evaluation never exceed Max + Work, and a catch
   never completes normally with a limit error as its value (the evaluation ends at the driver). *)
EXTENDS Integers, Sequences, FiniteSets, TLC
CONSTANTS Max, Nest, Work, Fixed
VARIABLES cost, es, depth, mode, ticks, after, swallowed, staleAtDriver
vars == <<cost, es, depth, mode, ticks, after, swallowed, staleAtDriver>>
\* depth = number of active catch contexts; mode: "loop" (inside the endless loop), "unwind", "after" (code after a catch), "driver"
Init == cost = Max /\ es = FALSE /\ depth \in 0 .. Nest /\ mode = "loop" /\ ticks = 0 /\ after = 0
        /\ swallowed = FALSE /\ staleAtDriver = FALSE
Step ==   \* one instruction of the loop
  /\ mode = "loop"
  /\ ticks' = ticks + 1
  /\ IF cost - 1 = 0 THEN /\ es' = TRUE /\ cost' = Max /\ mode' = "unwind"
                     ELSE /\ cost' = cost - 1 /\ es' = es /\ mode' = "loop"
  /\ UNCHANGED <<depth, after, swallowed, staleAtDriver>>
Unwind ==  \* error(): longjmp to the innermost context
  /\ mode = "unwind"
  /\ IF depth = 0
     THEN /\ mode' = "driver" /\ es' = (IF Fixed THEN FALSE ELSE es) /\ staleAtDriver' = (IF Fixed THEN FALSE ELSE es)
          /\ UNCHANGED <<depth, swallowed>>
     ELSE \* do_catch of the innermost catch
          /\ depth' = depth - 1
          /\ IF es THEN /\ es' = Fixed            \* pop_context clears; the fix sets it again
                        /\ mode' = "unwind" /\ swallowed' = swallowed
                   ELSE /\ es' = es /\ mode' = "after" /\ swallowed' = TRUE   \* the catch completed with the error as value
          /\ staleAtDriver' = staleAtDriver
  /\ UNCHANGED <<cost, ticks, after>>
AfterCatch ==  \* the program goes on after a catch that swallowed the error: loops again
  /\ mode = "after" /\ after < Work
  /\ after' = after + 1 /\ mode' = "loop"
  /\ UNCHANGED <<cost, es, depth, ticks, swallowed, staleAtDriver>>
Next == Step \/ Unwind \/ AfterCatch
Spec == Init /\ [][Next]_vars
Bounded == ticks <= Max + 1
NeverSwallowed == ~swallowed
NoStaleState == ~staleAtDriver
=============================================================================
