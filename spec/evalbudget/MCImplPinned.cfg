SPECIFICATION Spec
CONSTANTS Max = 6
  Nest = 3
  Work = 2
  Fixed = FALSE
INVARIANT Bounded
INVARIANT NeverSwallowed
INVARIANT NoStaleState
CHECK_DEADLOCK FALSE
