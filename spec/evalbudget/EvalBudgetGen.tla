---------------------------- MODULE EvalBudgetGen ----------------------------
(* P2 for C04: program shapes (loop / recursion kind x catch nesting x what the handler does next x
   evaluation-cost setting) and the constructor grid (constructor x requested size).          *)
EXTENDS Integers, Sequences, FiniteSets, TLC, Json
CONSTANTS Loops, Nests, Nexts, Costs, Ctors, Sizes, Sim
VARIABLES item, done
gvars == <<item, done>>
Pick(S) == IF Sim THEN (IF S = {} THEN {} ELSE {RandomElement(S)}) ELSE S
GInit == item = <<>> /\ done = FALSE
GNext == \/ /\ ~done
            /\ \/ \E lp \in Pick(Loops), n \in Pick(Nests), x \in Pick(Nexts), c \in Pick(Costs) :
                    item' = [t |-> "budget", loop |-> lp, nest |-> n, next |-> x, cost |-> c]
               \/ \E k \in Pick(Ctors), s \in Pick(Sizes) : item' = [t |-> "size", ctor |-> k, size |-> s]
            /\ done' = TRUE
         \/ done /\ UNCHANGED gvars
GSpec == GInit /\ [][GNext]_gvars
Emit == done => PrintT(<<"@@B", ToJson(item)>>)
=============================================================================
