---------------------------- MODULE EvalBudgetGen ----------------------------
(* P2 for C04: program shapes (loop / recursion kind x catch nesting x what the handler does next x
   evaluation-cost setting) and the constructor grid (constructor x requested size).          *)
EXTENDS Integers, Sequences, FiniteSets, TLC, Json
CONSTANTS Loops, Nests, Nexts, Costs, Pads, Ctors, Sizes, Sim
VARIABLES item, done
gvars == <<item, done>>
Pick(S) == IF Sim THEN (IF S = {} THEN {} ELSE {RandomElement(S)}) ELSE S
GInit == item = <<>> /\ done = FALSE
GNext == \/ /\ ~done
            \* pad: extra call frames below the recursion, so that every kind of frame (plain, function pointer, catch)
            \* gets to be the one that does not fit into MaxCallDepth
            /\ \/ \E lp \in Pick(Loops), n \in Pick(Nests), x \in Pick(Nexts), c \in Pick(Costs) :
                    \E p \in Pick(IF lp \in {"rec", "mutual", "recfp", "recfunc", "reccb", "recother"} THEN Pads ELSE {0}) :
                    item' = [t |-> "budget", loop |-> lp, nest |-> n, next |-> x, cost |-> c, pad |-> p]
               \/ \E k \in Pick(Ctors), s \in Pick(Sizes) : item' = [t |-> "size", ctor |-> k, size |-> s]
            /\ done' = TRUE
         \/ done /\ UNCHANGED gvars
GSpec == GInit /\ [][GNext]_gvars
Emit == done => PrintT(<<"@@B", ToJson(item)>>)
=============================================================================
