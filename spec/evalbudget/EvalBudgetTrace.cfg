SPECIFICATION TraceSpec
CONSTANT Allowance = 10000
CONSTRAINT Track
POSTCONDITION Accepted
CHECK_DEADLOCK FALSE
