SPECIFICATION GSpec
CONSTANTS Loops = {"while", "for", "dowhile", "whiledec", "rec", "mutual", "recfp", "recfunc", "reccb", "recother", "bigargs", "bigcallother", "bigbound", "foreach"}
  Nests = {0, 1, 2, 3}
  Nexts = {"ret", "loop", "recurse"}
  Costs = {5000, 30000}
  Pads = {0, 1, 2, 3, 4, 5}
  Ctors = {"arr_addeq_self", "arr_add_self", "arr_doubling", "str_addeq_self", "str_doubling", "map_addeq_self", "buf_addeq_self", "allocate", "arr_add", "arr_addeq", "explode", "keys", "values", "map_array", "arr_mult", "allocate_mapping", "map_add", "map_addeq", "map_insert", "map_mapping", "allocate_buffer", "buf_add", "str_add", "str_addeq", "repeat_string", "sprintf_pad", "implode", "replace_string", "str_intadd", "arr_range_assign", "unique_array", "filter", "sort", "read_file", "upper", "str_mult", "unique_mapping", "str_range_assign", "str_range_assign_v", "str_range_insert", "explode_chars", "filter_mapping", "replace_skip", "replace_skip2"}
  Sizes = {"lim-1", "lim", "lim+1", "2lim"}
  Sim = FALSE
INVARIANT Emit
CHECK_DEADLOCK FALSE
