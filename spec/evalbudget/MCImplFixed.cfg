SPECIFICATION Spec
CONSTANTS Max = 6
  Nest = 3
  Work = 2
  Fixed = TRUE
INVARIANT Bounded
INVARIANT NeverSwallowed
INVARIANT NoStaleState
CHECK_DEADLOCK FALSE
