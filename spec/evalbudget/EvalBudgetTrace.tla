--------------------------- MODULE EvalBudgetTrace ---------------------------
EXTENDS EvalBudget, Json, IOUtils, TLC
T == ndJsonDeserialize(IOEnv.TRACE)
VARIABLE l
tvars == <<vars, l>>
Ev(name) == l <= Len(T) /\ T[l].e = name /\ l' = l + 1
R == T[l]
TReset == Ev("Reset") /\ Config(R.maxeval, R.la, R.lm, R.lb, R.ls)
TBegin == Ev("Begin") /\ Begin
TCatch == Ev("CatchYield") /\ CatchYield(R.limit)
TLim == Ev("LimitReported") /\ LimitReported
TDone == Ev("Done") /\ Done(R.ticks, R.completed)
TBuilt == Ev("Built") /\ Built(R.kind, R.size)
TraceNext == TReset \/ TBegin \/ TCatch \/ TLim \/ TDone \/ TBuilt
TraceInit == Init /\ l = 1
TraceSpec == TraceInit /\ [][TraceNext]_tvars
ASSUME TLCSet(1, 0)
Track == TLCSet(1, IF TLCGet(1) < l THEN l ELSE TLCGet(1))
Accepted == IF TLCGet(1) = Len(T) + 1 THEN TRUE
            ELSE PrintT(<<"@@MATCHED", TLCGet(1)>>) /\ FALSE
=============================================================================
