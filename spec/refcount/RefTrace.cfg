SPECIFICATION TraceSpec
CONSTANTS MaxV = 14 Objs = {"o1", "o2"} Slots = {0, 1, 2}
CONSTRAINT Track
POSTCONDITION Accepted
INVARIANT CountsExact NothingDangling
CHECK_DEADLOCK FALSE
