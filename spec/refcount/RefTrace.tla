------------------------------ MODULE RefTrace ------------------------------
(* P3 for C06: after every operation of a history the driver's statistics (arrays, mappings, mapping nodes,
   relative to the start of the scenario) must equal what RefCount says is alive - no leak, no early release -
   and at the end, with every object destructed, everything must be gone unless the history built a cycle. *)
EXTENDS RefCount, Json, IOUtils
T == ndJsonDeserialize(IOEnv.TRACE)
VARIABLE l
tvars == <<vars, l>>
Ev(name) == l <= Len(T) /\ T[l].e = name /\ l' = l + 1
R == T[l]
TReset == /\ Ev("Reset")
          /\ kind' = [v \in Ids |-> "none"] /\ child' = [v \in Ids |-> 0] /\ rc' = [v \in Ids |-> 0]
          /\ slot' = [x \in Objs \X Slots |-> 0] /\ couts' = [o \in Objs |-> <<>>] /\ alive' = [o \in Objs |-> TRUE]
          /\ inp' = <<>> /\ conn' = TRUE /\ bulk' = [o \in Objs |-> <<>>]
TOp == /\ Ev("Op")
       /\ CASE R.op = "new" -> NewVal(R.o, R.i, R.k)
            [] R.op = "copy" -> Copy(R.o, R.i, R.p, R.j)
            [] R.op = "clear" -> Clear(R.o, R.i)
            [] R.op = "put" -> Put(R.o, R.i, R.p, R.j)
            [] R.op = "putr" -> PutR(R.o, R.i, R.p, R.j)
            [] R.op = "fp" -> NewFp(R.o, R.i, R.j)
            [] R.op = "callout" -> CallOut(R.o, R.i)
            [] R.op = "rmco" -> \E k \in 1..2 : RmCallOut(R.o, k)
            [] R.op = "many" -> Many(R.o, R.i)
            [] R.op = "clones" -> ManyClones(R.o)
            [] R.op = "unmany" -> Unmany(R.o)
            [] R.op = "inp" -> InputTo(R.o, R.i)
            [] R.op = "line" -> InputLine
            [] R.op = "drop" -> Drop
            [] R.op = "err" -> Err(R.o, R.i)
            [] R.op = "use" -> Use(R.o, R.i)
            [] R.op = "dest" -> Dest(R.o)
            [] R.op = "expire" -> Expire
\* the counters observed after the operation
TStats == /\ Ev("Stats") /\ R.arrays = StatArrays /\ R.maps = StatMaps /\ R.nodes = StatMaps
          /\ UNCHANGED vars
\* end of the scenario: every object destructed; what is still allocated is exactly the unreachable cycles
TEnd == /\ Ev("Final") /\ \A o \in Objs : ~alive[o]
        /\ R.arrays = StatArrays /\ R.maps = StatMaps
        /\ (R.clean <=> Garbage = {})             \* clean = every counter back at its starting value and no leak report
        /\ UNCHANGED vars
TraceNext == TReset \/ TOp \/ TStats \/ TEnd
TraceInit == Init /\ l = 1
TraceSpec == TraceInit /\ [][TraceNext]_tvars
ASSUME TLCSet(1, 0)
Track == TLCSet(1, IF TLCGet(1) < l THEN l ELSE TLCGet(1))
Accepted == IF TLCGet(1) = Len(T) + 1 THEN TRUE
            ELSE PrintT(<<"@@MATCHED", TLCGet(1)>>) /\ FALSE
=============================================================================
