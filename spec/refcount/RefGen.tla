------------------------------- MODULE RefGen -------------------------------
(* P1 + P2 for C06: explores RefCount (CountsExact, NothingDangling on every state) and prints operation
   histories; each history ends with the destruction of every object still alive.                       *)
EXTENDS RefCount, Json
CONSTANTS MaxLen, Sim
VARIABLES hist
gvars == <<vars, hist>>
Pick(S) == IF Sim THEN {RandomElement(S)} ELSE S
Log(r) == hist' = Append(hist, r)
More == Len(hist) < MaxLen
GNext ==
  \/ /\ More /\ \E o \in Pick(Objs), i \in Pick(Slots), k \in Pick({"arr", "map"}) : NewVal(o, i, k) /\ Log([op |-> "new", o |-> o, i |-> i, k |-> k])
  \/ /\ More /\ \E o \in Pick(Objs), i \in Pick(Slots), p \in Pick(Objs), j \in Pick(Slots) :
          /\ <<o, i>> # <<p, j>> /\ slot[<<o, i>>] # 0 /\ Copy(o, i, p, j) /\ Log([op |-> "copy", o |-> o, i |-> i, p |-> p, j |-> j])
  \/ /\ More /\ \E o \in Pick(Objs), i \in Pick(Slots) : slot[<<o, i>>] # 0 /\ Clear(o, i) /\ Log([op |-> "clear", o |-> o, i |-> i])
  \/ /\ More /\ \E o \in Pick(Objs), i \in Pick(Slots), p \in Pick(Objs), j \in Pick(Slots) :
          /\ slot[<<o, i>>] # 0 /\ Put(o, i, p, j) /\ Log([op |-> "put", o |-> o, i |-> i, p |-> p, j |-> j])
  \/ /\ More /\ \E o \in Pick(Objs), i \in Pick(Slots), p \in Pick(Objs), j \in Pick(Slots), m \in Pick(1..3) :
          /\ slot[<<o, i>>] # 0 /\ PutR(o, i, p, j) /\ Log([op |-> "putr", o |-> o, i |-> i, p |-> p, j |-> j, mode |-> m])
  \/ /\ More /\ \E o \in Pick(Objs), i \in Pick(Slots), j \in Pick(Slots) : NewFp(o, i, j) /\ Log([op |-> "fp", o |-> o, i |-> i, j |-> j])
  \/ /\ More /\ \E o \in Pick(Objs), i \in Pick(Slots) : slot[<<o, i>>] # 0 /\ CallOut(o, i) /\ Log([op |-> "callout", o |-> o, i |-> i])
  \/ /\ More /\ \E o \in Pick(Objs), k \in Pick({1, 2}), by \in Pick({"name", "handle"}) : RmCallOut(o, k) /\ Log([op |-> "rmco", o |-> o, by |-> by])
  \/ /\ More /\ \E o \in Pick(Objs), i \in Pick(Slots) : slot[<<o, i>>] # 0 /\ Many(o, i) /\ Log([op |-> "many", o |-> o, i |-> i])
  \/ /\ More /\ (\A p \in Objs : bulk[p] = <<>>) /\ (\A k \in 1..Len(hist) : hist[k].op # "clones")       \* (once per history: 70000 objects take seconds)
     /\ \E o \in Pick(Objs) : ManyClones(o) /\ Log([op |-> "clones", o |-> o])
  \/ /\ More /\ \E o \in Pick(Objs) : Unmany(o) /\ Log([op |-> "unmany", o |-> o])
  \/ /\ More /\ \E o \in Pick(Objs), i \in Pick(Slots), f \in Pick({"name", "fp"}) : InputTo(o, i) /\ Log([op |-> "inp", o |-> o, i |-> i, form |-> f])
  \/ /\ More /\ \E r \in Pick({"ok", "err"}) : InputLine /\ Log([op |-> "line", o |-> inp[1], res |-> r])
  \/ /\ More /\ inp # <<>> /\ Drop /\ Log([op |-> "drop", o |-> inp[1]])
  \/ /\ More /\ \E o \in Pick(Objs), i \in Pick(Slots), e \in Pick(1..12) : slot[<<o, i>>] # 0 /\ Err(o, i) /\ Log([op |-> "err", o |-> o, i |-> i, kind |-> e])
  \/ /\ More /\ \E o \in Pick(Objs), i \in Pick(Slots), e \in Pick(1..16) : slot[<<o, i>>] # 0 /\ Use(o, i) /\ Log([op |-> "use", o |-> o, i |-> i, kind |-> e])
  \/ /\ More /\ \E o \in Pick(Objs) : Dest(o) /\ Log([op |-> "dest", o |-> o])
  \/ /\ ~More /\ UNCHANGED gvars
GInit == Init /\ hist = <<>>
GSpec == GInit /\ [][GNext]_gvars
Interesting == \E k \in 1..Len(hist) : hist[k].op \in {"copy", "put", "putr", "fp", "callout", "inp", "many", "clones", "use"}
Emit == (Len(hist) = MaxLen /\ Interesting) => PrintT(<<"@@B", ToJson(hist)>>)
=============================================================================
