------------------------------ MODULE RefCount ------------------------------
(* Reference-counted LPC values (property C06).

   Heap values: arrays, mappings and function pointers; each may hold one other value (array: element 0,
   mapping: the value under key "k", function pointer: its bound argument).  Holders of references:
   global variables (slots) of scenario objects, containers, function pointers, pending call_outs and the pending
   input_to of the connected user (its callback's bound argument / its carry-over argument).
   A value lives exactly as long as its reference count is positive; when the count reaches zero it is
   released at once and drops the reference it holds.  (Values that hold each other in a cycle therefore
   never go away - see Garbage.)

   The driver's statistics are functions of the heap:
     arrays   = #arrays + #function pointers (their bound-argument array) + #pending call_outs (their argument array)
                + 1 for a pending input_to (bound-argument array of its function pointer, or its carry-over array)
     mappings = #mappings,  mapping nodes = #mappings (one key each)                                         *)
EXTENDS Integers, Sequences, FiniteSets, TLC

CONSTANTS MaxV, Objs, Slots
Ids == 1..MaxV
\* "many holders": one value stored in BulkN further places (BulkArrays arrays of 10000 slots) - more than a 16-bit count holds
BulkN == 70000
BulkArrays == 8     \* the holder array itself + 7 arrays of 10000 slots

VARIABLES kind,    \* Ids -> "none" (never allocated / released) | "arr" | "map" | "fp"
          child,   \* Ids -> 0 | Ids
          rc,      \* Ids -> reference count
          slot,    \* Objs \X Slots -> 0 | Ids
          couts,   \* Objs -> sequence of (0 | Ids): arguments of the pending call_outs, oldest first
          alive,   \* Objs -> BOOLEAN
          bulk,    \* Objs -> <<>> or <<v>>: the object keeps BulkN references to value v (0 | Ids) in its holder arrays
          inp,     \* <<>> (nothing pending) or <<owner, value>>: the user's pending input_to, its callback in object owner holding value (0 | Ids)
          conn     \* the user is connected
vars == <<kind, child, rc, slot, couts, alive, bulk, inp, conn>>

Init == /\ kind = [v \in Ids |-> "none"] /\ child = [v \in Ids |-> 0] /\ rc = [v \in Ids |-> 0]
        /\ slot = [x \in Objs \X Slots |-> 0] /\ couts = [o \in Objs |-> <<>>] /\ alive = [o \in Objs |-> TRUE]
        /\ inp = <<>> /\ conn = TRUE /\ bulk = [o \in Objs |-> <<>>]

Fresh == IF \E v \in Ids : kind[v] = "none" /\ rc[v] = 0 THEN CHOOSE v \in Ids : kind[v] = "none" /\ \A w \in Ids : (kind[w] = "none") => v <= w ELSE 0

\* heap = [kind, child, rc]; take one reference away from v (0 = not a heap value), releasing transitively
RECURSIVE Dec(_, _)
Dec(h, v) ==
  IF v = 0 THEN h
  ELSE IF h.rc[v] > 1 THEN [h EXCEPT !.rc[v] = @ - 1]
  ELSE Dec([h EXCEPT !.rc[v] = 0, !.kind[v] = "none", !.child[v] = 0], h.child[v])
Inc(h, v) == IF v = 0 THEN h ELSE [h EXCEPT !.rc[v] = @ + 1]
H == [kind |-> kind, child |-> child, rc |-> rc]
SetH(h) == kind' = h.kind /\ child' = h.child /\ rc' = h.rc

\* n references at once
IncN(h, v, n) == IF v = 0 THEN h ELSE [h EXCEPT !.rc[v] = @ + n]
DecN(h, v, n) == IF v = 0 THEN h ELSE IF h.rc[v] > n THEN [h EXCEPT !.rc[v] = @ - n] ELSE Dec([h EXCEPT !.rc[v] = 1], v)
\* o.g[i] = v   (v already counted for the new holder by the caller where needed)
Assign(h, o, i, v) == Dec(Inc(h, v), slot[<<o, i>>])

NewVal(o, i, k) ==          \* g[i] = ({ 0, 0 })  /  ([ "k" : 0 ])
  /\ alive[o] /\ Fresh # 0
  /\ LET v == Fresh
         h1 == [H EXCEPT !.kind[v] = k, !.child[v] = 0, !.rc[v] = 0]
     IN SetH(Assign(h1, o, i, v)) /\ slot' = [slot EXCEPT ![<<o, i>>] = v]
  /\ UNCHANGED <<couts, alive, bulk, inp, conn>>
Copy(o, i, p, j) ==         \* p.g[j] = o.g[i]
  /\ alive[o] /\ alive[p]
  /\ SetH(Assign(H, p, j, slot[<<o, i>>])) /\ slot' = [slot EXCEPT ![<<p, j>>] = slot[<<o, i>>]]
  /\ UNCHANGED <<couts, alive, bulk, inp, conn>>
Clear(o, i) ==              \* g[i] = 0
  /\ alive[o] /\ SetH(Dec(H, slot[<<o, i>>])) /\ slot' = [slot EXCEPT ![<<o, i>>] = 0]
  /\ UNCHANGED <<couts, alive, bulk, inp, conn>>
Put(o, i, p, j) ==          \* p.g[j][0] = o.g[i]   /   p.g[j]["k"] = o.g[i]
  /\ alive[o] /\ alive[p] /\ slot[<<p, j>>] # 0 /\ kind[slot[<<p, j>>]] \in {"arr", "map"}
  /\ LET c == slot[<<p, j>>]  v == slot[<<o, i>>]
         h1 == Inc(H, v)
         h2 == [h1 EXCEPT !.child[c] = v]
     IN SetH(Dec(h2, child[c]))
  /\ UNCHANGED <<slot, couts, alive, bulk, inp, conn>>
PutR(o, i, p, j) ==         \* p.g[j][0..0] = ({ o.g[i] })  (range assignment: same effect as Put, on arrays only)
  /\ slot[<<p, j>>] # 0 /\ kind[slot[<<p, j>>]] = "arr" /\ Put(o, i, p, j)
NewFp(o, i, j) ==           \* g[j] = (: cb, g[i] :)
  /\ alive[o] /\ Fresh # 0
  /\ LET v == Fresh  a == slot[<<o, i>>]
         h1 == Inc([H EXCEPT !.kind[v] = "fp", !.child[v] = a, !.rc[v] = 0], a)
     IN SetH(Assign(h1, o, j, v)) /\ slot' = [slot EXCEPT ![<<o, j>>] = v]
  /\ UNCHANGED <<couts, alive, bulk, inp, conn>>
CallOut(o, i) ==            \* call_out("cb", far future, g[i])
  /\ alive[o] /\ Len(couts[o]) < 2
  /\ SetH(Inc(H, slot[<<o, i>>])) /\ couts' = [couts EXCEPT ![o] = Append(@, slot[<<o, i>>])]
  /\ UNCHANGED <<slot, alive, bulk, inp, conn>>
RmCallOut(o, k) ==          \* remove_call_out("cb") or remove_call_out(handle): one of the pending ones (which one is the call_out queue's business, see C10)
  /\ alive[o] /\ k \in 1..Len(couts[o])
  /\ SetH(Dec(H, couts[o][k])) /\ couts' = [couts EXCEPT ![o] = SubSeq(@, 1, k - 1) \o SubSeq(@, k + 1, Len(@))]
  /\ UNCHANGED <<slot, alive, bulk, inp, conn>>
\* o stores g[i] in BulkN further places / drops them again
Many(o, i) == /\ alive[o] /\ bulk[o] = <<>>
              /\ SetH(IncN(H, slot[<<o, i>>], BulkN)) /\ bulk' = [bulk EXCEPT ![o] = <<slot[<<o, i>>]>>]
              /\ UNCHANGED <<slot, couts, alive, inp, conn>>
\* o keeps BulkN clones of one blueprint alive (references to objects, not to a heap value: the blueprint's program is
\* referenced BulkN + 1 times); Unmany destructs them
ManyClones(o) == /\ alive[o] /\ bulk[o] = <<>> /\ bulk' = [bulk EXCEPT ![o] = <<0>>]
                 /\ UNCHANGED <<kind, child, rc, slot, couts, alive, inp, conn>>
Unmany(o) == /\ alive[o] /\ bulk[o] # <<>>
             /\ SetH(DecN(H, bulk[o][1], BulkN)) /\ bulk' = [bulk EXCEPT ![o] = <<>>]
             /\ UNCHANGED <<slot, couts, alive, inp, conn>>
\* the connected user's input_to: input_to("cb", 0, g[i]) (carry-over argument) or input_to((: cb, g[i] :)) (bound argument).
\* Only the first of several calls takes effect.
InputTo(o, i) ==
  /\ alive[o] /\ conn
  /\ IF inp = <<>> THEN SetH(Inc(H, slot[<<o, i>>])) /\ inp' = <<o, slot[<<o, i>>]>>
     ELSE UNCHANGED <<kind, child, rc, inp>>
  /\ UNCHANGED <<slot, couts, alive, bulk, conn>>
\* the user's next line goes to the callback, which returns, raises an error, or cannot run because its object is gone:
\* in every case the pending input_to and what it held are released
InputLine == /\ conn /\ inp # <<>> /\ SetH(Dec(H, inp[2])) /\ inp' = <<>> /\ UNCHANGED <<slot, couts, alive, bulk, conn>>
\* the user disconnects: a pending input_to is dropped
Drop == /\ conn /\ conn' = FALSE /\ inp' = <<>> /\ SetH(IF inp = <<>> THEN H ELSE Dec(H, inp[2])) /\ UNCHANGED <<slot, couts, alive, bulk>>
\* an evaluation that pushes references to g[i] (arguments, a temporary array, an efun callback) and then fails:
\* caught or not, every temporary is dropped again
Err(o, i) == alive[o] /\ UNCHANGED vars
\* an evaluation that only USES g[i] and completes (spreads it as arguments, iterates over it, formats it, uses it as a
\* mapping key, passes it through efun callbacks, ...): when it is over, nothing has changed
Use(o, i) == alive[o] /\ UNCHANGED vars
RECURSIVE DecAll(_, _)
DecAll(h, s) == IF s = <<>> THEN h ELSE DecAll(Dec(h, Head(s)), Tail(s))
SlotSeq(o) == LET RECURSIVE F(_) F(S) == IF S = {} THEN <<>> ELSE LET x == CHOOSE x \in S : TRUE IN <<slot[<<o, x>>]>> \o F(S \ {x}) IN F(Slots)
Dest(o) ==                  \* destruct(o) + the deferred clean-up: its variables are released; its pending call_outs
  /\ alive[o]               \* stay queued (they will not run) and keep their arguments until their time has come
  /\ SetH(DecAll(IF bulk[o] = <<>> THEN H ELSE DecN(H, bulk[o][1], BulkN), SlotSeq(o)))
  /\ slot' = [x \in Objs \X Slots |-> IF x[1] = o THEN 0 ELSE slot[x]]
  /\ bulk' = [bulk EXCEPT ![o] = <<>>]
  /\ alive' = [alive EXCEPT ![o] = FALSE] /\ UNCHANGED <<couts, inp, conn>>
\* time passes beyond every pending call_out: each one runs (a no-op callback) or is dropped, its arguments are released
RECURSIVE AllCouts(_)
AllCouts(O) == IF O = {} THEN <<>> ELSE LET o == CHOOSE o \in O : TRUE IN couts[o] \o AllCouts(O \ {o})
Expire == /\ SetH(DecAll(H, AllCouts(Objs))) /\ couts' = [o \in Objs |-> <<>>] /\ UNCHANGED <<slot, alive, bulk, inp, conn>>

\* ---- what the driver's counters must show
NArr  == Cardinality({v \in Ids : kind[v] = "arr"})
NMap  == Cardinality({v \in Ids : kind[v] = "map"})
NFp   == Cardinality({v \in Ids : kind[v] = "fp"})
NCout == LET RECURSIVE S(_) S(O) == IF O = {} THEN 0 ELSE LET o == CHOOSE o \in O : TRUE IN Len(couts[o]) + S(O \ {o}) IN S(Objs)
StatArrays == NArr + NFp + NCout + (IF inp = <<>> THEN 0 ELSE 1) + BulkArrays * Cardinality({o \in Objs : bulk[o] # <<>>})
StatMaps   == NMap

\* ---- consistency of the model itself
Holders(v) == Cardinality({x \in Objs \X Slots : slot[x] = v}) + Cardinality({w \in Ids : kind[w] # "none" /\ child[w] = v})
              + (IF inp # <<>> /\ inp[2] = v THEN 1 ELSE 0)
              + BulkN * Cardinality({o \in Objs : bulk[o] = <<v>>})
              + LET RECURSIVE C(_) C(O) == IF O = {} THEN 0 ELSE LET o == CHOOSE o \in O : TRUE IN Cardinality({k \in 1..Len(couts[o]) : couts[o][k] = v}) + C(O \ {o}) IN C(Objs)
CountsExact == \A v \in Ids : rc[v] = Holders(v) /\ (kind[v] = "none" <=> rc[v] = 0)
NothingDangling == /\ \A x \in Objs \X Slots : slot[x] # 0 => kind[slot[x]] # "none"
                   /\ \A w \in Ids : (kind[w] # "none" /\ child[w] # 0) => kind[child[w]] # "none"
\* values nobody can reach any more but which are still allocated: cycles
RECURSIVE Reach(_, _)
Reach(S, n) == IF n = 0 THEN S ELSE Reach(S \cup ({child[v] : v \in S} \ {0}), n - 1)
Roots == {slot[x] : x \in Objs \X Slots} \cup UNION {{couts[o][k] : k \in 1..Len(couts[o])} : o \in Objs}
         \cup (IF inp = <<>> THEN {} ELSE {inp[2]}) \cup UNION {IF bulk[o] = <<>> THEN {} ELSE {bulk[o][1]} : o \in Objs}
Garbage == {v \in Ids : kind[v] # "none"} \ Reach(Roots \ {0}, MaxV)
=============================================================================
