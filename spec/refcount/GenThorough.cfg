SPECIFICATION GSpec
CONSTANTS MaxV = 4 Objs = {"o1", "o2"} Slots = {0, 1} MaxLen = 5 Sim = FALSE
INVARIANT CountsExact NothingDangling Emit
CHECK_DEADLOCK FALSE
