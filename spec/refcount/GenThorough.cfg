SPECIFICATION GSpec
CONSTANTS MaxV = 3 Objs = {"o1", "o2"} Slots = {0, 1} MaxLen = 4 Sim = FALSE
INVARIANT CountsExact NothingDangling Emit
CHECK_DEADLOCK FALSE
