SPECIFICATION GSpec
CONSTANTS MaxV = 6 Objs = {"o1", "o2"} Slots = {0, 1, 2} MaxLen = 14 Sim = TRUE
INVARIANT CountsExact NothingDangling Emit
CHECK_DEADLOCK FALSE
