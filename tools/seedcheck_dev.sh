#!/bin/bash
# usage: seedcheck_dev.sh <ID> <property> [check-tier]
# like seedcheck.sh, but the property's check runs against a separate worktree of /repo (VERIF_REPO), so that /repo
# itself is not modified while other runs are using it.  The dev worktree is /tmp/repo_dev (created if missing).
ID=$1; PROP=$2; TIER=${3:-quick}
WT=/tmp/wt_$ID; SD=/tmp/seed_$ID; OUT=/verif/seeded/$ID; DEV=/tmp/repo_dev
mkdir -p $OUT
LOG=$OUT/confirm.log; : > $LOG
cd $WT || exit 2
echo "== build + suite with the change" >> $LOG
cmake -G Ninja -S . -B _b -DCMAKE_BUILD_TYPE=RelWithDebInfo -DGTest_DIR=/root/miniconda/lib/cmake/GTest >/dev/null 2>&1
cmake --build _b -j8 >/dev/null 2>&1 || { echo "BUILD FAILED" >> $LOG; }
ctest --test-dir _b -j8 --timeout 900 2>&1 | grep "tests passed\|tests failed" >> $LOG
echo "== demo with the change (expected: fail)" >> $LOG
( cd $SD/demo && timeout 900 bash ./run.sh $WT $WT/_b ) > $OUT/demo_with.txt 2>&1; echo "demo exit with change: $?" >> $LOG
echo "== demo without the change (expected: pass)" >> $LOG
git -C $WT diff > /tmp/seed_$ID.wt.diff
git -C $WT checkout -- .
cmake --build _b -j8 >/dev/null 2>&1
( cd $SD/demo && timeout 900 bash ./run.sh $WT $WT/_b ) > $OUT/demo_without.txt 2>&1; echo "demo exit without change: $?" >> $LOG
git -C $WT apply /tmp/seed_$ID.wt.diff
rm -rf $WT/_b $WT/_b_demo $WT/_b_asan
cp $SD/patch.diff $OUT/patch.diff
rm -rf $OUT/demo; cp -r $SD/demo $OUT/demo; cp $SD/notes.md $OUT/notes.md 2>/dev/null
echo "== check against a worktree of /repo (HEAD) with the patch" >> $LOG
[ -d $DEV ] || git -C /repo worktree add --detach $DEV HEAD -q
git -C $DEV checkout -q -- . ; git -C $DEV checkout -q --detach main
cd /verif
if git -C $DEV apply --check $OUT/patch.diff 2>>$LOG; then
  git -C $DEV apply $OUT/patch.diff
  VERIF_REPO=$DEV timeout 3000 python3 checks/$(echo $PROP | tr A-Z a-z).py $TIER > $OUT/check_output.txt 2>&1; echo "check exit: $?" >> $LOG
  git -C $DEV checkout -q -- .
else
  echo "PATCH DOES NOT APPLY to current /repo" >> $LOG
fi
grep "VIOLATION\|KNOWN\|BROKEN" $OUT/check_output.txt | head -5 >> $LOG
cat $LOG
