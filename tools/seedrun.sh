#!/bin/bash
# usage: seedrun.sh <ID> <property> [tier]  - apply the stored seeded change to /repo, run the check, undo.
ID=$1; PROP=$2; TIER=${3:-quick}; OUT=/verif/seeded/$ID
cd /verif
if git -C /repo apply --check $OUT/patch.diff 2>/dev/null || git -C /repo apply --check -3 $OUT/patch.diff 2>/dev/null; then
  git -C /repo apply $OUT/patch.diff 2>/dev/null || git -C /repo apply -3 $OUT/patch.diff
  timeout 3000 python3 checks/$(echo $PROP | tr A-Z a-z).py $TIER > $OUT/check_output.txt 2>&1; echo "check exit: $?"
  git -C /repo checkout -- . ; git -C /repo reset -q
else
  echo "PATCH DOES NOT APPLY"
fi
grep "VIOLATION\|KNOWN\|BROKEN" $OUT/check_output.txt | head -4 | cut -c1-250
