#!/usr/bin/env python3
"""write seeded/<id>/meta.json from a check log:  seedmeta.py ID PROP CHECKLOG NEEDS [HISTORY]"""
import json, os, sys
sid, prop, log, needs = sys.argv[1:5]
hist = sys.argv[5] if len(sys.argv) > 5 else "detected at first run"
d = os.path.join(os.path.dirname(os.path.dirname(os.path.abspath(__file__))), "seeded", sid)
lines = [l.rstrip("\n")[:700] for l in open(log, errors="replace")]
viol = [i for i, l in enumerate(lines) if l.startswith("VIOLATION")]
cl = []
for i in viol[:2]:
    cl += lines[i:i + 2]
conf = open(os.path.join(d, "confirm.log"), errors="replace").read() if os.path.exists(os.path.join(d, "confirm.log")) else ""
meta = {"seed": sid, "breaks_property": prop, "needs_to_manifest": needs,
        "author": "independent sub-agent given only the property text and a scratch worktree",
        "confirmed": {"builds_and_repo_suite_passes": "100% tests passed" in conf, "demo_fails_with_change": "demo exit with change: 1" in conf,
                      "demo_passes_without_change": "demo exit without change: 0" in conf},
        "ran": ["tools/seedcheck_dev.sh %s %s quick" % (sid, prop)], "detected_by": "checks/%s.py quick" % prop.lower(),
        "detected": bool(viol), "history": hist, "check_lines": cl}
open(os.path.join(d, "check_output.txt"), "w").write("\n".join(lines[-60:]) + "\n")
json.dump(meta, open(os.path.join(d, "meta.json"), "w"), indent=1)
print(sid, "detected" if viol else "MISSED", meta["confirmed"])
