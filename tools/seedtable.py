#!/usr/bin/env python3
"""rewrites the table of section 5 of DESIGN.md from seeded/*/meta.json"""
import json, glob, re, os
V = os.path.dirname(os.path.dirname(os.path.abspath(__file__)))
rows = ["| seed | what it needs to manifest | outcome against the checks |", "|---|---|---|"]
for f in sorted(glob.glob(os.path.join(V, "seeded", "*", "meta.json"))):
    m = json.load(open(f))
    hist = m.get("history") or ("detected" if m.get("detected") else "MISSED")
    if hist == "detected":
        hist = "caught by %s at the first run" % m.get("detected_by", "the check")
    rows.append("| %s | %s | %s |" % (m["seed"], m["needs_to_manifest"].replace("|", "/"), hist.replace("|", "/")))
p = os.path.join(V, "DESIGN.md")
s = open(p).read()
i = s.index("<!-- SEEDS-BEGIN -->")
j = s.index("<!-- SEEDS-END -->")
s = s[:i] + "<!-- SEEDS-BEGIN -->\n" + "\n".join(rows) + "\n" + s[j:]
open(p, "w").write(s)
print("%d seeds" % (len(rows) - 2))
