#!/usr/bin/env python3
"""line-based ddmin of an LPC source that makes the driver fail while compiling (development aid).
usage: reduce_src.py <file> <substring expected in the sanitizer report / 'sig'>"""
import sys, os, json
sys.path.insert(0, os.path.dirname(os.path.abspath(__file__)))
import vlib, build
work = vlib.Work("reduce")
exe = build.ensure_harness("vdrv", ["vdrv.cpp"])
conf, m = work.mudlib()
want = sys.argv[2]
extra = sys.argv[3:]          # extra files: name=path
n = [0]

def fails(lines):
    n[0] += 1
    src = "".join(lines).encode()
    ops = []
    for x in extra:
        nm, p = x.split("=")
        ops.append("hostwrite tt/%s %s" % (nm, open(p, "rb").read().hex()))
    ops += ["hostwrite tt/t.c %s" % src.hex(), "call /obj/bn comp /tt/t"]
    exs = vlib.run_vdrv(exe, conf, [("t%d" % n[0], ops)], work, tag="run", timeout=20)
    end = exs[0]["end"] or {}
    txt = json.dumps(end)
    return want in txt

lines = open(sys.argv[1], "rb").read().decode(errors="surrogateescape").splitlines(True)
assert fails(lines), "does not fail initially"
k = 2
while len(lines) >= 2:
    chunk = max(1, len(lines) // k)
    reduced = False
    for i in range(0, len(lines), chunk):
        cand = lines[:i] + lines[i + chunk:]
        if cand and fails(cand):
            lines = cand
            k = max(k - 1, 2)
            reduced = True
            break
    if not reduced:
        if chunk == 1:
            break
        k = min(k * 2, len(lines))
sys.stdout.write("".join(lines))
sys.stderr.write("[%d runs]\n" % n[0])
work.cleanup()
