#!/usr/bin/env python3
"""Regenerates /verif/MANIFEST.json from the table below (one entry per claimed property)."""
import json, os
V = "/verif"
NOTE = "virtual time and a scripted reactor/socket layer replace the OS at link time (-Wl,--wrap); the real backend()/interpreter/efuns run unmodified under ASan+UBSan; bounds of models and enumerations are recorded in the evidence file"
TECH = "TLA+ model checking (TLC) + trace validation of the real driver against the abstract spec"
CHECKS = {
 "C10": ("model_checking", "TLC checks the implementation-shaped wheel model (CallOutWheel, C=4) exhaustively against never-early / on-time / time-left invariants; TLC-enumerated input histories (CallOutGen; delays and tick spacings around the real wheel size 32, operations at top level and from inside callbacks) are replayed through the real backend()/call_out() under ASan and every recorded trace is validated by TLC against the abstract specification CallOut.", NOTE, TECH, "DESIGN.md §7 C10"),
 "C11": ("model_checking", "TLC checks HeartBeatImpl (heart_beats[] array, cursor, removal compensation, error path) exhaustively against the strict once-per-interval rules; TLC-enumerated populations x heart_beat scripts x tick/top-level steps (HeartBeatGen) run through the real call_heart_beat() and every trace is validated against the abstract specification HeartBeat (strict where the property speaks, nondeterministic where it is silent).", NOTE, TECH, "DESIGN.md §7 C11"),
 "C12": ("model_checking", "TLC checks CmdTurnImpl (slot table with gaps, HAS_CMD_TURN flags, the static descending cursor of get_user_command, the bounded serve loop) exhaustively for 'nobody with a turn and a command is skipped, nobody served twice'; TLC-enumerated populations/gaps/arrival patterns/error, tick, connect and single-character extras (CmdTurnGen) run through the real backend() with scripted telnet clients, and every trace is validated against the abstract specification CmdTurn (one per user per cycle, FIFO per user, a poll never sleeps on pending commands).", NOTE, TECH, "DESIGN.md §7 C12"),
 "C14": ("model_checking", "TLC checks OutRingImpl (ring indices modulo the buffer size, the CR LF room test, the contiguous-chunk computation, send results all/partial/EWOULDBLOCK/EINTR/EPIPE) exhaustively for 'the socket stream is a prefix of the accepted stream, ring content = accepted minus sent, no CR without its LF'; TLC-enumerated message lengths around the real 4096-byte buffer x LF patterns x send-result plans x flush points (OutRingGen) run through the real add_message()/flush_message() with a scripted send(); the projection compares byte contents and TLC validates the accounting/ordering protocol of every trace against the abstract specification OutRing (tail-only loss, only when full or dead, write interest whenever unsent bytes remain).", NOTE + "; byte-content comparison (prefix matching of the captured socket stream against the generated messages) is done by the projection in checks/c14.py, which is trusted", TECH, "DESIGN.md §7 C14"),
 "C13": ("model_checking", "The reference telnet decoder (TelnetRef) is a fold over the byte stream; TLC checks exhaustively (all token streams up to 4 tokens x all cut positions) that feeding pieces equals feeding the whole and that no negotiation byte reaches a line. TLC-enumerated token streams x segmentations (strict class), malformed/oversized/8-bit robust-class streams, ASCII-port streams and bursts are delivered through a scripted recv() to the real get_user_data()/copy_chars()/get_user_command(); every trace is validated against the abstract specification Telnet: strict class - delivered commands equal the reference lines in order and nothing is lost; robust class - only bytes the reference met as data may appear, buffer indices stay inside the 2 KiB buffer; ASan/UBSan monitor every execution.", NOTE, TECH + "; sanitizer monitoring for the memory-safety clause", "DESIGN.md §7 C13"),
 "C09": ("model_checking", "TLC enumerates (BackendGen) short histories of external events - tick before any connection, connect, partial input, EOF / hang-up / reset, reconnect, console lines - with an uncaught error injected into each kind of task (command, process_input, input_to, heart_beat, call_out, reset, clean_up, connect, logon, net_dead, telnet callback) in network and console mode with a working, failing or silent master error_handler; every history runs through the real backend() under ASan/UBSan and every trace is validated by TLC against Backend (process alive at the end, every error reported before the next poll, only the failing object's heart beat switched off) and against CmdTurn (the other users keep being served).", NOTE, TECH + " with enumerated fault sequences; sanitizer monitoring", "DESIGN.md §7 C09"),
 "C20": ("model_checking", "TLC runs the abstract specification Uids over a small universe (UidsGen) and checks that uids are never 0 and change only by creation or export_uid from a non-zero euid onto an euid-0 object, and that euids change only by an approved seteuid (or to 0); the same runs print load/clone/seteuid/export_uid histories under three master policies (approve all, refuse all, approve own uid; creators incl. the backbone). Every history is executed by scenario objects with different creators in the real driver and getuid()/geteuid() of every object after every step are validated by TLC against Uids.", NOTE, TECH, "DESIGN.md §7 C20"),
 "C08": ("model_checking", "TLC enumerates (ObjWorldGen) hook scripts for create / init / move_or_destruct (move, destruct self or others, clone, raise an error) x top-level clone / move / destruct steps; every history runs in the real driver with operations issued re-entrantly from the hooks, and TLC validates every trace against the abstract specification ObjWorld (moves take effect at once and are refused when they would create a cycle, destruct is a cascade, the innermost move_or_destruct hook restricts destruct, errors land in the catch of an operation in progress). After every command the specification state is compared with the driver's structures (super / contains lists, name table, destruct list) and with what LPC sees (environment, all_inventory, find_object, stale references reading 0); the specification's own invariants Forest and DeadClean are checked on every state.", NOTE, TECH, "DESIGN.md §7 C08"),
}
NA = {}

def main():
    checks = []
    for pid in sorted(CHECKS):
        level, text, note, tech, ref = CHECKS[pid]
        checks.append(dict(property_id=pid, quick_cmd="python3 checks/%s.py quick" % pid.lower(),
                           thorough_cmd="python3 checks/%s.py thorough" % pid.lower(),
                           evidence_file="/verif/evidence/%s.json" % pid, replay_cmd_template="cat {path}",
                           engine="tlc+vdrv", level_claimed=dict(category=level, text=text, design_ref=ref),
                           level_note=note, technique=tech))
    na = []
    for i in range(1, 21):
        pid = "C%02d" % i
        if pid not in CHECKS:
            na.append(dict(property_id=pid, reason=NA.get(pid, "check not implemented yet in this round (planned with the same technique, see DESIGN.md §7)")))
    m = dict(version=1, setup_cmd="bash checks/setup.sh",
             hooks=dict(guard="NEOLITH_VERIF",
                        enable="checks build /repo with cmake -DCMAKE_C_FLAGS='... -DNEOLITH_VERIF' into /verif/.build/<flavour>-<treehash> (tools/build.py)",
                        baseline_off_cmd="bash checks/baseline_off.sh", source_commits=["666eed7"], add_only=True),
             engines=[dict(name="tlc+vdrv", path="/verif/tools/vlib.py", serves_properties=sorted(CHECKS),
                           kind_free_text="TLC (model check, behaviour enumeration, trace validation) + in-process driver harness vdrv under ASan/UBSan")],
             checks=checks, notes="see DESIGN.md", not_applicable=na)
    json.dump(m, open(os.path.join(V, "MANIFEST.json"), "w"), indent=1)

if __name__ == "__main__":
    main()
