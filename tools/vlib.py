#!/usr/bin/env python3
"""Shared machinery of all checks: scratch work dirs, running the harness in parallel, running
TLC (model check / behaviour generation / trace validation), known findings, evidence."""
import os, sys, json, subprocess, shutil, time, re, hashlib, tempfile, glob, random
from concurrent.futures import ThreadPoolExecutor

sys.path.insert(0, os.path.dirname(os.path.abspath(__file__)))
import build

VERIF = build.VERIF
REPO = build.REPO
TLA_JAR = "/opt/veriftools/tla/tla2tools.jar"
COMMUNITY = None
for c in glob.glob("/opt/veriftools/tla/*ommunity*.jar"):
    COMMUNITY = c

SEED = int(os.environ.get("VERIF_SEED", "1"))


class Broken(Exception):
    pass


def tier_from_argv(argv):
    t = os.environ.get("VERIF_TIER", "quick")
    for a in argv[1:]:
        if a in ("quick", "thorough"):
            t = a
    return t


class Work:
    """per-invocation scratch directory /verif/.work/<id>-<pid>, removed on exit"""

    def __init__(self, pid_):
        self.dir = os.path.join(VERIF, ".work", "%s-%d" % (pid_, os.getpid()))
        shutil.rmtree(self.dir, ignore_errors=True)
        os.makedirs(self.dir)

    def path(self, *a):
        p = os.path.join(self.dir, *a)
        os.makedirs(os.path.dirname(p), exist_ok=True)
        return p

    def cleanup(self):
        shutil.rmtree(self.dir, ignore_errors=True)

    def mudlib(self, overlays=(), name="mudlib", conf_extra=""):
        """copy mudlib/base (+ overlays) to the scratch dir and write a config; returns conf path"""
        d = self.path(name, "x")
        d = os.path.dirname(d)
        shutil.rmtree(d, ignore_errors=True)
        shutil.copytree(os.path.join(VERIF, "mudlib", "base"), d)
        for o in overlays:
            src = os.path.join(VERIF, "mudlib", o)
            for root, dn, fn in os.walk(src):
                rel = os.path.relpath(root, src)
                os.makedirs(os.path.join(d, rel), exist_ok=True)
                for f in fn:
                    shutil.copy(os.path.join(root, f), os.path.join(d, rel, f))
        os.makedirs(os.path.join(d, "bin"), exist_ok=True)
        conf = os.path.join(self.dir, name + ".conf")
        with open(conf, "w") as fh:
            fh.write("MudlibDir %s\nSimulEfunFile /simul_efun.c\nMasterFile /master.c\nPort 4000:telnet\n"
                     "LogWithDate No\nSaveBinaryDir /bin\n%s\n" % (d, conf_extra))
        return conf, d


ASAN_ENV = {"ASAN_OPTIONS": "detect_leaks=0:halt_on_error=0:abort_on_error=0:handle_segv=1:allocator_may_return_null=1:detect_stack_use_after_return=0",
            "UBSAN_OPTIONS": "print_stacktrace=0:halt_on_error=0"}


def _die_with_parent():
    """children (harness, TLC) are killed when the check process itself is killed - an orphaned harness with a large
    scenario file once kept 50 GB"""
    try:
        import ctypes
        ctypes.CDLL("libc.so.6").prctl(1, 9)      # PR_SET_PDEATHSIG, SIGKILL
    except Exception:
        pass


def run_vdrv(exe, conf, scenarios, work, tag="run", jobs=16, timeout=8, env=None):
    """scenarios: list of (id, [op-line,...]).  Runs them in `jobs` harness processes.
    Returns list of executions: dict(id=..., events=[...], end={...}) in scenario order."""
    if not scenarios:
        return []
    jobs = max(1, min(jobs, len(scenarios)))
    chunks = [scenarios[i::jobs] for i in range(jobs)]
    procs = []
    e = dict(os.environ)
    e.update(ASAN_ENV)
    if env:
        e.update(env)
    for i, ch in enumerate(chunks):
        sp = work.path(tag, "s%d.txt" % i)
        op = work.path(tag, "t%d.ndjson" % i)
        with open(sp, "w") as fh:
            for sid, ops in ch:
                fh.write("reset %s\n" % sid)
                for o in ops:
                    fh.write(o + "\n")
        p = subprocess.Popen([exe, conf, sp, op, str(timeout)], env=e, stdout=subprocess.DEVNULL,
                             stderr=subprocess.PIPE, cwd=work.dir, preexec_fn=_die_with_parent)
        procs.append((p, op))
    res = {}
    for p, op in procs:
        _, err = p.communicate()
        if p.returncode != 0:
            raise Broken("harness exited %d: %s" % (p.returncode, err.decode(errors="replace")[-2000:]))
        cur = None
        with open(op, errors="replace") as fh:
            for ln in fh:
                ln = ln.strip()
                if not ln:
                    continue
                try:
                    ev = json.loads(ln)
                except Exception:
                    ev = {"e": "Garbled", "raw": ln[:200]}
                if ev.get("e") == "Reset":
                    cur = dict(id=ev["id"], events=[], end=None)
                    res[ev["id"]] = cur
                elif ev.get("e") == "End":
                    cur["end"] = ev
                elif cur is not None:
                    cur["events"].append(ev)
    for ch in chunks:            # which scenarios ran before it in the same harness process (see confirmed_in_position)
        ids = [str(sid) for sid, _ in ch]
        for k, sid in enumerate(ids):
            if sid in res:
                res[sid]["before"] = ids[:k]
    return [res[str(sid)] for sid, _ in scenarios if str(sid) in res]


def confirmed_in_position(exe, conf, sdict, ex, work, env=None, timeout=8):
    """A sanitizer report that does not repeat when its scenario runs alone may depend on the heap layout the
    harness process had when it forked the scenario (a wild read or write only shows where it lands): run the
    scenario once more behind the scenarios that preceded it in its original process.  Returns the repeated
    execution or None."""
    before = ex.get("before") or []
    if not before or not any(s.get("kind") not in ("signal", "exit") for s in crashed(ex)):
        return None
    ids = [i for i in before if i in sdict] + [ex["id"]]
    again = run_vdrv(exe, conf, [(i, sdict[i]) for i in ids], work, tag="confirm-pos", jobs=1, env=env, timeout=timeout)
    for a in again:
        if a["id"] == ex["id"] and crashed(a):
            return a
    return None


def crashed(ex):
    """signature list of process-level failures of one execution (empty = clean)"""
    sigs = []
    end = ex["end"] or {"exit": -1, "sig": 0, "asan": []}
    for r in end.get("asan", []):
        sigs.append({"kind": r["kind"], "frames": r["frames"][:2]})
    if end.get("sig"):
        sigs.append({"kind": "signal", "sig": end["sig"]})
    elif end.get("exit") not in (0,):
        sigs.append({"kind": "exit", "code": end.get("exit")})
    return sigs


def confirmed_crashes(exe, conf, scen, exs, work, env=None, limit=12):
    """process-level failures that REPEAT when the scenario is run again on its own (rule: repeat
    before reporting).  Returns list of (execution, signatures, raw sanitizer text)."""
    sdict = {str(sid): ops for sid, ops in scen}
    out = []
    cand = [ex for ex in exs if crashed(ex) and not (ex["end"] or {}).get("skipped")]
    flaky = 0
    for ex in cand[:limit]:
        again = run_vdrv(exe, conf, [(ex["id"], sdict[ex["id"]])], work, tag="confirm", jobs=1, env=env)
        if again and crashed(again[0]):
            out.append((again[0], crashed(again[0]), (again[0]["end"] or {}).get("raw")))
            continue
        pos = confirmed_in_position(exe, conf, sdict, ex, work, env=env)
        if pos:
            out.append((pos, crashed(pos), (pos["end"] or {}).get("raw")))
        else:
            flaky += 1
    if flaky:
        print("NOTE %d process-level failure(s) repeated neither when the scenario was run again alone nor in its original position; not reported" % flaky)
    if len(cand) > limit:
        print("NOTE %d further failing scenarios not re-run" % (len(cand) - limit))
    return out


# ------------------------------------------------------------------------------------------
# TLC
def tlc(spec_dir, module, cfg, work, tag, workers=16, extra=None, env=None, timeout=3600, simulate=None,
        heap="8g", deadlock_off=False):
    """run TLC in a scratch copy of spec_dir; returns (exit_code, stdout)"""
    d = work.path("tlc-" + tag, "x")
    d = os.path.dirname(d)
    shutil.rmtree(d, ignore_errors=True)
    os.makedirs(d)
    for root in (spec_dir, os.path.join(VERIF, "spec", "lib")):
        for f in os.listdir(root):
            if f.endswith(".tla") or f.endswith(".cfg"):
                shutil.copy(os.path.join(root, f), d)
    jt = os.path.join(d, "jtmp")
    os.makedirs(jt, exist_ok=True)      # TLC unpacks its standard modules into java.io.tmpdir and leaves them there
    cmd = ["java", "-Xmx" + heap, "-Xss512m", "-XX:+UseParallelGC", "-Djava.io.tmpdir=" + jt]
    e = dict(os.environ)
    if env:
        e.update(env)
    cmd += ["-cp", TLA_JAR + (":" + COMMUNITY if COMMUNITY else ""), "tlc2.TLC",
            "-workers", str(workers), "-metadir", os.path.join(d, "states"), "-config", cfg, "-noGenerateSpecTE"]
    if deadlock_off:
        cmd.append("-deadlock")
    if simulate:
        cmd += ["-simulate", simulate]
    if extra:
        cmd += extra
    cmd.append(module)
    try:
        p = subprocess.run(cmd, cwd=d, env=e, stdout=subprocess.PIPE, stderr=subprocess.STDOUT, text=True,
                           timeout=timeout, preexec_fn=_die_with_parent)
    except subprocess.TimeoutExpired as ex:
        return 124, (ex.stdout or "") if isinstance(ex.stdout, str) else (ex.stdout or b"").decode(errors="replace")
    return p.returncode, p.stdout


def tlc_stats(out):
    """(generated, distinct) from TLC's final line"""
    # only TLC's own short lines: on megabytes of printed behaviours (long runs of digits and commas) this pattern is quadratic
    m = []
    for ln in out.splitlines():
        if "states generated" in ln and len(ln) < 400:
            m += re.findall(r"(\d[\d,]*) states generated, (\d[\d,]*) distinct states found", ln)
    if not m:
        return 0, 0
    g, d = m[-1]
    return int(g.replace(",", "")), int(d.replace(",", ""))


def tlc_coverage_untaken(out, actions):
    """names from `actions` that TLC's -coverage output reports as never taken"""
    untaken = []
    for a in actions:
        m = re.findall(r"<%s line [^>]*>: (\d+):(\d+)" % re.escape(a), out)
        if not m or all(int(x[0]) == 0 and int(x[1]) == 0 for x in m):
            untaken.append(a)
    return untaken


def model_check(spec_dir, module, cfg, work, tag, actions=(), workers=16, timeout=3000, heap="12g"):
    """P1: exhaustive check. Returns dict(states, transitions, ok, out). Raises Broken on tooling failure."""
    extra = ["-coverage", "1"] if actions else None
    rc, out = tlc(spec_dir, module, cfg, work, tag, workers=workers, extra=extra, timeout=timeout, heap=heap,
                  deadlock_off=True)
    gen, dist = tlc_stats(out)
    if rc == 0:
        unt = tlc_coverage_untaken(out, actions) if actions else []
        if unt:
            raise Broken("vacuity guard: actions never taken in %s/%s: %s" % (module, cfg, unt))
        return dict(ok=True, states=dist, transitions=gen, out=out)
    if rc in (12, 13):   # invariant / property violated
        return dict(ok=False, states=dist, transitions=gen, out=out)
    raise Broken("TLC failed on %s/%s (exit %d):\n%s" % (module, cfg, rc, out[-3000:]))


def cap_histories(hists, n, label="exhaustive"):
    """Bound an exhaustively enumerated set that has outgrown the time a check may take: keep every behaviour when
    there are at most n, otherwise a sample of n that depends only on VERIF_SEED (different seeds explore different
    parts; the evidence file says how many of how many were run)."""
    if len(hists) <= n:
        return hists, len(hists)
    total = len(hists)
    hs = sorted(hists, key=lambda h: json.dumps(h, sort_keys=True))
    random.Random(SEED * 7919 + 13).shuffle(hs)
    print("CAP %s set of %d behaviours sampled down to %d (seed %d)" % (label, total, n, SEED))
    return hs[:n], total


def generate(spec_dir, module, cfg, work, tag, marker="@@B", workers=8, simulate=None, timeout=1800, env=None,
             heap="8g", extra=None, cap=None):
    """P2: run TLC and collect the JSON lines it prints (Print with marker). Returns list of objects.
    The spec prints behaviours from an invariant/constraint; TLC must end normally."""
    if simulate:
        workers = 1      # with a fixed -seed a single simulation worker is reproducible; several workers are not
        m = re.match(r"num=(\d+)$", simulate)
        if m:            # (the callers' numbers were chosen per worker, for four workers)
            simulate = "num=%d" % (int(m.group(1)) * 4)
    rc, out = tlc(spec_dir, module, cfg, work, tag, workers=workers, simulate=simulate, timeout=timeout, env=env,
                  heap=heap, deadlock_off=True, extra=extra)
    if rc not in (0,) and not (simulate and rc == 124):
        raise Broken("TLC generation failed on %s/%s (exit %d):\n%s" % (module, cfg, rc, out[-3000:]))
    res = []
    seen = set()
    pat = re.compile(r'<<"' + re.escape(marker) + r'", (".*")>>\s*$')
    lines = out.splitlines()
    if cap is not None:
        # very large behaviour sets: keep a seeded sample of `cap` printed lines (BFS prints every history once)
        marked = [i for i, ln in enumerate(lines) if marker in ln]
        if len(marked) > cap:
            rnd = random.Random(SEED)
            keep = set(rnd.sample(marked, cap))
            lines = [ln for i, ln in enumerate(lines) if i in keep or marker not in ln]
    for ln in lines:
        m = pat.search(ln)
        if not m:
            continue
        try:
            s = json.loads(m.group(1))
        except Exception:
            continue
        if s in seen:
            continue
        seen.add(s)
        try:
            res.append(json.loads(s))
        except Exception:
            pass
    gen, dist = tlc_stats(out)
    return res, dict(states=dist, transitions=gen)


def validate_trace(spec_dir, module, cfg, trace_file, work, tag, timeout=1800, heap="8g", dfs=True):
    """P3: validate an ndjson trace (many executions separated by Reset events).
    Returns dict(accepted:bool, matched:int (index of first unmatched event, 1-based), total:int)."""
    n = sum(1 for _ in open(trace_file))
    env = {"TRACE": trace_file}
    if dfs:
        env["JAVA_TOOL_OPTIONS"] = "-Dtlc2.tool.queue.IStateQueue=StateDeque"
    rc, out = tlc(spec_dir, module, cfg, work, tag, workers=1, env=env, timeout=timeout, heap=heap, deadlock_off=True)
    m = re.findall(r'@@MATCHED", (\d+)', out)
    matched = max([int(x) for x in m]) if m else None
    if rc == 0:
        return dict(accepted=True, matched=n, total=n, out=out)
    if rc in (10, 12, 13):  # postcondition false / assumption / invariant
        return dict(accepted=False, matched=matched, total=n, out=out)
    i = out.find("Error:")
    raise Broken("TLC trace validation failed on %s (exit %d):\n%s\n...\n%s" % (module, rc, out[max(0, i - 200):i + 1800], out[-600:]))


def validate_executions(spec_dir, module, cfg, projs, work, max_rejects=6, tag="p3", env_extra=None, drop_if=None):
    """P3 over many executions (each a list of abstract events starting with a Reset event).
    Returns (accepted_count, events_accepted, rejects) with rejects = [(index, first_unmatched_event_index)],
    every rejection re-validated alone (repeat before reporting)."""
    accepted = 0
    nevents = 0
    rejects = []
    pending = list(range(len(projs)))
    rounds = 0
    while pending and len(rejects) < max_rejects:
        rounds += 1
        tf = work.path("%s-trace%d.ndjson" % (tag, rounds))
        index = []
        with open(tf, "w") as fh:
            for i in pending:
                for p in projs[i]:
                    fh.write(json.dumps(p) + "\n")
                    index.append(i)
        r = validate_trace(spec_dir, module, cfg, tf, work, "%s-%d" % (tag, rounds))
        if r["accepted"]:
            accepted += len(pending)
            nevents += len(index)
            pending = []
            break
        m = r["matched"] or 1
        badi = index[min(m - 1, len(index) - 1)]
        pos = pending.index(badi)
        accepted += pos
        nevents += sum(len(projs[i]) for i in pending[:pos])
        tf1 = work.path("%s-single.ndjson" % tag)
        with open(tf1, "w") as fh:
            for p in projs[badi]:
                fh.write(json.dumps(p) + "\n")
        r1 = validate_trace(spec_dir, module, cfg, tf1, work, tag + "-s")
        if not r1["accepted"] and drop_if is not None and drop_if(badi, (r1["matched"] or 1) - 1):
            # the caller has recorded this event (a listed known finding): take it out and validate the REST of the
            # execution, so that a listed finding cannot hide a different violation later in the same execution
            del projs[badi][(r1["matched"] or 1) - 1]
            pending = [badi] + pending[pos + 1:]
            continue
        if not r1["accepted"]:
            rejects.append((badi, (r1["matched"] or 1) - 1))
        else:
            accepted += 1
            nevents += len(projs[badi])
        pending = pending[pos + 1:]
    if pending:
        print("NOTE %d executions not validated (stopped after %d rejections)" % (len(pending), len(rejects)))
    return accepted, nevents, rejects


# ------------------------------------------------------------------------------------------
# known findings
def load_known():
    p = os.path.join(VERIF, "known_findings.json")
    if not os.path.exists(p):
        return []
    return json.load(open(p))["findings"]


def match_known(prop, sig):
    """sig: dict. A finding matches if every key of its signature equals the candidate's."""
    for f in load_known():
        if f["property"] != prop or f.get("status") != "open":
            continue
        fs = f["signature"]
        if all(sig.get(k) == v for k, v in fs.items()):
            return f
    return None


class Verdict:
    """collects candidate violations of one check run; prints KNOWN-FINDING / VIOLATION lines"""

    def __init__(self, prop):
        self.prop = prop
        self.known = {}
        self.new = []

    def add(self, sig, replay_lines=None, what="", raw=None):
        if raw:
            replay_lines = list(replay_lines or []) + ["RAW SANITIZER REPORT:"] + raw.splitlines()[:80]
        f = match_known(self.prop, sig)
        if f:
            self.known.setdefault(f["id"], [f, 0])
            self.known[f["id"]][1] += 1
            return False
        self.new.append((sig, replay_lines, what))
        return True

    def finish(self):
        for fid, (f, n) in sorted(self.known.items()):
            print("KNOWN-FINDING: property=%s %s %s (%d occurrence%s)" % (self.prop, fid, f["what"], n, "" if n == 1 else "s"))
        if not self.new:
            return 0
        os.makedirs(os.path.join(VERIF, "replays", self.prop), exist_ok=True)
        shown = set()
        for sig, lines, what in self.new:
            key = hashlib.sha1(json.dumps(sig, sort_keys=True).encode()).hexdigest()[:12]
            if key in shown:
                continue
            shown.add(key)
            path = os.path.join(VERIF, "replays", self.prop, key + ".ndjson")
            with open(path, "w") as fh:
                fh.write(json.dumps({"signature": sig, "what": what}) + "\n")
                for l in (lines or []):
                    fh.write((l if isinstance(l, str) else json.dumps(l)) + "\n")
            print("VIOLATION property=%s replay=%s" % (self.prop, path))
            print("  signature: %s %s" % (json.dumps(sig, sort_keys=True), what))
            if len(shown) >= 10:
                break
        return 1


def write_evidence(prop, tier, level, coverage, wall_s, violations, assumptions=(), subdir="evidence"):
    os.makedirs(os.path.join(VERIF, subdir), exist_ok=True)
    ev = dict(property_id=prop, tier=tier, seed=SEED, level=level, coverage=coverage,
              assumptions=list(assumptions), wall_s=round(wall_s, 2), violations=violations)
    p = os.path.join(VERIF, subdir, prop + ".json")
    with open(p + ".tmp", "w") as fh:
        json.dump(ev, fh, indent=1)
    os.replace(p + ".tmp", p)
    print("EVIDENCE %s" % p)


def main_wrapper(prop, fn):
    """common entry: fn(tier, work) -> exit code; tooling failures exit 2 with BROKEN"""
    tier = tier_from_argv(sys.argv)
    work = Work(prop)
    try:
        rc = fn(tier, work)
    except Broken as ex:
        print("BROKEN %s: %s" % (prop, ex))
        rc = 2
    except SystemExit as ex:
        print("BROKEN %s: %s" % (prop, ex))
        rc = 2
    except Exception as ex:      # a failure of the machinery itself is never reported as a verdict about the code
        import traceback
        traceback.print_exc()
        print("BROKEN %s: %s: %s" % (prop, type(ex).__name__, ex))
        rc = 2
    finally:
        if not os.environ.get("VERIF_KEEP"):
            work.cleanup()
    sys.exit(rc)
