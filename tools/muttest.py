#!/usr/bin/env python3
"""Apply a one-off textual mutation to /repo, run a check, undo the mutation.
usage: muttest.py <check-script> <file> <old> <new> [tier]   (old must occur exactly once unless count given)"""
import sys, subprocess, os
chk, f, old, new = sys.argv[1:5]
tier = sys.argv[5] if len(sys.argv) > 5 else "quick"
p = os.path.join("/repo", f)
s = open(p).read()
if s.count(old) < 1:
    sys.exit("mutation target not found")
open(p, "w").write(s.replace(old, new, 1))
try:
    r = subprocess.run(["timeout", "1500", "python3", chk, tier], cwd="/verif", stdout=subprocess.PIPE, stderr=subprocess.STDOUT, text=True)
    lines = r.stdout.splitlines()
    print("\n".join(l for l in lines if l.startswith(("VIOLATION", "KNOWN", "BROKEN", "TLC", "RUN", "  sig"))))
    print("exit", r.returncode)
finally:
    subprocess.run(["git", "-C", "/repo", "checkout", "--", f])
