#!/usr/bin/env python3
"""validate MANIFEST.json and all evidence files against the schemas (uses the tooling venv)"""
import json, glob, sys, jsonschema
jsonschema.validate(json.load(open('/verif/MANIFEST.json')), json.load(open('/root/.vp/MANIFEST.schema.json')))
es = json.load(open('/root/.vp/EVIDENCE.schema.json'))
for f in sorted(glob.glob('/verif/evidence/*.json')):
    jsonschema.validate(json.load(open(f)), es)
    print("ok", f)
print("manifest ok")
