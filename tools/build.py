#!/usr/bin/env python3
"""Build cache for the sanitizer-instrumented driver objects and the harnesses.

Every check calls ensure_build(flavour) first.  The key of a build directory is the sha256 over
all files below /repo/{src,lib,cmake,CMakeLists.txt,config.h.in}, so a check always rebuilds
from /repo's *current working tree* when a byte changed and reuses the objects otherwise.
"""
import hashlib, os, subprocess, sys, fcntl, shutil, time, glob

REPO = os.environ.get("VERIF_REPO", "/repo")
VERIF = os.path.dirname(os.path.dirname(os.path.abspath(__file__)))
BUILD_ROOT = os.path.join(VERIF, ".build")

FLAVOURS = {
    # ASan + the UBSan subset that the listed properties forbid (no signed-overflow etc.)
    "asan": dict(
        cflags="-fsanitize=address -fsanitize-recover=address "
               "-fsanitize=bounds,null,object-size,return,unreachable,vla-bound,integer-divide-by-zero "
               "-fno-sanitize-recover=undefined -fno-omit-frame-pointer -O1 -g -w -DNEOLITH_VERIF",
        ldflags="-fsanitize=address -fsanitize=undefined"),
    "tsan": dict(
        cflags="-fsanitize=thread -fno-omit-frame-pointer -O1 -g -w -DNEOLITH_VERIF",
        ldflags="-fsanitize=thread"),
    "plain": dict(cflags="-O1 -g -w -DNEOLITH_VERIF", ldflags=""),
}


def tree_hash():
    h = hashlib.sha256()
    roots = ["src", "lib", "cmake", "CMakeLists.txt", "config.h.in"]
    files = []
    for r in roots:
        p = os.path.join(REPO, r)
        if os.path.isfile(p):
            files.append(p)
        else:
            for d, dn, fn in os.walk(p):
                dn.sort()
                for f in sorted(fn):
                    files.append(os.path.join(d, f))
    for f in sorted(files):
        h.update(os.path.relpath(f, REPO).encode())
        h.update(b"\0")
        try:
            with open(f, "rb") as fh:
                h.update(fh.read())
        except OSError:
            pass
        h.update(b"\0")
    return h.hexdigest()[:16]


def _run(cmd, env=None, cwd=None, log=None):
    e = dict(os.environ)
    if env:
        e.update(env)
    p = subprocess.run(cmd, shell=isinstance(cmd, str), env=e, cwd=cwd,
                       stdout=subprocess.PIPE, stderr=subprocess.STDOUT, text=True)
    if log:
        with open(log, "a") as fh:
            fh.write("$ %s\n%s\n" % (cmd, p.stdout))
    if p.returncode != 0:
        sys.stderr.write(p.stdout[-6000:])
        raise SystemExit("BROKEN build step failed: %s" % (cmd,))
    return p.stdout


def _gc(keep):
    """keep the disk footprint small: at most 3 build dirs per flavour, older ones go once nobody has used them for
    two hours (several checks may run at the same time on different trees; a directory in use is touched on every use)"""
    now = time.time()
    for fl in FLAVOURS:
        ds = sorted(glob.glob(os.path.join(BUILD_ROOT, fl + "-*")), key=os.path.getmtime, reverse=True)
        for d in ds[3:]:
            if d != keep and now - os.path.getmtime(d) > 7200:
                shutil.rmtree(d, ignore_errors=True)


def ensure_build(flavour="asan", quiet=False, targets=None):
    """returns the build directory holding the repo's objects built from the current tree"""
    os.makedirs(BUILD_ROOT, exist_ok=True)
    th = tree_hash()
    bdir = os.path.join(BUILD_ROOT, "%s-%s" % (flavour, th))
    lock = open(os.path.join(BUILD_ROOT, ".lock-" + flavour), "w")
    fcntl.flock(lock, fcntl.LOCK_EX)
    try:
        stamp = os.path.join(bdir, ".built")
        if os.path.exists(stamp):
            os.utime(bdir)
            if not quiet:
                print("BUILD tree=%s flavour=%s cached" % (th, flavour))
            return bdir
        t0 = time.time()
        shutil.rmtree(bdir, ignore_errors=True)
        os.makedirs(bdir)
        fl = FLAVOURS[flavour]
        log = os.path.join(bdir, "build.log")
        _run(["cmake", "-G", "Ninja", "-S", REPO, "-B", bdir, "-DBUILD_TESTING=OFF",
              "-DCMAKE_BUILD_TYPE=Debug",
              "-DCMAKE_C_FLAGS=" + fl["cflags"], "-DCMAKE_CXX_FLAGS=" + fl["cflags"],
              "-DCMAKE_EXE_LINKER_FLAGS=" + fl["ldflags"]], log=log)
        tg = (["--target"] + list(targets)) if targets else []
        _run(["cmake", "--build", bdir, "-j", "16"] + tg,
             env={"ASAN_OPTIONS": "detect_leaks=0", "TSAN_OPTIONS": "report_bugs=0"}, log=log)
        open(stamp, "w").write(th)
        _gc(bdir)
        if not quiet:
            print("BUILD tree=%s flavour=%s built in %.0fs" % (th, flavour, time.time() - t0))
        return bdir
    finally:
        fcntl.flock(lock, fcntl.LOCK_UN)
        lock.close()


STEM_LIBS = ["lib/lpc/liblpc.a", "lib/efuns/libefuns.a", "lib/socket/libsocket.a",
             "lib/lpc/liblpc.a", "lib/efuns/libefuns.a", "lib/socket/libsocket.a",
             "lib/misc/libmisc.a", "lib/rc/librc.a", "lib/async/libasync.a",
             "lib/port/libport.a", "lib/logger/liblogger.a"]

WRAPS = ["time", "platform_timer_start",
         "bind", "listen", "accept", "recv", "send",
         "async_runtime_init", "async_runtime_add", "async_runtime_modify", "async_runtime_remove",
         "async_runtime_wakeup", "async_runtime_wait", "async_runtime_get_console_type",
         "console_worker_init", "isatty", "tcgetattr", "tcsetattr", "write",
         "fopen", "fclose", "rename", "unlink", "fprintf",
         "open", "stat", "lstat", "opendir", "mkdir", "rmdir", "link", "symlink"]


def include_flags(bdir):
    return ["-I" + bdir, "-I" + REPO + "/src", "-I" + REPO, "-I" + REPO + "/lib",
            "-I" + REPO + "/lib/misc", "-I" + bdir + "/lib/lpc", "-I" + bdir + "/lib/efuns",
            "-I" + REPO + "/lib/efuns", "-I" + REPO + "/lib/rc", "-I" + REPO + "/lib/socket",
            "-I" + REPO + "/lib/lpc", "-DHAVE_CONFIG_H", "-D_GNU_SOURCE", "-DNEOLITH_VERIF"]


def ensure_harness(name, sources, flavour="asan", wraps=None, stem=True, extra=None):
    """compile+link /verif/harness/<sources> against the repo objects of this tree; returns exe path"""
    # the tsan flavour is only used by the library-level harness: build just those libraries
    bdir = ensure_build(flavour, quiet=True, targets=(["async", "port", "logger"] if flavour == "tsan" else None))
    exe = os.path.join(bdir, name)
    srcs = [os.path.join(VERIF, "harness", s) for s in sources]
    hdrs = glob.glob(os.path.join(VERIF, "harness", "*.h")) + glob.glob(os.path.join(VERIF, "harness", "*.hpp"))
    lock = open(os.path.join(BUILD_ROOT, ".lock-h-" + name + "-" + flavour), "w")
    fcntl.flock(lock, fcntl.LOCK_EX)
    try:
        if os.path.exists(exe) and all(os.path.getmtime(exe) >= os.path.getmtime(s) for s in srcs + hdrs):
            return exe
        fl = FLAVOURS[flavour]
        objs = []
        for s in srcs:
            o = os.path.join(bdir, "h_" + name + "_" + os.path.basename(s) + ".o")
            cc = "g++" if s.endswith(".cpp") else "gcc"
            std = ["-std=c++17"] if cc == "g++" else []
            _run([cc] + std + fl["cflags"].split() + include_flags(bdir) + ["-c", s, "-o", o])
            objs.append(o)
        link = ["g++"] + fl["ldflags"].split() + ["-o", exe + ".tmp"] + objs
        if stem:
            link += sorted(glob.glob(os.path.join(bdir, "src/CMakeFiles/stem.dir/*.o")))
            link += [os.path.join(bdir, l) for l in STEM_LIBS]
        else:
            link += [os.path.join(bdir, "lib/async/libasync.a"), os.path.join(bdir, "lib/port/libport.a"),
                     os.path.join(bdir, "lib/logger/liblogger.a")]
        for w in (WRAPS if wraps is None else wraps):
            link.append("-Wl,--wrap=" + w)
        link += ["-lpthread", "-lm", "-lcrypt"] + (extra or [])
        _run(link)
        os.replace(exe + ".tmp", exe)
        return exe
    finally:
        fcntl.flock(lock, fcntl.LOCK_UN)
        lock.close()


if __name__ == "__main__":
    fl = sys.argv[1] if len(sys.argv) > 1 else "asan"
    print(ensure_build(fl))
