#!/usr/bin/env python3
"""C19 — cross-thread notifications are never lost or merged; queue hand-over; shutdown terminates.
P1: TLC checks the implementation-shaped model of the notification carrier (EventFdImpl: a pipe of records,
    as lib/async/async_runtime_epoll.c now does) against "every post delivered exactly once, unmerged" over all
    interleavings of posts / wake-ups / waits; the counter carrier the code used before fix D6 is kept as a
    configuration that must be VIOLATED (it shows the model can see the defect).  The abstract spec AsyncRT is
    explored by AsyncRTGen with its queue invariants.
P2: AsyncRTGen prints every interleaving of post / wake-up / wait / enqueue / dequeue / worker life-cycle
    calls up to a bound (BFS) and longer random ones (-simulate); each is replayed on the real library by
    harness/asyncdrv.cpp, one library call per step in TLC's order.
P3: the recorded results (events returned by every wait, enqueue/dequeue results, statistics, join results)
    are validated against AsyncRT by TLC (AsyncRTTrace).
Stress (both tiers, longer in thorough): a ThreadSanitizer build of the same harness runs real producer
    threads, a worker/timer life-cycle thread and the consumer; totals must balance and TSan must stay silent."""
import os, sys, json, time, random, subprocess, re
sys.path.insert(0, os.path.join(os.path.dirname(os.path.abspath(__file__)), "..", "tools"))
import vlib, build

PROP = "C19"
SPEC = os.path.join(vlib.VERIF, "spec", "asyncrt")


def script_of(h):
    ops = []
    hasq = False
    for s in h:
        o = s["op"]
        if o == "post":
            ops.append("post %d %d" % (s["k"], s["d"]))
        elif o == "wait":
            ops.append("wait %d" % s["n"])
        elif o == "qcreate":
            ops.append("qcreate %d %s" % (s["cap"], s["policy"]))
            hasq = True
        elif o == "enq":
            ops.append("enq " + s["m"])
        elif o == "wcreate":
            ops.append("wcreate " + s.get("kind", "poll"))
        elif o == "wjoin":
            ops.append("wjoin " + ("long" if s["long"] else "short"))
        else:
            ops.append(o)
    # closing drain: whatever is still pending must come out now (and only that)
    ops += ["wait 64", "wait 64"]
    if hasq:
        ops += ["qstats", "deq", "deq", "deq", "deq", "qstats"]
    return ops


def run_replay(exe, allh, work, tag, jobs=16):
    """replays in `jobs` parallel batches (each scenario still runs alone in its own forked child)"""
    from concurrent.futures import ThreadPoolExecutor
    if len(allh) <= 32:
        return run_replay1(exe, allh, 0, work, tag)
    n = (len(allh) + jobs - 1) // jobs
    chunks = [(i, allh[i:i + n]) for i in range(0, len(allh), n)]
    with ThreadPoolExecutor(jobs) as tp:
        parts = list(tp.map(lambda c: run_replay1(exe, c[1], c[0], work, "%s-%d" % (tag, c[0])), chunks))
    exs = [e for p_ in parts for e in p_[0]]
    return exs, "".join(p_[1] for p_ in parts)


def run_replay1(exe, allh, base, work, tag):
    script = work.path(tag + "-script.txt")
    out = work.path(tag + "-out.ndjson")
    with open(script, "w") as fh:
        for i, h in enumerate(allh):
            fh.write("reset %d\n" % (base + i))
            for l in script_of(h):
                fh.write(l + "\n")
    p = subprocess.run(["timeout", "1500", exe, "replay", script, out], env=dict(os.environ, **vlib.ASAN_ENV),
                       stdout=subprocess.PIPE, stderr=subprocess.PIPE, text=True)
    if p.returncode != 0:
        raise vlib.Broken("asyncdrv replay failed (exit %d): %s" % (p.returncode, p.stderr[-1500:]))
    exs = []
    cur = None
    for l in open(out):
        try:
            ev = json.loads(l)
        except ValueError:
            continue
        if ev["e"] == "Reset":
            cur = {"id": ev["id"], "events": [ev], "end": None}
            exs.append(cur)
        elif ev["e"] == "End":
            cur["end"] = ev
        elif cur is not None:
            cur["events"].append(ev)
    return exs, p.stderr


def run_stress(exe, seconds, work, tag):
    out = work.path(tag + "-stress.json")
    env = dict(os.environ, TSAN_OPTIONS="halt_on_error=0 second_deadlock_stack=1 exitcode=0")
    p = subprocess.run(["timeout", str(seconds * 4 + 120), exe, "stress", str(seconds), out], env=env,
                       stdout=subprocess.PIPE, stderr=subprocess.PIPE, text=True)
    rep = re.findall(r"WARNING: ThreadSanitizer: ([^\n]*)\n((?:.*\n){0,14})", p.stderr)
    res = None
    if os.path.exists(out):
        for l in open(out):
            res = json.loads(l)
    return p.returncode, res, rep, p.stderr


def run(tier, work):
    t0 = time.time()
    verdict = vlib.Verdict(PROP)
    # ---- P1
    st = vlib.model_check(SPEC, "EventFdImpl", "MCPipe.cfg", work, "p1pipe")
    if not st["ok"]:
        raise vlib.Broken("EventFdImpl/MCPipe violates its invariants:\n" + st["out"][-2500:])
    print("TLC P1 EventFdImpl/MCPipe (carrier as implemented): %d states, %d transitions, ok" % (st["states"], st["transitions"]))
    rc_, out_ = vlib.tlc(SPEC, "EventFdImpl", "MCCounter.cfg", work, "p1counter", deadlock_off=True, timeout=600)
    if rc_ not in (12, 13):
        raise vlib.Broken("the counter-carrier configuration (the defect fixed by D6) is no longer detected by the model (exit %d)" % rc_)
    print("TLC P1 EventFdImpl/MCCounter (pre-fix carrier): violated as expected (sensitivity)")
    # is the implementation still the carrier that was model-checked?  (binding of the P1 model: by replay below)
    cfgq = "GenQuick.cfg" if tier == "quick" else "GenThorough.cfg"
    hists, gs = vlib.generate(SPEC, "AsyncRTGen", cfgq, work, "p2a", timeout=3000, heap="16g", cap=(6000 if tier == "quick" else 200000))
    print("TLC P1/P2 AsyncRTGen: %d states, %d transitions; %d behaviours" % (gs["states"], gs["transitions"], len(hists)))
    rnd = random.Random(vlib.SEED)
    hists.sort(key=lambda h: json.dumps(h, sort_keys=True))
    cap = 6000 if tier == "quick" else 200000
    if len(hists) > cap:
        rnd.shuffle(hists)
        hists = hists[:cap]
    nsim = 1500 if tier == "quick" else 20000
    sims, _ = vlib.generate(SPEC, "AsyncRTGen", "GenSim.cfg", work, "p2b", workers=4, simulate="num=%d" % nsim,
                            extra=["-depth", "30", "-seed", str(vlib.SEED)], timeout=900)
    sims.sort(key=lambda h: json.dumps(h, sort_keys=True))
    rnd.shuffle(sims)
    sims = sims[:nsim]
    allh = hists + sims
    print("GEN %d behaviours (exhaustive, bounded) + %d simulated (seed %d)" % (len(hists), len(sims), vlib.SEED))
    exe = build.ensure_harness("asyncdrv", ["asyncdrv.cpp"], stem=False, wraps=[])
    t1 = time.time()
    exs, err = run_replay(exe, allh, work, "run")
    print("RUN %d scenarios on lib/async in %.1fs" % (len(exs), time.time() - t1))
    if len(exs) != len(allh):
        raise vlib.Broken("asyncdrv produced %d executions for %d scenarios" % (len(exs), len(allh)))
    ncrash = 0
    def died(ex):   # a hung join (SIGALRM) is an event of the trace, judged by the spec, not a crash
        return not ex["end"] or (ex["end"]["sig"] != 14 and (ex["end"]["exit"] != 0 or ex["end"]["sig"] != 0))
    bad = [ex for ex in exs if died(ex)]
    if bad:
        # repeat before reporting
        exs2, err2 = run_replay(exe, [allh[int(ex["id"])] for ex in bad[:10]], work, "rerun")
        for ex, ex2 in zip(bad[:10], exs2):
            if died(ex2):
                ncrash += 1
                verdict.add({"kind": "crash", "sig": (ex2["end"] or {}).get("sig"), "exit": (ex2["end"] or {}).get("exit")},
                            script_of(allh[int(ex["id"])]), "library call sequence terminates the process", raw=err2[-4000:])
    if "ERROR: AddressSanitizer" in err or "runtime error:" in err:
        verdict.add({"kind": "sanitizer"}, [], "sanitizer report while replaying", raw=err[-6000:])
    projs = []
    nskipped = sum(1 for ex in exs if ex["end"] and ex["end"].get("skipped"))
    if nskipped:
        print("NOTE %d scenarios skipped after three hung joins in their batch" % nskipped)
    for ex in exs:
        pr = []
        for ev in ex["events"]:
            ev = dict(ev)
            ev.pop("elapsed", None)
            ev.pop("ms", None)
            pr.append(ev)
        projs.append(pr)
    accepted, nevents, rejects = vlib.validate_executions(SPEC, "AsyncRTTrace", "AsyncRTTrace.cfg", projs, work)
    for badi, upto in rejects:
        b = projs[badi][upto] if upto < len(projs[badi]) else {"e": "?"}
        sig = {"kind": "rejected", "event": b.get("e")}
        if b.get("e") == "WJoin":
            sig["returned"] = b.get("returned")
        verdict.add(sig, script_of(allh[badi]) + [json.dumps(p) for p in projs[badi][:upto + 1]],
                    "first unexplainable event #%d: %s" % (upto + 1, json.dumps(b)))
    print("TLC P3 AsyncRTTrace: %d executions / %d events accepted" % (accepted, nevents))
    # ---- threads for real
    texe = build.ensure_harness("asyncdrv", ["asyncdrv.cpp"], flavour="tsan", stem=False, wraps=[])
    secs = 4 if tier == "quick" else 60
    rcs, res, rep, serr = run_stress(texe, secs, work, "tsan")
    if res is None:
        # repeat before reporting
        rcs, res, rep, serr = run_stress(texe, secs, work, "tsan2")
        if res is None:
            verdict.add({"kind": "stress-died", "rc": rcs}, [], "the threaded stress run did not finish (hang in stop/join or crash)", raw=serr[-6000:])
    stress_ok = False
    if res is not None:
        print("STRESS %ds under ThreadSanitizer: %s" % (secs, json.dumps(res)))
        problems = []
        if res["posted"] != res["delivered"]:
            problems.append("lost")
        if res["bad_events"]:
            problems.append("merged-or-duplicated")
        if res["enq_ok"] != res["deq"] or res["fifo_viol"]:
            problems.append("queue")
        if res["enqb_ok"] != res["deqb"] or res["fifob_viol"]:
            problems.append("blocking-queue")
        if res["join_fail"]:
            problems.append("join")
        if res["timer_after_stop"]:
            problems.append("timer-after-stop")
        for pr in problems:
            verdict.add({"kind": "stress", "what": pr}, [json.dumps(res)], "threaded stress totals do not balance: " + pr)
        kinds = sorted({k.split(" (")[0] for k, _ in rep})
        for k in kinds:
            body = [b for kk, b in rep if kk.startswith(k)][0]
            fn = re.findall(r"#\d+ (\S+) ", body)
            verdict.add({"kind": "tsan", "what": k, "top": fn[0] if fn else ""}, [k] + body.splitlines(), "ThreadSanitizer report in lib/async / lib/port")
        stress_ok = not problems and not kinds
    rc = verdict.finish()
    kinds_ops = sorted({s["op"] for h in allh for s in h})
    nontrivial = len({json.dumps(h, sort_keys=True) for h in allh if len({s["op"] for s in h}) >= 2})
    vlib.write_evidence(PROP, tier, "model_checking", dict(
        states=st["states"] + gs["states"], transitions=st["transitions"] + gs["transitions"],
        traces_validated_against_impl=accepted, evaluations=len(exs), distinct_nontrivial=nontrivial,
        samples=[{"script": script_of(allh[0]), "trace": projs[0][:10]}, {"script": script_of(allh[-1]), "trace": projs[-1][:30]}],
        rule="interleavings of post/wake/wait/enqueue/dequeue/worker calls printed by TLC from AsyncRTGen (BFS to the bound + -simulate); "
             "non-trivial = at least two kinds of call; distinct by JSON text",
        exhaustive=False, events_validated=nevents, ops_seen=kinds_ops, driver_failures=ncrash,
        stress=res, stress_seconds=secs, stress_clean=stress_ok, tsan_reports=len(rep)),
        time.time() - t0, len(verdict.new),
        ["each library call is atomic w.r.t. the pipe / queue mutex, so sequential issue in TLC's order realises the interleaving; "
         "real-thread schedules are sampled (not enumerated) by the ThreadSanitizer stress run",
         "only the epoll runtime is built on this platform; async_runtime_poll.c / the Windows runtimes are not exercised",
         "console_worker.c and the heart_beat_flag hand-over in src/backend.c are covered by C09/C12 traces, not here"])
    return rc


if __name__ == "__main__":
    vlib.main_wrapper(PROP, run)
