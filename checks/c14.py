#!/usr/bin/env python3
"""C14 — output reaches the client in order, exactly once, under any write pattern.
P1: OutRingImpl (ring indices, CR LF room test, contiguous chunk, send results) keeps wire a prefix
    of the accepted stream.  P2: OutRingGen enumerates message lengths / LF patterns / send results /
    flush points.  P3: traces of the real add_message()/flush_message() validated against OutRing."""
import os, sys, json, time, random
sys.path.insert(0, os.path.join(os.path.dirname(os.path.abspath(__file__)), "..", "tools"))
import vlib, build

PROP = "C14"
SPEC = os.path.join(vlib.VERIF, "spec", "outring")
BASE = "abcdefghijklmnopqrstuvwxyz"


def make_msg(m, ln, pat):
    r = m % 26
    rot = BASE[r:] + BASE[:r]
    hd = "<%d>" % m
    s = list((hd + rot * (ln // 26 + 2))[:ln])
    if pat == "l":
        if ln > len(hd):
            s[ln - 1] = "\n"
    elif pat[0] == "k":
        k = int(pat[1:])
        for i in range(k - 1, ln, k):
            if i >= len(hd):
                s[i] = "\n"
    return "".join(s).encode()


def expand(raw):
    """LF -> CR LF; returns (bytes, set of indices of inserted CRs)"""
    out = bytearray()
    crs = set()
    for b in raw:
        if b == 10:
            crs.add(len(out))
            out.append(13)
        out.append(b)
    return bytes(out), crs


def script_of(hist, fail=False):
    """fail: after every step the user also types a command nobody takes - the driver answers with the configured
    DefaultFailMsg, which goes through add_vmessage() (the formatted twin of add_message())"""
    ops = ["proj users", "backend", "connect u1", "cycle", "line u1 name u1", "cycle", "cycle"]
    m = 0
    for s in hist:
        ops.append("sendplan u1 " + s["plan"].replace(",", " "))
        m += 1
        cmd = "do me wr:%d:%d:%s" % (m, s["len1"], s["pat1"])
        if s["len2"]:
            m += 1
            cmd += ";wr:%d:%d:n" % (m, s["len2"])
        ops += ["line u1 " + cmd, "cycle"]
        if fail:
            ops += ["line u1 zz", "cycle"]
        a = s["after"]
        if a == "unblock":
            ops += ["unblock u1", "cycle"]
        elif a == "writable":
            ops += ["writable u1", "cycle"]
        elif a == "cycle2":
            ops += ["cycle", "cycle"]
        elif a == "hangup":
            ops += ["hangup u1", "cycle"]
        elif a == "tick":
            ops += ["tick 2", "cycle"]
        else:
            ops += ["cycle"]
    ops += ["unblock u1", "cycle", "unblock u1", "writable u1", "cycle", "cycle", "cycle"]
    return ops


def project(ex, failtext=None):
    """returns (abstract events, info) for user u1, starting after the connection setup"""
    evs = ex["events"]
    msgs = []      # dict(exp, crs, begin_idx, end_idx)
    wire = bytearray()
    sends = []     # (event index, n, start offset in wire)
    out_idx = []   # (kind, payload, event index)
    cur_echo = []
    last_ml = 0
    polls = []
    isdead = False
    for i, ev in enumerate(evs):
        e = ev.get("e")
        if ev.get("u") not in (None, "u1") and e in ("Send", "Read", "Interest", "Unregistered", "Wr", "WrEnd"):
            continue
        if e == "Accepted":
            out_idx.append(("conn", None, i))
        elif e == "Read":
            n = bytes.fromhex(ev["hex"]).count(b"\r\n")
            for _ in range(n):
                exp, crs = expand(b"\r\n")
                if isdead:
                    exp, crs = b"", set()
                msgs.append(dict(exp=exp, crs=crs, kind="echo"))
                out_idx.append(("wb", len(msgs) - 1, i))
                cur_echo.append(len(msgs) - 1)
        elif e == "Wr":
            exp, crs = expand(make_msg(ev["m"], ev["len"], ev["pat"]))
            if isdead:
                exp, crs = b"", set()     # NET_DEAD: add_message() returns at once, nothing is offered to the buffer
            msgs.append(dict(exp=exp, crs=crs, kind="wr"))
            out_idx.append(("wb", len(msgs) - 1, i))
        elif e == "FailCmd" and failtext is not None and ev.get("u") == "u1":
            exp, crs = expand(failtext + b"\n")       # written by the driver (notify_no_command -> add_vmessage), like the echo
            if isdead:
                exp, crs = b"", set()
            msgs.append(dict(exp=exp, crs=crs, kind="echo"))
            out_idx.append(("wb", len(msgs) - 1, i))
            cur_echo.append(len(msgs) - 1)
        elif e == "WrEnd":
            out_idx.append(("we", None, i))
        elif e == "Reported":
            # the write() efun itself raised an error (e.g. string longer than 8192): nothing was offered
            for j in range(len(out_idx) - 1, -1, -1):
                if out_idx[j][0] == "we":
                    break
                if out_idx[j][0] == "wb" and msgs[out_idx[j][1]]["kind"] == "wr":
                    msgs[out_idx[j][1]]["exp"] = b""
                    msgs[out_idx[j][1]]["crs"] = set()
                    out_idx.append(("we", None, i))
                    break
        elif e == "Send":
            if ev["n"] > 0:
                data = bytes.fromhex(ev["hex"])
                sends.append((i, ev["n"], len(wire)))
                wire += data
                out_idx.append(("send", len(sends) - 1, i))
            elif ev["res"] in ("EWOULDBLOCK", "EINTR"):
                out_idx.append(("blk", None, i))
            else:
                out_idx.append(("brk", None, i))
                isdead = True
        elif e == "Interest":
            out_idx.append(("int", ev["w"], i))
        elif e == "Unregistered":
            out_idx.append(("close", None, i))
        elif e == "Wait":
            out_idx.append(("poll", None, i))
        elif e == "Users":
            last_ml = 0      # residual only counts while the connection still exists
            for u in ev["l"]:
                if u["u"] == "u1":
                    last_ml = u["ml"]
            for u in ev["l"]:
                if u["u"] == "u1":
                    polls.append((len(msgs), len(wire), u["ml"]))   # messages begun so far, bytes sent so far, ring occupancy
    # the connection's own negotiation bytes (before the first echo/write) are message 0
    # greedy assignment of accepted prefixes
    # bytes sent before the first message begins = telnet negotiation of the driver (not judged here)
    first_msg_ev = next((i for k, p, i in out_idx if k == "wb"), None)
    pre = 0
    for (i, n, off) in sends:
        if first_msg_ev is None or i < first_msg_ev:
            pre = off + n
    W = bytes(wire[pre:])
    total = len(W) + last_ml
    sys.setrecursionlimit(10000)

    def mm_at(j, pos):
        exp = msgs[j]["exp"]
        k = 0
        while k < len(exp) and pos + k < total:
            if pos + k < len(W) and W[pos + k] != exp[k]:
                break
            k += 1
        return k

    # accepted total known exactly at every poll: bytes sent so far + ring occupancy
    target = {}
    for nm, nsent, ml in polls:
        if nm > 0 and nsent >= pre:
            target.setdefault(nm - 1, nsent - pre + ml)     # after message nm-1 (last begun before this poll)
    if target:
        total = max(total, max(target.values()))
    best = {"pos": -1, "acc": None}

    def solve(j, pos, accs):
        if j == len(msgs):
            if pos > best["pos"]:
                best["pos"] = pos
                best["acc"] = list(accs)
            return pos >= len(W)
        m = mm_at(j, pos)
        cands = (m, m - 1, m - 2, 0)     # 0: dropped entirely (identical echo messages make the longest match ambiguous)
        if pos + m > len(W) and len(W) >= pos:
            w0 = len(W) - pos
            cands = cands + (w0, w0 - 1, w0 - 2)
        if j in target:
            cands = (target[j] - pos,)
        exp_j = msgs[j]["exp"]
        crs_j = msgs[j]["crs"]
        # prefer assignments that do not end on an inserted CR when the bytes were never on the wire
        cands = sorted(set(cands), key=lambda k: ((k > 0 and k < len(exp_j) and (k - 1) in crs_j and pos + k > len(W)), -k))
        for k in cands:
            if k < 0 or k > m:
                continue
            accs.append(k)
            if solve(j + 1, pos + k, accs):
                return True
            accs.pop()
        return False

    if not solve(0, 0, []):
        pass   # best effort assignment: the longest explainable prefix
    accs = best["acc"] or [0] * len(msgs)
    pos = 0
    for mm, k in zip(msgs, accs):
        mm["acc"] = k
        mm["crsplit"] = k > 0 and k < len(mm["exp"]) and (k - 1) in mm["crs"]
        pos += k
    okupto = len(W) if pos >= len(W) else pos
    # emit
    out = [{"e": "Reset", "id": ex["id"]}]
    open_echo = []
    mcount = 0
    inw = None
    started = False
    for k, p, i in out_idx:
        if k == "conn":
            continue
        if k == "wb":
            started = True
            if inw is not None and msgs[inw]["kind"] == "echo":
                mm = msgs[inw]
                out.append({"e": "WriteEnd", "len": len(mm["exp"]), "acc": mm["acc"], "crsplit": bool(mm["crsplit"])})
                inw = None
            out.append({"e": "WriteBegin"})
            inw = p
            continue
        if k in ("we",) or (k in ("poll", "close") and inw is not None) or (inw is not None and msgs[inw]["kind"] == "echo" and k not in ("send", "blk", "brk", "int")):
            if inw is not None:
                mm = msgs[inw]
                out.append({"e": "WriteEnd", "len": len(mm["exp"]), "acc": mm["acc"], "crsplit": bool(mm["crsplit"])})
                inw = None
            if k == "we":
                continue
        if not started and k in ("send", "int", "poll", "blk", "brk"):
            if k == "poll":
                pass
            else:
                continue
        if k == "send":
            i_, n, off = sends[p]
            if off < pre:
                continue
            ok = (off - pre + n) <= okupto
            out.append({"e": "Send", "n": n, "ok": ok})
        elif k == "blk":
            out.append({"e": "SendBlocked"})
        elif k == "brk":
            out.append({"e": "SendBroken"})
        elif k == "int":
            out.append({"e": "Interest", "w": p})
        elif k == "close":
            out.append({"e": "Close"})
        elif k == "poll":
            if started:
                out.append({"e": "Poll"})
    return out


def run(tier, work):
    t0 = time.time()
    exe = build.ensure_harness("vdrv", ["vdrv.cpp"])
    verdict = vlib.Verdict(PROP)
    mc = vlib.model_check(SPEC, "OutRingImpl", "MCImpl.cfg" if tier == "quick" else "MCImplThorough.cfg", work, "p1", timeout=3000)
    print("TLC P1 OutRingImpl: %d states, %d transitions, %s" % (mc["states"], mc["transitions"], "ok" if mc["ok"] else "VIOLATED"))
    if not mc["ok"]:
        raise vlib.Broken("OutRingImpl violates its invariants:\n" + mc["out"][-2000:])
    hists, _ = vlib.generate(SPEC, "OutRingGen", "GenQuick.cfg" if tier == "quick" else "GenThorough.cfg", work, "p2a", cap=(None if tier == "quick" else 60000))
    hists, nexh = vlib.cap_histories(hists, 60000)
    if tier == "quick":
        rq = random.Random(vlib.SEED)
        hists.sort(key=lambda h: json.dumps(h, sort_keys=True))
        rq.shuffle(hists)
        hists = hists[:1500]
    nsim = 700 if tier == "quick" else 20000
    sims, _ = vlib.generate(SPEC, "OutRingGen", "GenSim.cfg", work, "p2b", workers=4,
                            simulate="num=%d" % nsim, extra=["-depth", "6", "-seed", str(vlib.SEED)], timeout=900)
    allh = hists + sims
    print("GEN %d behaviours (enumerated) + %d simulated (seed %d)" % (len(hists), len(sims), vlib.SEED))
    conf, _ = work.mudlib()
    scen = [(str(i), script_of(h)) for i, h in enumerate(allh)]
    t1 = time.time()
    exs = vlib.run_vdrv(exe, conf, scen, work, tag="run")
    print("RUN %d scenarios in %.1fs" % (len(exs), time.time() - t1))
    ncrash = 0
    for ex, sigs, raw in vlib.confirmed_crashes(exe, conf, scen, exs, work):
        for sig in sigs:
            ncrash += 1
            verdict.add(sig, [json.dumps(allh[int(ex["id"])])] + scen[int(ex["id"])][1], "driver failure in an output scenario", raw=raw)
    projs = [project(ex) for ex in exs]
    # the same histories (a sample) with a command nobody takes after every step: the fail message of the configuration
    # file is printed through add_vmessage(); formatted lengths around its 512-byte buffer
    nfail = 60 if tier == "quick" else 600
    fh = allh[:nfail]
    for L in (510, 511, 512, 1023):
        ftext = ("F" + "f" * (L - 2) + "!").encode()
        confL, _ = work.mudlib(name="mudlib_f%d" % L, conf_extra="DefaultFailMsg %s" % ftext.decode())
        scenL = [("f%d_%d" % (L, i), script_of(h, fail=True)) for i, h in enumerate(fh)]
        exsL = vlib.run_vdrv(exe, confL, scenL, work, tag="runf%d" % L)
        for ex, sigs, raw in vlib.confirmed_crashes(exe, confL, scenL, exsL, work):
            for sig in sigs:
                ncrash += 1
                verdict.add(sig, [json.dumps(fh[int(ex["id"].split("_")[1])])], "driver failure in an output scenario (fail message of %d bytes)" % L, raw=raw)
        exs += exsL
        allh = allh + fh
        projs += [project(ex, failtext=ftext) for ex in exsL]
    accepted, nevents, rejects = vlib.validate_executions(SPEC, "OutRingTrace", "OutRingTrace.cfg", projs, work)
    for badi, upto in rejects:
        bad = projs[badi][upto] if upto < len(projs[badi]) else {"e": "?"}
        sig = {"kind": "rejected", "event": bad.get("e")}
        if bad.get("e") == "Send":
            sig["ok"] = bad.get("ok")
        verdict.add(sig, [json.dumps(allh[badi])] + [json.dumps(p) for p in projs[badi][:upto + 1]],
                    "first unexplainable event #%d: %s" % (upto + 1, json.dumps(bad)))
    print("TLC P3 OutRingTrace: %d executions / %d events accepted" % (accepted, nevents))
    nontrivial = len({json.dumps(h, sort_keys=True) for h in allh if any(s["plan"] != "all" or s["len1"] >= 4095 for s in h)})
    rc = verdict.finish()
    samples = [{"history": allh[0], "trace": projs[0][:16]}, {"history": allh[-1], "trace": projs[-1][:24]}]
    vlib.write_evidence(PROP, tier, "model_checking", dict(
        states=mc["states"], transitions=mc["transitions"], traces_validated_against_impl=accepted,
        samples=samples, evaluations=len(exs), distinct_nontrivial=nontrivial,
        rule="write lengths x LF patterns x send-result plans x flush points printed by TLC from OutRingGen; non-trivial = some "
             "send result other than 'all' or a message of at least 4095 bytes; distinct by JSON text",
        exhaustive=False, enumerated_run=nexh, events_validated=nevents, driver_failures=ncrash),
        time.time() - t0, len(verdict.new),
        ["byte contents are compared by the projection (tools), the protocol/accounting by TLC", "scripted send() results"])
    return rc


if __name__ == "__main__":
    vlib.main_wrapper(PROP, run)
