#!/usr/bin/env python3
"""C18 — runtime errors are reported at the right file and line with a correct trace.
P1: LineMapImpl (absolute line numbering, file_info segments, byte runs of at most 255 code bytes with the
    line in a 16-bit short, find_line / translate_absolute_line) decodes every program counter to Where.
P2: LineMapGen enumerates layouts: failing statement in the main file / an include (nesting 1, 2) / after an
    include / an inherited program / a function literal / a global initialiser x line offset x amount of code
    before it (incl. statements of more than 255 and more than 510 code bytes) x call-chain depth, plus very long files.
P3: the generated sources run in the real driver; the mapping handed to the master's error_handler (file, line,
    trace) is validated against LineMap."""
import os, sys, json, time, random
sys.path.insert(0, os.path.join(os.path.dirname(os.path.abspath(__file__)), "..", "tools"))
import vlib, build

PROP = "C18"
SPEC = os.path.join(vlib.VERIF, "spec", "linemap")


def padcode(p):
    if p == "none":
        return []
    if p == "short":
        return ["  x = a + 1;"]
    if p == "contdef":       # a #define continued over three physical lines, then used
        return ["#define C18M(v) \\", "    ((v) + \\", "     1)", "  x = C18M(a);"]
    if p == "mlcall":        # a macro invocation and a plain expression spread over several lines
        return ["#define C18N(p, q) ((p) + (q))", "  x = C18N(a,", "      a", "      );", "  x = a +", "      a;"]
    if p == "mlcomment":     # a block comment over three lines with code behind it; a line comment inside an expression
        return ["  /* a comment", "     over three", "     lines */ x = a;", "  x = \"s\" + // trailing", "      \"t\";"]
    if p == "ifdef":         # skipped conditional blocks
        return ["#if 0", "  x = nothing here;", "  more nothing", "#else", "  x = a;", "#endif", "#ifdef NO_SUCH_C18", "  junk", "#endif"]
    one = "  x = " + " + ".join(["a"] * 150) + ";"       # about 300 code bytes: more than one 255-byte run
    return [one] if p == "long" else [one, one, one]


def make_layout(root, i, it):
    """writes the sources; returns dict(file, line, chain, obj)"""
    d = os.path.join(root, "c18", str(i))
    os.makedirs(d, exist_ok=True)
    base = "c18/%d" % i
    kind, extra, depth = it["kind"], it["line"], it["depth"]

    def body_func(name="inner"):
        # the function that contains the failing statement; returns (lines, index of failing line within them)
        if kind == "funlit":
            lines = ["mixed %s(int d) {" % name, "  mixed x; function f;"] + padcode(it["pad"]) + \
                    ["  f = (: 1 / $1 :);", "  return evaluate(f, zero);", "}"]
            return lines, len(lines) - 3
        if kind == "anonfn":      # a multi-line function literal; the failing statement is the LAST code line of its body
            lines = ["mixed %s(int d) {" % name, "  mixed x; function f;"] + padcode(it["pad"]) + \
                    ["  f = function(int z) {", "    mixed q;", "    q = 7;", "    q = 1 / z;", "  };", "  return evaluate(f, zero);", "}"]
            return lines, len(lines) - 4
        lines = ["mixed %s(int d) {" % name, "  mixed x;"] + padcode(it["pad"]) + ["  x = 1 / zero;", "  return x;", "}"]
        return lines, len(lines) - 3

    chain_fns = ["lvl%d" % k for k in range(depth, 0, -1)]     # go -> lvlN -> ... -> lvl1 -> inner

    def callers(prog):
        out = []
        prev = "inner"
        for k in range(1, depth + 1):
            out.append("mixed lvl%d() { return %s(%d); }" % (k, prev, k) if prev == "inner" else "mixed lvl%d() { return %s(); }" % (k, prev))
            prev = "lvl%d" % k
        out.append("void go() { %s(); }" % prev)
        return out

    hdr = ["// generated layout %s" % json.dumps(it), "int zero;", "mixed a = 1;"]
    fl, fidx = body_func()
    blank = [""] * extra
    if kind in ("main", "funlit", "anonfn"):
        src = hdr + blank + fl + callers("m")
        line = len(hdr) + extra + fidx + 1
        open(os.path.join(d, "m.c"), "w").write("\n".join(src) + "\n")
        exp_file, prog = base + "/m.c", base + "/m.c"
    elif kind in ("inc1", "inc2"):
        h = ["// header"] + blank + fl
        hline = 1 + extra + fidx + 1
        if kind == "inc1":
            open(os.path.join(d, "h1.h"), "w").write("\n".join(h) + "\n")
            inc = '#include "/%s/h1.h"' % base
            exp_file = base + "/h1.h"
        else:
            open(os.path.join(d, "h2.h"), "w").write("\n".join(h) + "\n")
            open(os.path.join(d, "h1.h"), "w").write("// outer header\nint h1dummy;\n#include \"/%s/h2.h\"\nint h1after;\n" % base)
            inc = '#include "/%s/h1.h"' % base
            exp_file = base + "/h2.h"
        src = hdr + ["int before;", inc, "int after;"] + callers("m")
        open(os.path.join(d, "m.c"), "w").write("\n".join(src) + "\n")
        line, prog = hline, base + "/m.c"
    elif kind in ("inc_2nd", "inc2_2nd", "after_2inc"):
        # several #include lines in ONE file: the failing statement is in the second header / right after the second include
        open(os.path.join(d, "h0.h"), "w").write("// first header\nint h0v1;\nint h0v2;\nint h0fn() { return 2; }\n")
        if kind == "after_2inc":
            open(os.path.join(d, "h1.h"), "w").write("// second header\nint h1v;\n" + "\n" * extra)
            src = hdr + ["int before;", '#include "/%s/h0.h"' % base, "int between1;", "int between2;", '#include "/%s/h1.h"' % base] + fl + callers("m")
            line = len(hdr) + 5 + fidx + 1
            exp_file = base + "/m.c"
        elif kind == "inc_2nd":
            h = ["// second header"] + blank + fl
            open(os.path.join(d, "h1.h"), "w").write("\n".join(h) + "\n")
            src = hdr + ["int before;", '#include "/%s/h0.h"' % base, "int between1;", "int between2;", '#include "/%s/h1.h"' % base, "int after;"] + callers("m")
            line = 1 + extra + fidx + 1
            exp_file = base + "/h1.h"
        else:     # the two includes are inside an outer header
            h = ["// inner second header"] + blank + fl
            open(os.path.join(d, "h2.h"), "w").write("\n".join(h) + "\n")
            open(os.path.join(d, "h1.h"), "w").write("// outer header\nint h1dummy;\n#include \"/%s/h0.h\"\nint h1mid;\n#include \"/%s/h2.h\"\nint h1after;\n" % (base, base))
            src = hdr + ["int before;", '#include "/%s/h1.h"' % base, "int after;"] + callers("m")
            line = 1 + extra + fidx + 1
            exp_file = base + "/h2.h"
        open(os.path.join(d, "m.c"), "w").write("\n".join(src) + "\n")
        prog = base + "/m.c"
    elif kind == "after_inc":
        open(os.path.join(d, "h1.h"), "w").write("// header\nint hv1;\nint hv2;\nint hfn() { return 1; }\n" + "\n" * extra)
        src = hdr + ['#include "/%s/h1.h"' % base] + fl + callers("m")
        line = len(hdr) + 1 + fidx + 1
        open(os.path.join(d, "m.c"), "w").write("\n".join(src) + "\n")
        exp_file, prog = base + "/m.c", base + "/m.c"
    elif kind == "inherit":
        psrc = hdr + blank + fl
        line = len(hdr) + extra + fidx + 1
        open(os.path.join(d, "p.c"), "w").write("\n".join(psrc) + "\n")
        src = ['inherit "/%s/p";' % base, "int childvar;"] + callers("m")
        open(os.path.join(d, "m.c"), "w").write("\n".join(src) + "\n")
        exp_file, prog = base + "/p.c", base + "/p.c"
    elif kind == "init":
        src = hdr + blank + ["int zfn() { return zero; }"] + padcode("none") + ["mixed g = 1 / zfn();", "void go() { }"]
        line = len(hdr) + extra + 2
        open(os.path.join(d, "m.c"), "w").write("\n".join(src) + "\n")
        exp_file, prog = base + "/m.c", base + "/m.c"
        return dict(file=exp_file, line=line, chain=[], obj="/%s/m" % base, init=True)
    chain = [["go", base + "/m.c"]] + [[f, base + "/m.c"] for f in chain_fns] + [["inner", prog]]
    if kind == "funlit":
        chain = chain     # the literal adds frames of its own after `inner`; judged as a prefix below
    return dict(file=exp_file, line=line, chain=chain, obj="/%s/m" % base, init=False, funlit=(kind in ("funlit", "anonfn")))


def run(tier, work):
    t0 = time.time()
    exe = build.ensure_harness("vdrv", ["vdrv.cpp"])
    verdict = vlib.Verdict(PROP)
    lx = vlib.model_check(SPEC, "LexSegs", "MCLex.cfg", work, "p1l", timeout=900)
    lxm = vlib.model_check(SPEC, "LexSegs", "MCLexMut.cfg", work, "p1lm", timeout=900)
    print("TLC P1 LexSegs (segments written by the lexer, several includes per file): %d states, %s; with the saved point reset before the save: %s" %
          (lx["states"], "ok" if lx["ok"] else "VIOLATED", "ok" if lxm["ok"] else "violated, as required"))
    if not lx["ok"] or lxm["ok"]:
        raise vlib.Broken("LexSegs: the model as written must hold and its weakening must be violated")
    mc = vlib.model_check(SPEC, "LineMapImpl", "MCImpl.cfg", work, "p1", timeout=1500)
    print("TLC P1 LineMapImpl: %d states, %d transitions, %s" % (mc["states"], mc["transitions"], "ok" if mc["ok"] else "VIOLATED"))
    if not mc["ok"]:
        raise vlib.Broken("LineMapImpl violates DecodeOk")
    items, gs = vlib.generate(SPEC, "LineMapGen", "GenAll.cfg", work, "p2", timeout=600)
    items.sort(key=lambda x: json.dumps(x, sort_keys=True))
    items = [it for it in items if not (it["kind"] == "init" and (it["pad"] != "none" or it["depth"] != 1))]
    # very long files (hand-listed extremes: both sides of the 16-bit boundaries)
    items += [dict(kind="main", line=n, pad="short", depth=1) for n in (32000, 33000, 66000)]
    items += [dict(kind="after_inc", line=n, pad="none", depth=1) for n in (33000,)]
    if tier == "quick":
        rnd = random.Random(vlib.SEED)
        head = [it for it in items if it["line"] > 30000]
        rest = [it for it in items if it["line"] <= 30000]
        rnd.shuffle(rest)
        items = rest[:400] + head
    conf, root = work.mudlib()
    lay = [make_layout(root, i, it) for i, it in enumerate(items)]
    scen = []
    for i, L in enumerate(lay):
        ops = ["backend", "connect u1", "cycle", "line u1 name u1", "cycle", "line u1 do me mk:t:%s" % L["obj"], "cycle"]
        if not L["init"]:
            ops += ["line u1 do me xcall:t:go", "cycle"]
        scen.append((str(i), ops + ["cycle"]))
    exs = vlib.run_vdrv(exe, conf, scen, work, tag="run", timeout=30)
    print("GEN %d layouts (%d generator states); RUN %d scenarios" % (len(items), gs["states"], len(exs)))
    ncrash = 0
    for ex, sigs, raw in vlib.confirmed_crashes(exe, conf, scen, exs, work):
        for sig in sigs:
            ncrash += 1
            verdict.add(sig, [json.dumps(items[int(ex["id"])])], "driver failure: " + json.dumps(items[int(ex["id"])]), raw=raw)
    projs = []
    for ex in exs:
        L = lay[int(ex["id"])]
        out = [{"e": "Reset", "id": ex["id"], "file": L["file"], "line": L["line"], "chain": L["chain"]}]
        for ev in ex["events"]:
            if ev.get("e") == "Reported" and not ev.get("caught") and ("Division by zero" in ev.get("err", "") or "ivision" in ev.get("err", "")):
                frames = [[fr[0], fr[1].lstrip("/")] for fr in ev["trace"]]
                if L.get("funlit"):
                    # the literal's own frame(s) follow `inner`: judge the chain up to `inner`
                    while frames and frames[-1][0] != "inner":
                        frames.pop()
                out.append({"e": "Report", "file": ev["file"].lstrip("/"), "line": ev["line"], "frames": frames})
        out.append({"e": "Finished"})
        projs.append(out)
    accepted, nevents, rejects = vlib.validate_executions(SPEC, "LineMapTrace", "LineMapTrace.cfg", projs, work, max_rejects=30)
    for badi, upto in rejects:
        bad = projs[badi][upto] if upto < len(projs[badi]) else {"e": "?"}
        it = items[badi]
        sig = {"kind": "rejected", "event": bad.get("e"), "layout_kind": it["kind"], "pad": it["pad"], "big": it["line"] > 30000}
        if bad.get("e") == "Report":
            sig["file_ok"] = bad["file"] == lay[badi]["file"]
            sig["line_ok"] = bad["line"] == lay[badi]["line"]
        verdict.add(sig, [json.dumps(it), json.dumps(projs[badi][0])] + [json.dumps(p) for p in projs[badi][1:upto + 1]],
                    "layout %s expected %s:%d got %s" % (json.dumps(it), lay[badi]["file"], lay[badi]["line"], json.dumps(bad)[:300]))
    print("TLC P3 LineMapTrace: %d executions / %d events accepted" % (accepted, nevents))
    rc = verdict.finish()
    samples = [{"layout": items[0], "expected": lay[0], "trace": projs[0][1:3]}, {"layout": items[-1], "expected": {k: lay[-1][k] for k in ("file", "line")}}]
    vlib.write_evidence(PROP, tier, "model_checking", dict(
        states=mc["states"], transitions=mc["transitions"], traces_validated_against_impl=accepted,
        samples=samples, evaluations=len(exs), distinct_nontrivial=len({json.dumps(it, sort_keys=True) for it in items}),
        rule="layouts printed by TLC from LineMapGen (kind x line offset x code before x call depth; sampled in quick mode) plus hand-listed very long files; "
             "every layout is non-trivial (it raises a real division-by-zero error at a known place); distinct by JSON text",
        exhaustive=(tier != "quick"), events_validated=nevents, driver_failures=ncrash),
        time.time() - t0, len(verdict.new), ["scenario master's error_handler logs the mapping it receives"])
    return rc


if __name__ == "__main__":
    vlib.main_wrapper(PROP, run)
