#!/usr/bin/env python3
"""C10 — call_out fires exactly once, on time, and can be cancelled.
P1: CallOutWheel (impl-shaped, scaled) satisfies NeverEarly/OnTime/TimeLeftOk exhaustively.
P2: CallOutGen enumerates input histories (real constants, delays around 32) -> scenario scripts.
P3: the traces recorded from the real backend() are validated against CallOut (abstract spec)."""
import os, sys, json, time, random
sys.path.insert(0, os.path.join(os.path.dirname(os.path.abspath(__file__)), "..", "tools"))
import vlib, build

PROP = "C10"
SPEC = os.path.join(vlib.VERIF, "spec", "callout")

SCR = {"none": "", "co1": "co:A:1:{n}", "co31": "co:A:31:{n}", "co32": "co:A:32:{n}", "co33": "co:A:33:{n}",
       "co64": "co:B:64:{n}", "rmh": "rmh:{o}", "fdh": "fdh:{o}", "rmn": "rmn:A", "fdn": "fdn:A", "err": "err",
       "co32err": "co:A:32:{n}|err", "dest": "dest:me", "co32x2": "co:A:32:{n}|co:B:32:{n}b"}


def script_of(hist, sid):
    """history (list of step records printed by TLC) -> op lines for vdrv"""
    ops = ["proj callouts", "backend", "connect u1", "cycle", "line u1 name u1", "cycle",
           "line u1 do me mk:o1:/obj/sc;mk:o2:/obj/sc", "cycle"]
    ids = []      # (id, ob) of top-level call_outs in order
    cos = [s for s in hist if s["a"] == "co"]
    n = 0
    pend_cycle = False
    for s in hist:
        a = s["a"]
        if a == "co":
            n += 1
            kid = "k%d" % n
            other = "k%d" % (n + 1 if n < len(cos) else max(1, n - 1))
            body = SCR[s["scr"]].format(n=kid + "c", o=other)
            # handles live in the object that scheduled: rmh/fdh of another object's id answer -1
            pre = ("set=%s=%s;" % (kid, body)) if body else ""
            ops.append("line u1 do %s %sco:%s:%d:%s" % (s["ob"], pre, s["fn"], s["d"], kid))
            ids.append((kid, s["ob"]))
            pend_cycle = True
        elif a == "tick":
            if pend_cycle and not s["join"]:
                ops.append("cycle")
            ops.append("tick %d" % s["dt"])
            ops.append("cycle")
            pend_cycle = False
            continue
        elif a in ("rmh", "fdh"):
            kid, ob = ids[s["k"] - 1]
            ops.append("line u1 do %s %s:%s" % (ob, a, kid))
            pend_cycle = True
        elif a in ("rmn", "fdn"):
            ops.append("line u1 do %s %s:%s" % (s["ob"], a, s["fn"]))
            pend_cycle = True
        elif a == "dest":
            ops.append("line u1 do me dest:%s" % s["ob"])
            pend_cycle = True
        if pend_cycle:
            ops.append("cycle")
            pend_cycle = False
    # let everything still pending come due: two ticks, the second after a stall
    ops += ["tick 1", "cycle", "tick 70", "cycle", "tick 1", "cycle", "cycle"]
    return ops


def project(ex):
    """recorded events -> abstract trace events of CallOut"""
    out = [{"e": "Reset", "id": ex["id"]}]
    names = {}
    for ev in ex["events"]:
        e = ev.get("e")
        if e == "Mk":
            names["ob:" + ev["fname"].lstrip("/")] = ev["ob"]
        elif e == "Sched":
            out.append({"e": "Sched", "ob": ev["ob"], "fn": ev["fn"], "id": ev["id"], "d": ev["d"], "h": ev["h"]})
        elif e == "TickBegin":
            out.append({"e": "TickBegin", "now": ev["now"]})
        elif e == "Fire":
            out.append({"e": "Fire", "ob": ev["ob"], "fn": ev["fn"], "id": ev["id"]})
        elif e in ("Rm", "Fd"):
            pre = "Rm" if e == "Rm" else "Fd"
            if ev["by"] == "name":
                out.append({"e": pre + "Name", "ob": ev["ob"], "fn": ev["fn"], "ret": ev["ret"]})
            else:
                out.append({"e": pre + "Handle", "id": ev["id"], "ret": ev["ret"]})
        elif e == "Dest" and ev.get("live"):
            out.append({"e": "Destruct", "ob": ev["ob"] if ev["ob"] != "me" else ev["by"]})
        elif e == "Pending":
            view = []
            for ob, fn, left in ev["l"]:
                view.append([names.get(ob, ob), fn[2:] if isinstance(fn, str) and fn.startswith("cb") else str(fn), left])
            out.append({"e": "Poll", "view": sorted(view, key=json.dumps)})
    return out


def run(tier, work):
    t0 = time.time()
    exe = build.ensure_harness("vdrv", ["vdrv.cpp"])
    verdict = vlib.Verdict(PROP)
    # ---- P1
    mc = vlib.model_check(SPEC, "CallOutWheel", "MCWheelFixed.cfg" if tier == "quick" else "MCWheelThorough.cfg",
                          work, "p1", timeout=3000)
    print("TLC P1 CallOutWheel: %d states, %d transitions, %s" % (mc["states"], mc["transitions"], "ok" if mc["ok"] else "VIOLATED"))
    if not mc["ok"]:
        raise vlib.Broken("the wheel model itself violates its invariants:\n" + mc["out"][-2000:])
    # ---- P2
    hists, gs = vlib.generate(SPEC, "CallOutGen", "GenQuick.cfg" if tier == "quick" else "GenThorough.cfg", work, "p2a")
    hists, nexh = vlib.cap_histories(hists, 120000)
    nsim = 1500 if tier == "quick" else 30000
    sims, _ = vlib.generate(SPEC, "CallOutGen", "GenSim.cfg", work, "p2b", workers=4,
                            simulate="num=%d" % nsim, extra=["-depth", "8", "-seed", str(vlib.SEED)], timeout=900)
    rnd = random.Random(vlib.SEED)
    sims.sort(key=lambda h: json.dumps(h, sort_keys=True))
    rnd.shuffle(sims)
    sims = sims[:nsim]
    allh = hists + sims
    print("GEN %d behaviours (exhaustive) + %d simulated (seed %d)" % (len(hists), len(sims), vlib.SEED))
    conf, _ = work.mudlib()
    scen = [(str(i), script_of(h, i)) for i, h in enumerate(allh)]
    t1 = time.time()
    exs = vlib.run_vdrv(exe, conf, scen, work, tag="run")
    print("RUN %d scenarios in %.1fs" % (len(exs), time.time() - t1))
    # ---- process-level failures
    ncrash = 0
    for ex, sigs, raw in vlib.confirmed_crashes(exe, conf, scen, exs, work):
        for sig in sigs:
            ncrash += 1
            verdict.add(sig, [json.dumps(allh[int(ex["id"])])] + scen[int(ex["id"])][1], "driver failure in a call_out scenario", raw=raw)
    # ---- P3
    projs = [project(ex) for ex in exs]
    accepted, nevents, rejects = vlib.validate_executions(SPEC, "CallOutTrace", "CallOutTrace.cfg", projs, work)
    for badi, upto in rejects:
        sig = signature(exs[badi], projs[badi], upto)
        verdict.add(sig, [json.dumps(allh[badi])] + [json.dumps(p) for p in projs[badi][:upto + 1]],
                    "first unexplainable event #%d: %s" % (upto + 1, json.dumps(projs[badi][upto]) if upto < len(projs[badi]) else "?"))
    print("TLC P3 CallOutTrace: %d executions / %d events accepted" % (accepted, nevents))
    nontrivial = len({json.dumps(h, sort_keys=True) for h in allh if sum(1 for s in h if s["a"] == "co") >= 1 and any(s["a"] == "tick" for s in h)})
    rc = verdict.finish()
    samples = [{"history": allh[0], "trace": projs[0][:12]}] if allh else []
    if len(allh) > 1:
        samples.append({"history": allh[-1], "trace": projs[-1][:14]})
    vlib.write_evidence(PROP, tier, "model_checking", dict(
        states=mc["states"], transitions=mc["transitions"], traces_validated_against_impl=accepted,
        samples=samples, evaluations=len(exs), distinct_nontrivial=nontrivial,
        rule="histories of call_out/remove/find/tick/destruct steps printed by TLC from CallOutGen (BFS to the stated depth, plus -simulate); "
             "non-trivial = schedules at least one call_out and contains a tick; distinct by JSON text",
        exhaustive=False, enumerated_by_tlc=nexh, enumerated_run=len(hists), events_validated=nevents, driver_failures=ncrash,
        wheel_model="CallOutWheel C=4 " + ("MCWheelFixed.cfg" if tier == "quick" else "MCWheelThorough.cfg")),
        time.time() - t0, len(verdict.new),
        ["virtual time; the reactor, accept/recv/send and the timer thread are scripted at link time",
         "wheel model uses C=4; behaviours replayed on the real C=32 build"])
    return rc


def signature(ex, proj, upto):
    """abstract description of the first event the specification cannot explain"""
    bad = proj[upto] if upto < len(proj) else {"e": "?"}
    sig = {"kind": "rejected", "event": bad.get("e")}
    sched_ctx = {ev["id"]: (ev["ctx"], ev["d"]) for ev in ex["events"] if ev.get("e") == "Sched"}
    if bad.get("e") == "Poll":
        # which entries are overdue at this poll?
        now = None
        pend = {}
        for p in proj[:upto]:
            if p["e"] == "TickBegin":
                now = p["now"]
        sig["detail"] = "overdue entry or listing mismatch at poll"
    elif bad.get("e") == "Fire":
        c = sched_ctx.get(bad.get("id"))
        sig["detail"] = "fire not enabled (early, twice, removed or dead)"
        if c:
            sig["sched_ctx"] = c[0]
    elif bad.get("e", "").startswith(("Rm", "Fd")):
        sig["detail"] = "wrong time-left answer"
    return sig


if __name__ == "__main__":
    vlib.main_wrapper(PROP, run)
