#!/usr/bin/env python3
"""C03 — compiled bytecode computes exactly what LPC semantics define; equivalent spellings agree.
Oracle: spec/lpcsem/LpcSem.tla defines the reference semantics of the value core as operators that TLC evaluates;
LpcGen is the abstract stack machine over them: TLC enumerates every postfix program up to a bound (BFS) and longer
random ones (-simulate) and prints each with the value the reference semantics gives it.
Binding: each program is rendered as LPC in up to nine equivalent spellings (all-literal = constant folding, typed
locals, mixed locals, globals, function arguments, macro expansion, function literal, 'x op= y', pre-computed
sub-expressions), compiled and run in the real driver; TLC validates the Result events against LpcSemTrace: every
spelling returns the expected value (or raises the expected class of error).
Beyond TLC's 32-bit integers the expected values come from checks/lpcref.py, a transcription of LpcSem that is
cross-checked against every pair TLC printed; it drives the int64-extremes grid, and the statement shapes (loop forms,
switch vs if-chain, ++/-- forms, range assignment vs concatenation, int/float mixes) where all spellings must agree."""
import os, sys, json, time, random, re
sys.path.insert(0, os.path.join(os.path.dirname(os.path.abspath(__file__)), "..", "tools"))
import vlib, build
import lpcref as R

PROP = "C03"
SPEC = os.path.join(vlib.VERIF, "spec", "lpcsem")
BINSYM = {"add": "+", "sub": "-", "mul": "*", "div": "/", "mod": "%", "and": "&", "or": "|", "xor": "^", "shl": "<<", "shr": ">>",
          "lt": "<", "le": "<=", "gt": ">", "ge": ">=", "eq": "==", "ne": "!="}
OPASSIGN = {"add", "sub", "mul", "div", "mod", "and", "or", "xor", "shl", "shr"}


# ---------------------------------------------------------------------------------------------- rendering
def lit(v):
    """LPC literal of a tagged value"""
    if v[0] == "i":
        n = v[1]
        if n == -(1 << 63):
            return "(-9223372036854775807 - 1)"
        return "(%d)" % n if n < 0 else "%d" % n
    if v[0] == "s":
        out = ""
        for c in v[1]:
            ch = chr(c)
            out += "\\" + ch if ch in '"\\' else ("\\n" if ch == "\n" else ch)
        return '"%s"' % out
    if v[0] == "a":
        return "({ " + ", ".join(lit(e) for e in v[1]) + " })"
    if v[0] == "f":
        return repr(float(v[1]))
    if v[0] == "m":
        ent = ["%s : %s" % (lit(k), lit(x)) for k, x in v[1]]
        return "([ " + ",\n    ".join(", ".join(ent[i:i + 8]) for i in range(0, len(ent), 8)) + " ])"
    raise ValueError(v)


def tree_of(code):
    """postfix -> tree; leaves numbered in order of appearance"""
    st, leaves = [], []
    for tk in code:
        k = tk["k"]
        if k in ("int", "str", "arr"):
            v = R.I(tk["v"]) if k == "int" else R.S(tk["v"]) if k == "str" else R.A([R.from_json(e) for e in tk["v"]])
            leaves.append(v)
            st.append(("leaf", len(leaves) - 1))
        elif k == "bin":
            y = st.pop(); x = st.pop(); st.append(("bin", tk["v"], x, y))
        elif k == "un":
            st.append(("un", tk["v"], st.pop()))
        elif k == "lazy":
            y = st.pop(); x = st.pop(); st.append(("lazy", tk["v"], x, y))
        elif k == "cond":
            y = st.pop(); x = st.pop(); c = st.pop(); st.append(("cond", c, x, y))
        elif k == "index":
            i = st.pop(); x = st.pop(); st.append(("index", tk["v"], x, i))
        elif k == "range":
            j = st.pop(); i = st.pop(); x = st.pop(); st.append(("range", tk["ie"], tk["je"], x, i, j))
    return st[0], leaves


def render(t, leaf):
    k = t[0]
    if k == "leaf":
        return leaf(t[1])
    if k == "bin":
        return "(%s %s %s)" % (render(t[2], leaf), BINSYM[t[1]], render(t[3], leaf))
    if k == "un":
        x = render(t[2], leaf)
        return {"not": "(!%s)", "neg": "(-%s)", "compl": "(~%s)", "sizeof": "sizeof(%s)"}[t[1]] % x
    if k == "lazy":
        return "(%s %s %s)" % (render(t[2], leaf), "&&" if t[1] == "land" else "||", render(t[3], leaf))
    if k == "cond":
        return "(%s ? %s : %s)" % (render(t[1], leaf), render(t[2], leaf), render(t[3], leaf))
    if k == "index":
        return "%s[%s%s]" % (render(t[2], leaf), "<" if t[1] else "", render(t[3], leaf))
    if k == "range":
        return "%s[%s%s..%s%s]" % (render(t[3], leaf), "<" if t[1] else "", render(t[4], leaf), "<" if t[2] else "", render(t[5], leaf))
    raise ValueError(t)


def value_of(t, leaves):
    """eager value of a subtree (every operand evaluated)"""
    k = t[0]
    if k == "leaf": return leaves[t[1]]
    if k == "bin": return R.Bin(t[1], value_of(t[2], leaves), value_of(t[3], leaves))
    if k == "un": return R.Un(t[1], value_of(t[2], leaves))
    if k == "lazy":
        x, y = value_of(t[2], leaves), value_of(t[3], leaves)
        return R.LAnd(x, y) if t[1] == "land" else R.LOr(x, y)
    if k == "cond": return R.Cond(value_of(t[1], leaves), value_of(t[2], leaves), value_of(t[3], leaves))
    if k == "index": return R.Index(value_of(t[2], leaves), value_of(t[3], leaves), t[1])
    if k == "range": return R.Range(value_of(t[3], leaves), value_of(t[4], leaves), t[1], value_of(t[5], leaves), t[2])


def any_error(t, leaves):
    if t[0] == "leaf":
        return False
    if R.is_err(value_of(t, leaves)):
        return True
    return any(any_error(c, leaves) for c in t[1:] if isinstance(c, tuple))


def decl(v, name, mixed=False):
    ty = "mixed" if mixed else {"i": "int", "s": "string", "a": "mixed *", "f": "float"}[v[0]]
    return "%s %s = %s;" % (ty, name, lit(v))


def spellings(pid, code, expect):
    """-> list of (spelling name, function source) for one program; every function is named p<pid>_<spelling>"""
    tree, leaves = tree_of(code)
    n = len(leaves)
    L = lambda i: lit(leaves[i])
    V = lambda i: "a%d" % i
    out = []
    fn = lambda s: "p%d_%s" % (pid, s)
    foldable = not R.is_err(expect) and not any_error(tree, leaves)      # the compiler folds (and rejects) constant sub-expressions even in branches never taken
    if foldable:
        out.append(("const", "mixed %s() { return %s; }" % (fn("const"), render(tree, L))))
    out.append(("vars", "mixed %s() { %s return %s; }" % (fn("vars"), " ".join(decl(leaves[i], V(i)) for i in range(n)), render(tree, V))))
    out.append(("mixed", "mixed %s() { %s return %s; }" % (fn("mixed"), " ".join(decl(leaves[i], V(i), True) for i in range(n)), render(tree, V))))
    G = lambda i: "g%d" % i
    out.append(("global", "mixed %s() { %s return %s; }" % (fn("global"), " ".join("%s = %s;" % (G(i), L(i)) for i in range(n)), render(tree, G))))
    args = ", ".join("%s a%d" % ({"i": "int", "s": "string", "a": "mixed *", "f": "float"}[leaves[i][0]], i) for i in range(n))
    out.append(("args", "mixed %s_f(%s) { return %s; }\nmixed %s() { return %s_f(%s); }" % (fn("args"), args, render(tree, V), fn("args"), fn("args"), ", ".join(L(i) for i in range(n)))))
    if foldable:
        out.append(("macro", "#define M%d(%s) %s\nmixed %s() { return M%d(%s); }" % (pid, ", ".join(V(i) for i in range(n)), render(tree, V), fn("macro"), pid, ", ".join(L(i) for i in range(n)))))
    D = lambda i: "$%d" % (i + 1)
    out.append(("fp", "mixed %s() { return evaluate((: %s :), %s); }" % (fn("fp"), render(tree, D), ", ".join(L(i) for i in range(n)))))
    if tree[0] == "bin" and tree[1] in OPASSIGN:
        out.append(("opassign", "mixed %s() { %s mixed t = %s; t %s= %s; return t; }" % (
            fn("opassign"), " ".join(decl(leaves[i], V(i), True) for i in range(n)), render(tree[2], V), BINSYM[tree[1]], render(tree[3], V))))
        if tree[2][0] == "leaf" and tree[3][0] == "leaf" and leaves[tree[2][1]][0] == leaves[tree[3][1]][0]:      # statically well-typed only
            out.append(("optyped", "mixed %s() { %s t %s= %s; return t; }" % (
                fn("optyped"), " ".join(decl(leaves[i], V(i)) for i in range(n)) + " " + _typed_t(tree[2], leaves, V), BINSYM[tree[1]], render(tree[3], V))))
    return out


def _typed_t(sub, leaves, V):
    """declaration of t initialised with the left operand, with its static type when it is a plain leaf"""
    if sub[0] == "leaf":
        ty = {"i": "int", "s": "string", "a": "mixed *", "f": "float"}[leaves[sub[1]][0]]
        return "%s t = %s;" % (ty, V(sub[1]))
    return "mixed t = %s;" % render(sub, V)


HEADER = """// generated by checks/c03.py
mixed g0, g1, g2, g3, g4, g5, g6, g7, g8, g9, g10, g11;
mixed wrap(function f) { mixed e, v; e = catch(v = evaluate(f)); if (e) return ({ "ERR", e }); return ({ "OK", v }); }
"""


def file_of(progs):
    """progs: list of (pid, [(spelling, src)]) -> (source text, [(pid, spelling)] in result order)"""
    src = [HEADER]
    order = []
    for pid, sp in progs:
        for name, s in sp:
            src.append(s)
            order.append((pid, name))
    src.append("mixed *all() {\n  return ({\n" + ",\n".join("    wrap((: p%d_%s :))" % (pid, name) for pid, name in order) + "\n  });\n}\n")
    return "\n".join(src), order


def to_tagged(j):
    """harness JSON of an LPC value -> tagged tuple"""
    if isinstance(j, bool):
        return R.I(int(j))
    if isinstance(j, int):
        return R.I(j)
    if isinstance(j, str):
        if j.startswith("f:"):
            return ("f", float(j[2:]) + 0.0 if float(j[2:]) != 0.0 else 0.0)      # the sign of a zero is not compared
        return R.S([b for b in j.encode("utf-8", "surrogateescape")])
    if isinstance(j, list):
        return R.A([to_tagged(e) for e in j])
    if isinstance(j, dict) and list(j) == ["m"]:
        return R.Mp([(to_tagged(k), to_tagged(v)) for k, v in j["m"]])
    return ("?", json.dumps(j))


def classify(msg):
    m = msg.lower()
    if "division by zero" in m or "modulus by zero" in m or "divide by zero" in m or "division by 0" in m or "modulo by 0" in m or "modulus by 0" in m:
        return "div0"
    if "out of bounds" in m or "out of range" in m or "index" in m:
        return "index"
    if "must be a number" in m or "bad argument" in m or "bad type" in m or "bad left" in m or "bad right" in m or "non-numeric" in m:
        return "type"
    return "other:" + msg.strip()[:60]


def outcome(r):
    if not isinstance(r, list) or len(r) != 2:
        return ("?", json.dumps(r)[:80])
    if r[0] == "ERR":
        return R.E(classify(r[1] if isinstance(r[1], str) else str(r[1])))
    return to_tagged(r[1])


# ---------------------------------------------------------------------------------------------- extremes / statement shapes
EXT = [0, 1, -1, 2, 7, -7, (1 << 31) - 1, 1 << 31, -(1 << 31), (1 << 32) - 1, 1 << 32, -(1 << 32), (1 << 62), (1 << 63) - 1, -(1 << 63) + 1, -(1 << 63)]


def extreme_programs(rnd, tier):
    progs = []
    ops = ["add", "sub", "mul", "div", "mod", "and", "or", "xor", "lt", "le", "gt", "ge", "eq", "ne"]
    pairs = [(a, b) for a in EXT for b in EXT]
    if tier == "quick":
        pairs = rnd.sample(pairs, 90) + [(-(1 << 63), -1), ((1 << 63) - 1, 1), (-(1 << 63), 1), (1 << 32, 1 << 32), (1 << 31, 1 << 31)]
    for a, b in pairs:
        for op in ops:
            progs.append([{"k": "int", "v": a}, {"k": "int", "v": b}, {"k": "bin", "v": op}])
    for a in EXT:
        for sh in (0, 1, 31, 32, 33, 62, 63):
            for op in ("shl", "shr"):
                progs.append([{"k": "int", "v": a}, {"k": "int", "v": sh}, {"k": "bin", "v": op}])
        for op in ("neg", "compl", "not"):
            progs.append([{"k": "int", "v": a}, {"k": "un", "v": op}])
    # indices and range bounds beyond 32 bits
    arr = [{"t": "i", "v": 10}, {"t": "i", "v": 20}, {"t": "i", "v": 30}]
    for i in (0, 2, 3, -1, 1 << 32, (1 << 32) + 1, -(1 << 32), 1 << 31, (1 << 63) - 1, -(1 << 63)):
        for fe in (False, True):
            progs.append([{"k": "arr", "v": arr}, {"k": "int", "v": i}, {"k": "index", "v": fe}])
            progs.append([{"k": "str", "v": [97, 98, 99]}, {"k": "int", "v": i}, {"k": "index", "v": fe}])
        for j in (1, (1 << 32) + 2, -1, (1 << 63) - 1):
            progs.append([{"k": "arr", "v": arr}, {"k": "int", "v": i}, {"k": "int", "v": j}, {"k": "range", "ie": False, "je": False}])
            progs.append([{"k": "str", "v": [97, 98, 99]}, {"k": "int", "v": i}, {"k": "int", "v": j}, {"k": "range", "ie": False, "je": False}])
    return progs


def mapping_groups(grp, mapref):
    """mappings: l + r / l += r / entry-by-entry assignment, m[k], sizeof, delete + put; expected values printed by TLC from
    spec/lpcsem/LpcMaps.tla (mapref: list of records), cross-checked with the transcription"""
    pool = keys = None
    for r in mapref:
        if r["k"] == "pool":
            pool = [R.Mp([(R.from_json(e[0]), R.from_json(e[1])) for e in q]) for q in r["v"]["pool"]]
            keys = [R.from_json(k) for k in r["v"]["keys"]]
    ndis = 0
    for r in mapref:
        k = r["k"]
        if k == "pool":
            continue
        exp = R.from_json(r["v"])
        if k == "add":
            l, rr = pool[r["l"] - 1], pool[r["r"] - 1]
            mine = R.Bin("add", l, rr)
            L, RR = lit(l), lit(rr)
            big = len(l[1]) > 8 or len(rr[1]) > 8
            sps = [("plus", "mixed @F() { mapping l = %s; mapping r = %s; return l + r; }" % (L, RR)),
                   ("mixedv", "mixed @F() { mixed l = %s; mixed r = %s; return l + r; }" % (L, RR)),
                   ("addeq", "mixed @F() { mapping x = %s; x += %s; return x; }" % (L, RR)),
                   ("addeqv", "mixed @F() { mapping x = %s; mapping r = %s; x += r; return x; }" % (L, RR)),
                   ("assign", "mixed @F() { mapping x = %s + ([ ]); mapping r = %s; mixed k; foreach (k in keys(r)) x[k] = r[k]; return x; }" % (L, RR)),
                   ("global", "mixed @F() { g0 = %s; g1 = %s; return g0 + g1; }" % (L, RR)),
                   ("intact", "mixed @F() { mapping l = %s; mapping r = %s; mapping s = l + r; if (sizeof(l) != %d || sizeof(r) != %d) return -1; return s; }" % (L, RR, len(l[1]), len(rr[1])))]
            if not big:
                sps.append(("const", "mixed @F() { return %s + %s; }" % (L, RR)))
        elif k == "idx":
            m, key = pool[r["l"] - 1], keys[r["r"] - 1]
            mine = R.Index(m, key, False)
            sps = [("var", "mixed @F() { mapping m = %s; return m[%s]; }" % (lit(m), lit(key))),
                   ("mixedv", "mixed @F() { mixed m = %s; mixed k = %s; return m[k]; }" % (lit(m), lit(key))),
                   ("global", "mixed @F() { g0 = %s; return g0[%s]; }" % (lit(m), lit(key))),
                   ("scan", "mixed @F() { mapping m = %s; mixed k, v; foreach (k, v in m) if (k == %s) return v; return 0; }" % (lit(m), lit(key)))]
        elif k == "size":
            m = pool[r["l"] - 1]
            mine = R.Un("sizeof", m)
            sps = [("sizeof", "mixed @F() { mapping m = %s; return sizeof(m); }" % lit(m)),
                   ("keys", "mixed @F() { mapping m = %s; return sizeof(keys(m)); }" % lit(m)),
                   ("values", "mixed @F() { mixed m = %s; return sizeof(values(m)); }" % lit(m)),
                   ("count", "mixed @F() { mapping m = %s; mixed k; int n; foreach (k in keys(m)) n++; return n; }" % lit(m))]
        else:   # delput
            m, key = pool[r["l"] - 1], keys[r["r"] - 1]
            mine = R.MapPut(R.MapDel(m[1], key)[1], key, R.I(99))
            sps = [("delput", "mixed @F() { mapping m = %s; map_delete(m, %s); m[%s] = 99; return m; }" % (lit(m), lit(key), lit(key))),
                   ("put", "mixed @F() { mapping m = %s; m[%s] = 99; return m; }" % (lit(m), lit(key))),
                   ("plus", "mixed @F() { mapping m = %s; return m + ([ %s : 99 ]); }" % (lit(m), lit(key))),
                   ("addeq", "mixed @F() { mixed m = %s; m += ([ %s : 99 ]); return m; }" % (lit(m), lit(key)))]
        if R.canon(mine) != R.canon(exp):
            ndis += 1
        grp(exp, sps)
    return ndis


def shape_functions(tier, mapref=None):
    """statement shapes: -> list of (group id, expected tagged value or None, [(spelling, source)]); the spellings of a
    group must all return the same value (and the expected one where the reference gives it)"""
    groups = []
    gid = [0]

    def grp(expect, sps):
        gid[0] += 1
        k = gid[0]
        groups.append((k, expect, [(n, s.replace("@F", "s%d_%s" % (k, n))) for n, s in sps]))

    ndis = [0]
    if mapref:
        ndis[0] = mapping_groups(grp, mapref)
    shape_functions.mapref_disagreements = ndis[0]
    # ---- foreach over a mapping with global / local loop variables (and locals around them that must stay intact)
    for kk, vv in ((7, 70), ("a", 1)):
        kl, vl = lit(R.I(kk) if isinstance(kk, int) else R.S([ord(c) for c in kk])), lit(R.I(vv))
        exp = R.A([R.I(kk) if isinstance(kk, int) else R.S([ord(c) for c in kk]), R.I(vv), R.I(77), R.I(88)])
        grp(exp, [("ll", "mixed @F() { int g1 = 77; mixed k, v; int g2 = 88; mapping m = ([ %s : %s ]); foreach (k, v in m) ; return ({ k, v, g1, g2 }); }" % (kl, vl)),
                  ("gl", "mixed @F() { int g1 = 77; mixed v; int g2 = 88; mapping m = ([ %s : %s ]); foreach (g3, v in m) ; return ({ g3, v, g1, g2 }); }" % (kl, vl)),
                  ("lg", "mixed @F() { int g1 = 77; mixed k; int g2 = 88; mapping m = ([ %s : %s ]); foreach (k, g4 in m) ; return ({ k, g4, g1, g2 }); }" % (kl, vl)),
                  ("gg", "mixed @F() { int g1 = 77; int g2 = 88; mapping m = ([ %s : %s ]); foreach (g3, g4 in m) ; return ({ g3, g4, g1, g2 }); }" % (kl, vl)),
                  ("keys", "mixed @F() { int g1 = 77; mixed k, v; int g2 = 88; mapping m = ([ %s : %s ]); foreach (k in keys(m)) v = m[k]; return ({ k, v, g1, g2 }); }" % (kl, vl))])
    # ---- a float compared with zero: literal 0, variable 0, either side, typed and mixed
    for fv, e in (("0.0", 1), ("1.5", 0), ("-0.0", 1)):
        grp(R.I(e), [("lit", "mixed @F() { float z = %s; return z == 0; }" % fv),
                     ("litl", "mixed @F() { float z = %s; return 0 == z; }" % fv),
                     ("var", "mixed @F() { float z = %s; int i = 0; return z == i; }" % fv),
                     ("mixedv", "mixed @F() { mixed z = %s; return z == 0; }" % fv),
                     ("glob", "mixed @F() { g0 = %s; return g0 == 0; }" % fv),
                     ("notne", "mixed @F() { float z = %s; return !(z != 0); }" % fv),
                     ("cond", "mixed @F() { float z = %s; if (z == 0) return 1; return 0; }" % fv)])
    # ---- loop forms: sum of f(i) for i in 0..n-1
    for n in (0, 1, 2, 5, 300):
        for body, f in (("acc += i", lambda i: i), ("acc = acc * 3 + i", None), ("acc ^= (i << 3)", None)):
            if f is not None:
                exp = R.I(sum(f(i) for i in range(n)))
            else:
                acc = 0
                for i in range(n):
                    acc = R.wrap(acc * 3 + i) if "3" in body and "^" not in body else acc ^ (i << 3)
                exp = R.I(acc)
            sps = [("for", "mixed @F() { int i, acc; for (i = 0; i < %d; i++) { %s; } return acc; }" % (n, body)),
                   ("while", "mixed @F() { int i, acc; i = 0; while (i < %d) { %s; i++; } return acc; }" % (n, body)),
                   ("forpre", "mixed @F() { int i, acc; for (i = 0; i < %d; ++i) { %s; } return acc; }" % (n, body)),
                   ("mixedvars", "mixed @F() { mixed i, acc; acc = 0; for (i = 0; i < %d; i++) { %s; } return acc; }" % (n, body)),
                   ("globals", "mixed @F() { g0 = 0; for (g1 = 0; g1 < %d; g1++) { %s; } return g0; }" % (n, body.replace("acc", "g0").replace("i", "g1"))),
                   ("foreach", "mixed @F() { int i, acc; mixed *r = allocate(%d); int k; for (k = 0; k < %d; k++) r[k] = k; foreach (i in r) { %s; } return acc; }" % (n, n, body)),
                   ("countdown", "mixed @F() { int i, acc, c; c = %d; i = 0; while (c--) { %s; i++; } return acc; }" % (n, body))]
            if n >= 1:
                sps.append(("dowhile", "mixed @F() { int i, acc; i = 0; do { %s; i++; } while (i < %d); return acc; }" % (body, n)))
            grp(exp, sps)
    # ---- while (x--) with counters beyond 32 bits: the loop must be entered (break after 3 rounds)
    for c in (3, 1 << 32, (1 << 32) + 2, 1 << 40):
        grp(R.I(min(c, 3)), [("countdown", "mixed @F() { int c, n; c = %d; n = 0; while (c--) { n++; if (n == 3) break; } return n; }" % c),
                             ("plain", "mixed @F() { int c, n; c = %d; n = 0; while (c > 0) { c = c - 1; n++; if (n == 3) break; } return n; }" % c),
                             ("mixedc", "mixed @F() { mixed c, n; c = %d; n = 0; while (c--) { n++; if (n == 3) break; } return n; }" % c)])
    # ---- loop bounds and counters beyond 32 bits (constant bound = the loop_cond_number opcode, variable bound = loop_cond_local)
    for start, end in ((0, 1 << 32), ((1 << 32) - 5, (1 << 32) + 5), (-(1 << 32) - 3, -(1 << 32) + 3), (5, (1 << 32) + 5)):
        cnt = min(end - start, 12)
        grp(R.A([R.I(cnt), R.I(start + cnt)]),
            [("forconst", "mixed @F() { int i, n; for (i = %s; i < %s; i++) { n++; if (n == 12) { i++; break; } } return ({ n, i }); }" % (lit(R.I(start)), lit(R.I(end)))),
             ("forvar", "mixed @F() { int i, n, e; e = %s; for (i = %s; i < e; i++) { n++; if (n == 12) { i++; break; } } return ({ n, i }); }" % (lit(R.I(end)), lit(R.I(start)))),
             ("while", "mixed @F() { int i, n; i = %s; while (i < %s) { n++; i = i + 1; if (n == 12) break; } return ({ n, i }); }" % (lit(R.I(start)), lit(R.I(end)))),
             ("mixedv", "mixed @F() { mixed i, n, e; n = 0; e = %s; for (i = %s; i < e; i++) { n++; if (n == 12) { i++; break; } } return ({ n, i }); }" % (lit(R.I(end)), lit(R.I(start))))])
    # ---- loop conditions comparing an integer with a float (the fused loop-condition opcodes take local operands of any type)
    import math
    for fb in ("2.5", "0.5", "4.75", "3.0", "-1.5", "0.0"):
        fv = float(fb)
        up = max(0, math.ceil(fv))                            # number of i = 0, 1, ... with i < fv
        down = len([i for i in range(5, -3, -1) if i > fv])   # i = 5, 4, ... with i > fv (stops at the first failure)
        upeq = len([i for i in range(0, 9) if i <= fv])
        sps = [("forlocal", "mixed @F() { int i, n; float f = %s; for (i = 0; i < f; i++) n++; return n; }" % fb),
               ("whilelocal", "mixed @F() { int i, n; float f = %s; while (i < f) { n++; i++; } return n; }" % fb),
               ("forconst", "mixed @F() { int i, n; for (i = 0; i < %s; i++) n++; return n; }" % fb),
               ("forglobal", "mixed @F() { int i, n; g0 = %s; for (i = 0; i < g0; i++) n++; return n; }" % fb),
               ("swapped", "mixed @F() { int i, n; float f = %s; for (i = 0; f > i; i++) n++; return n; }" % fb),
               ("ifbreak", "mixed @F() { int i, n; float f = %s; while (1) { if (!(i < f)) break; n++; i++; } return n; }" % fb),
               ("asvalue", "mixed @F() { int i, n, c; float f = %s; while (1) { c = (i < f); if (!c) break; n++; i++; } return n; }" % fb),
               ("mixedvars", "mixed @F() { mixed i, n, f; i = 0; n = 0; f = %s; for (; i < f; i++) n++; return n; }" % fb),
               ("argbound", "mixed @F_h(float f) { int i, n; for (i = 0; i < f; i++) n++; return n; } mixed @F() { return @F_h(%s); }" % fb)]
        if up >= 1:
            sps.append(("dolocal", "mixed @F() { int i, n; float f = %s; do { n++; i++; } while (i < f); return n; }" % fb))
        grp(R.I(up), sps)
        grp(R.I(down), [("forlocal", "mixed @F() { int i, n; float f = %s; for (i = 5; i > f; i--) n++; return n; }" % fb),
                        ("whilelocal", "mixed @F() { int i, n; float f = %s; i = 5; while (i > f) { n++; i--; } return n; }" % fb),
                        ("forconst", "mixed @F() { int i, n; for (i = 5; i > %s; i--) n++; return n; }" % fb),
                        ("swapped", "mixed @F() { int i, n; float f = %s; for (i = 5; f < i; i--) n++; return n; }" % fb),
                        ("forglobal", "mixed @F() { int i, n; g0 = %s; for (i = 5; i > g0; i--) n++; return n; }" % fb)])
        grp(R.I(upeq), [("forlocal", "mixed @F() { int i, n; float f = %s; for (i = 0; i <= f; i++) n++; return n; }" % fb),
                        ("whilelocal", "mixed @F() { int i, n; float f = %s; while (i <= f) { n++; i++; } return n; }" % fb),
                        ("forconst", "mixed @F() { int i, n; for (i = 0; i <= %s; i++) n++; return n; }" % fb),
                        ("swapped", "mixed @F() { int i, n; float f = %s; for (i = 0; f >= i; i++) n++; return n; }" % fb)])
        # a float counter against an integer bound
        cnt = len([k for k in range(0, 12) if fv + k < 3])
        grp(R.I(cnt), [("forlocal", "mixed @F() { float x = %s; int n, e; e = 3; for (; x < e; x += 1.0) n++; return n; }" % fb),
                       ("whilelocal", "mixed @F() { float x = %s; int n, e; e = 3; while (x < e) { n++; x = x + 1.0; } return n; }" % fb),
                       ("forconst", "mixed @F() { float x = %s; int n; for (; x < 3; x += 1.0) n++; return n; }" % fb),
                       ("swapped", "mixed @F() { float x = %s; int n, e; e = 3; for (; e > x; x += 1.0) n++; return n; }" % fb)])
    # ---- switch vs if-chain
    tables = {"dense64": [(1 << 32) + k for k in range(1, 7)], "densemin": [-(1 << 63) + k for k in range(0, 5)], "densemax": [(1 << 63) - 1 - k for k in range(4, -1, -1)],
              "dense": [1, 2, 3, 4, 5, 6], "sparse": [-100003, 0, 7, 100003, 1 << 33, -(1 << 40)], "two": [0, 1 << 32],
              "ranges": [(-5, -1), (0, 0), (10, 20), (1 << 32, (1 << 32) + 5)]}
    probes = [-(1 << 63), -(1 << 63) + 2, (1 << 63) - 3, (1 << 32) + 1, (1 << 32) + 6, (1 << 32) + 7, -(1 << 40), -100003, -6, -5, -1, 0, 1, 3, 6, 7, 8, 10, 15, 20, 21, 100003, 1 << 32, (1 << 32) + 5, (1 << 32) + 6, 1 << 33, (1 << 33) + 1, (1 << 63) - 1, 4294967303]
    for name, tb in tables.items():
        cases, chain = [], []
        for k, c in enumerate(tb):
            if isinstance(c, tuple):
                cases.append("case %s..%s: return %d;" % (lit(R.I(c[0])), lit(R.I(c[1])), k + 1))
                chain.append("if (x >= %s && x <= %s) return %d;" % (lit(R.I(c[0])), lit(R.I(c[1])), k + 1))
            else:
                cases.append("case %s: return %d;" % (lit(R.I(c)), k + 1))
                chain.append("if (x == %s) return %d;" % (lit(R.I(c)), k + 1))
        for x in probes:
            hit = -1
            for k, c in enumerate(tb):
                if (isinstance(c, tuple) and c[0] <= x <= c[1]) or c == x:
                    hit = k + 1
                    break
            grp(R.I(hit), [("switch", "mixed @F_f(int x) { switch (x) { %s default: return -1; } }\nmixed @F() { return @F_f(%s); }" % (" ".join(cases), lit(R.I(x)))),
                           ("ifchain", "mixed @F_f(int x) { %s return -1; }\nmixed @F() { return @F_f(%s); }" % (" ".join(chain), lit(R.I(x)))),
                           ("switchm", "mixed @F_f(mixed x) { switch (x) { %s default: return -1; } }\nmixed @F() { return @F_f(%s); }" % (" ".join(reversed(cases)), lit(R.I(x))))])
    words = ["alpha", "beta", "gamma", "", "a", "alphabet", "ALPHA", "beta "]
    for nw in (1, 3, len(words)):
        tb = words[:nw]
        cases = " ".join('case "%s": return %d;' % (w, k + 1) for k, w in enumerate(tb))
        chain = " ".join('if (x == "%s") return %d;' % (w, k + 1) for k, w in enumerate(tb))
        for x in words + ["zeta"]:
            hit = tb.index(x) + 1 if x in tb else -1
            grp(R.I(hit), [("switch", "mixed @F_f(string x) { switch (x) { %s default: return -1; } }\nmixed @F() { return @F_f(\"%s\"); }" % (cases, x)),
                           ("ifchain", "mixed @F_f(string x) { %s return -1; }\nmixed @F() { return @F_f(\"%s\"); }" % (chain, x)),
                           ("built", "mixed @F_f(string x) { switch (x) { %s default: return -1; } }\nmixed @F() { return @F_f(\"%s\" + \"%s\"); }" % (cases, x[:1], x[1:]))])
    # ---- ++ / -- forms
    for x in (0, -1, 41, (1 << 31) - 1, (1 << 32) - 1, (1 << 63) - 1, -(1 << 63)):
        for ty in ("int", "mixed"):
            grp(R.A([R.I(x + 1), R.I(x + 1)]), [("pre", "mixed @F() { %s x = %s; mixed r = ++x; return ({ r, x }); }" % (ty, lit(R.I(x)))),
                                                ("plain", "mixed @F() { %s x = %s; mixed r; x = x + 1; r = x; return ({ r, x }); }" % (ty, lit(R.I(x)))),
                                                ("addeq", "mixed @F() { %s x = %s; mixed r; x += 1; r = x; return ({ r, x }); }" % (ty, lit(R.I(x))))])
            grp(R.A([R.I(x), R.I(x - 1)]), [("post", "mixed @F() { %s x = %s; mixed r = x--; return ({ r, x }); }" % (ty, lit(R.I(x)))),
                                            ("plain", "mixed @F() { %s x = %s; mixed r; r = x; x = x - 1; return ({ r, x }); }" % (ty, lit(R.I(x)))),
                                            ("global", "mixed @F() { mixed r; g0 = %s; r = g0--; return ({ r, g0 }); }" % lit(R.I(x))),
                                            ("elem", "mixed @F() { mixed *a = ({ %s }); mixed r = a[0]--; return ({ r, a[0] }); }" % lit(R.I(x)))])
    # ---- range assignment vs concatenation, strings and arrays
    for kind, base, ins in (("s", R.S([97, 98, 99, 100]), R.S([88, 89])), ("a", R.A([R.I(1), R.I(2), R.I(3), R.I(4)]), R.A([R.I(8), R.I(9)]))):
        n = len(base[1])
        for i in range(0, n + 1):
            for j in range(i - 1, n):
                exp = (kind, base[1][:i] + ins[1] + base[1][j + 1:])
                ty = "string" if kind == "s" else "mixed *"
                grp(exp, [("rangeassign", "mixed @F() { %s x = %s; x[%d..%d] = %s; return x; }" % (ty, lit(base), i, j, lit(ins))),
                          # (for strings x[0..-1] is the whole string under OLD_RANGE_BEHAVIOR: the prefix is spelled with a test)
                          ("concat", "mixed @F() { %s x = %s; x = %s + %s + x[%d..]; return x; }" % (
                              ty, lit(base), ("x[0..%d]" % (i - 1)) if i >= 1 else ('""' if kind == "s" else "({ })"), lit(ins), j + 1)),
                          ("mixedx", "mixed @F() { mixed x = %s; int i = %d, j = %d; x[i..j] = %s; return x; }" % (lit(base), i, j, lit(ins))),
                          ("fromend", "mixed @F() { %s x = %s; x[<%d..<%d] = %s; return x; }" % (ty, lit(base), n - i, n - j, lit(ins)))])
    # ---- int / float mixes: constant-folded vs computed, typed vs mixed
    for a, b in ((1, 0.5), (3, 2.0), (-7, 0.25), (1 << 40, 1.5), (0, -0.0)):
        for op in ("+", "-", "*", "/"):
            for order in ("if", "fi"):
                x, y = (lit(R.I(a)), repr(b)) if order == "if" else (repr(b), lit(R.I(a)))
                if op == "/" and ((order == "if" and b == 0) or (order == "fi" and a == 0)):
                    continue
                tx, ty = ("int", "float") if order == "if" else ("float", "int")
                grp(None, [("const", "mixed @F() { return %s %s %s; }" % (x, op, y)),
                           ("typed", "mixed @F() { %s x = %s; %s y = %s; return x %s y; }" % (tx, x, ty, y, op)),
                           ("mixed", "mixed @F() { mixed x = %s; mixed y = %s; return x %s y; }" % (x, y, op)),
                           ("opassign", "mixed @F() { mixed x = %s; mixed y = %s; x %s= y; return x; }" % (x, y, op))])
    for x in (1.5, -0.5, 1e15):
        grp(None, [("pre", "mixed @F() { mixed x = %r; ++x; return x; }" % x), ("plain", "mixed @F() { mixed x = %r; x = x + 1; return x; }" % x),
                   ("typed", "mixed @F() { float x = %r; x++; return x; }" % x), ("addeq", "mixed @F() { float x = %r; x += 1; return x; }" % x)])
    return groups


# ---------------------------------------------------------------------------------------------- run
def run(tier, work):
    t0 = time.time()
    verdict = vlib.Verdict(PROP)
    exe = build.ensure_harness("vdrv", ["vdrv.cpp"])
    rnd = random.Random(vlib.SEED)
    cfg = "GenQuick.cfg" if tier == "quick" else "GenThorough.cfg"
    progs, gs = vlib.generate(SPEC, "MCLpc", cfg, work, "p2a", timeout=3000, heap="16g")
    print("TLC LpcGen (BFS): %d states, %d transitions; %d programs with their reference values" % (gs["states"], gs["transitions"], len(progs)))
    key = lambda p: json.dumps(p, sort_keys=True)
    progs.sort(key=key)
    cap = 2500 if tier == "quick" else 60000
    if len(progs) > cap:
        rnd.shuffle(progs)
        progs = progs[:cap]
    nsim = 1200 if tier == "quick" else 30000
    sims, _ = vlib.generate(SPEC, "MCLpc", "GenSim.cfg", work, "p2b", simulate="num=%d" % nsim, extra=["-depth", "14", "-seed", str(vlib.SEED)], timeout=1500)
    sims.sort(key=key)
    rnd.shuffle(sims)
    progs += sims[:nsim]
    # the Python transcription must agree with TLC on everything TLC evaluated
    ndis = 0
    for p in progs:
        if R.canon(R.run_postfix(p["code"])) != R.canon(R.from_json(p["expect"])):
            ndis += 1
            if ndis <= 3:
                print("lpcref disagrees with LpcSem on %s: %s vs %s" % (json.dumps(p["code"]), R.run_postfix(p["code"]), p["expect"]))
    if ndis:
        raise vlib.Broken("checks/lpcref.py disagrees with spec/lpcsem/LpcSem.tla on %d programs" % ndis)
    allp = [(p["code"], R.from_json(p["expect"]), "tlc") for p in progs]
    ext = extreme_programs(rnd, tier)
    allp += [(c, R.run_postfix(c), "ref64") for c in ext]
    print("GEN %d programs valued by TLC (%d simulated) + %d int64-extreme programs valued by the cross-checked transcription" % (len(progs), min(nsim, len(sims)), len(ext)))
    # ---- files
    conf, mdir = work.mudlib()
    os.makedirs(os.path.join(mdir, "c03"), exist_ok=True)
    CH = 30
    files = []
    for b in range(0, len(allp), CH):
        chunk = [(pid, spellings(pid, allp[pid][0], allp[pid][1])) for pid in range(b, min(b + CH, len(allp)))]
        src, order = file_of(chunk)
        fn = "c03/f%d" % (b // CH)
        open(os.path.join(mdir, fn + ".c"), "w").write(src)
        files.append((fn, order, "p"))
    # the mapping part of LpcSem, evaluated by TLC over a pool of mappings
    mapref, _ = vlib.generate(SPEC, "LpcMaps", "LpcMaps.cfg", work, "p2m", workers=1, timeout=600)
    seenm, mr = set(), []
    for r in mapref:
        k = json.dumps(r, sort_keys=True)
        if k not in seenm:
            seenm.add(k)
            mr.append(r)
    if tier == "quick":        # every l + r, a seeded third of the rest
        mr = [r for r in mr if r["k"] in ("add", "pool", "size")] + rnd.sample([r for r in mr if r["k"] in ("idx", "delput")], 70)
    groups = shape_functions(tier, mr)
    if shape_functions.mapref_disagreements:
        raise vlib.Broken("checks/lpcref.py disagrees with spec/lpcsem/LpcSem.tla on %d mapping evaluations" % shape_functions.mapref_disagreements)
    print("TLC LpcMaps: %d mapping evaluations valued by TLC" % (len(mr) - 1))
    for b in range(0, len(groups), CH):
        chunk = groups[b:b + CH]
        src = [HEADER]
        order = []
        for gidn, exp, sps in chunk:
            for name, s in sps:
                src.append(s)
                order.append((gidn, name))
        src.append("mixed *all() {\n  return ({\n" + ",\n".join("    wrap((: s%d_%s :))" % (g, n) for g, n in order) + "\n  });\n}\n")
        fn = "c03/s%d" % (b // CH)
        open(os.path.join(mdir, fn + ".c"), "w").write("\n".join(src))
        files.append((fn, order, "s"))
    if os.environ.get("C03_KEEP"):
        import shutil
        shutil.rmtree(os.environ["C03_KEEP"], ignore_errors=True)
        shutil.copytree(os.path.join(mdir, "c03"), os.environ["C03_KEEP"])
    scen = [(str(i), ["call /master set_clog #1", "call /%s all" % fn]) for i, (fn, order, kind) in enumerate(files)]
    t1 = time.time()
    exs = vlib.run_vdrv(exe, conf, scen, work, tag="run", timeout=30)
    print("RUN %d generated files (%d programs x spellings, %d statement-shape groups) in %.1fs" % (len(files), len(allp), len(groups), time.time() - t1))
    ncrash = 0
    for ex, sigs, raw in vlib.confirmed_crashes(exe, conf, scen, exs, work):
        fn, order, kind = files[int(ex["id"])]
        for sig in sigs:
            ncrash += 1
            verdict.add(sig, [open(os.path.join(mdir, fn + ".c")).read()[:20000]], "driver failure while running generated programs (%s)" % fn, raw=raw)
    # ---- results -> traces
    gexp = {g: exp for g, exp, sps in groups}
    projs = []
    nres = 0
    failed_files = []
    for ex in exs:
        fn, order, kind = files[int(ex["id"])]
        ret = [ev for ev in ex["events"] if ev.get("e") == "CallRet" and ev.get("fn") == "all"]
        out = [{"e": "Reset", "id": ex["id"]}]
        if not ret or not isinstance(ret[0].get("v"), list) or len(ret[0]["v"]) != len(order):
            errs = [ev.get("msg") for ev in ex["events"] if ev.get("e") == "CompileErr" and ": Warning: " not in ev.get("msg", "")][:3]
            if not vlib.crashed(ex):
                failed_files.append((fn, errs))
            projs.append(out)
            continue
        for (pid, name), r in zip(order, ret[0]["v"]):
            got = R.canon(outcome(r))
            if kind == "p":
                exp = R.canon(allp[pid][1])
                if exp == ["e", "type"] and got[0] == "e":
                    got = exp        # an ill-typed evaluation behind a lazy operator: any runtime error is accepted
                out.append({"e": "Result", "prog": "p%d" % pid, "spelling": name, "value": json.dumps(got), "expected": json.dumps(exp), "src": allp[pid][2]})
            else:
                exp = gexp[pid]
                out.append({"e": "Result", "prog": "s%d" % pid, "spelling": name, "value": json.dumps(got), "expected": json.dumps(R.canon(exp)) if exp is not None else "any", "src": "shape"})
            nres += 1
        projs.append(out)
    if failed_files:
        fn, errs = failed_files[0]
        # a generated file that does not compile hides all its programs: report it (the generator only writes programs the
        # reference gives a value to, in spellings the language manual allows)
        verdict.add({"kind": "does-not-compile", "msg": (errs[0] if errs else "?").split(":")[-1].strip()[:50]},
                    [open(os.path.join(mdir, fn + ".c")).read()[:20000]], "generated file %s does not compile: %s (%d files)" % (fn, errs, len(failed_files)))
    def signature_of(badi, upto):
        b = projs[badi][upto] if upto < len(projs[badi]) else {"e": "?"}
        srcs = []
        if b.get("prog", "").startswith("p"):
            pid = int(b["prog"][1:])
            srcs = ["postfix: " + json.dumps(allp[pid][0])] + [s_ for n_, s_ in spellings(pid, allp[pid][0], allp[pid][1])]
            tree, leaves = tree_of(allp[pid][0])
            opk = tree[1] if tree[0] in ("bin", "un") else tree[0]
            big = any(l_[0] == "i" and abs(l_[1]) >= (1 << 31) for l_ in leaves)
            sig = {"kind": "wrong-value", "op": opk, "spelling": b.get("spelling"), "big": big, "err_expected": json.loads(b["expected"])[0] == "e",
                   "got_err": json.loads(b["value"])[0] == "e"}
            if tree[0] == "bin":     # value types of the two operands of the outermost operator
                sig["ltype"] = value_of(tree[2], leaves)[0]
                sig["rtype"] = value_of(tree[3], leaves)[0]
        else:
            g = int(b.get("prog", "s0")[1:])
            srcs = [s_ for gg, exp, sps in groups if gg == g for n_, s_ in sps]
            first = srcs[0] if srcs else ""
            shape = "loop" if "acc" in first else "countdown" if "c--" in first or "while (c" in first else "switch" if "switch" in first or "if (x ==" in first or "if (x >=" in first \
                else "incdec" if "++x" in first or "x--" in first else "rangeassign" if ".." in first else "float"
            sig = {"kind": "spellings-disagree" if b.get("expected") == "any" else "wrong-value", "shape": shape, "spelling": b.get("spelling")}
        return b, sig, srcs

    def drop_known(badi, upto):
        b, sig, srcs = signature_of(badi, upto)
        if b.get("e") == "Result" and vlib.match_known(PROP, sig):
            verdict.add(sig, srcs, "known")          # counted under its KNOWN-FINDING line
            return True
        return False

    accepted, nevents, rejects = vlib.validate_executions(SPEC, "LpcSemTrace", "LpcSemTrace.cfg", projs, work, max_rejects=60, drop_if=drop_known)
    for badi, upto in rejects:
        b, sig, srcs = signature_of(badi, upto)
        verdict.add(sig, srcs, "%s / %s returned %s, expected %s" % (b.get("prog"), b.get("spelling"), b.get("value"), b.get("expected")))
    for badi, upto in []:
        b = projs[badi][upto] if upto < len(projs[badi]) else {"e": "?"}
        fn, order, kind = files[badi]
        srcs = []
        if b.get("prog", "").startswith("p"):
            pid = int(b["prog"][1:])
            srcs = ["postfix: " + json.dumps(allp[pid][0])] + [s for n, s in spellings(pid, allp[pid][0], allp[pid][1])]
            tree, leaves = tree_of(allp[pid][0])
            opk = tree[1] if tree[0] in ("bin", "un") else tree[0]
            big = any(l[0] == "i" and abs(l[1]) >= (1 << 31) for l in leaves)
            sig = {"kind": "wrong-value", "op": opk, "spelling": b.get("spelling"), "big": big, "err_expected": json.loads(b["expected"])[0] == "e",
                   "got_err": json.loads(b["value"])[0] == "e"}
            if tree[0] == "bin":     # value types of the two operands of the outermost operator
                sig["ltype"] = value_of(tree[2], leaves)[0]
                sig["rtype"] = value_of(tree[3], leaves)[0]
        else:
            g = int(b.get("prog", "s0")[1:])
            srcs = [s for gg, exp, sps in groups if gg == g for n, s in sps]
            first = srcs[0] if srcs else ""
            shape = "loop" if "acc" in first else "countdown" if "c--" in first or "while (c" in first else "switch" if "switch" in first or "if (x ==" in first or "if (x >=" in first \
                else "incdec" if "++x" in first or "x--" in first else "rangeassign" if ".." in first else "float"
            sig = {"kind": "spellings-disagree" if b.get("expected") == "any" else "wrong-value", "shape": shape, "spelling": b.get("spelling")}
        verdict.add(sig, srcs, "%s / %s returned %s, expected %s" % (b.get("prog"), b.get("spelling"), b.get("value"), b.get("expected")))
    print("TLC P3 LpcSemTrace: %d files / %d results accepted" % (accepted, nevents))
    rc = verdict.finish()
    vlib.write_evidence(PROP, tier, "translation_validation", dict(
        programs=len(allp) + len(groups), disagreements_checked=nres, states=gs["states"], transitions=gs["transitions"],
        traces_validated_against_impl=accepted, evaluations=nres,
        distinct_nontrivial=len({json.dumps(c) for c, e, s in allp}) + len(groups),
        samples=[{"postfix": allp[0][0], "expected": R.canon(allp[0][1]), "spellings": [s for n, s in spellings(0, allp[0][0], allp[0][1])][:3]}],
        rule="postfix programs printed with their reference values by TLC from LpcGen (BFS to the bound + -simulate), int64-extreme operand grid and "
             "statement-shape groups (loops, switch vs if, ++/--, range assignment, int/float); every program in up to 9 spellings; distinct by program text",
        exhaustive=False, events_validated=nevents, driver_failures=ncrash, files=len(files)),
        time.time() - t0, len(verdict.new),
        ["reference semantics: spec/lpcsem/LpcSem.tla (TLC-evaluated) for values within 32 bits; checks/lpcref.py (cross-checked transcription) beyond",
         "floats: only agreement between spellings is required (no reference value)",
         "inherited / call_other / function-pointer call paths are covered by C07, macros and #if by the macro spelling only"])
    return rc


if __name__ == "__main__":
    vlib.main_wrapper(PROP, run)
