#!/usr/bin/env python3
"""Extension (no listed property of its own; it feeds C06 / C09 / C12): where a user's input goes.
P2: InputToGen enumerates set-ups of input_to / get_char (by name, function pointer, no-echo, no-escape, single
    character, a function that does not exist - caught and uncaught) x what the callback does (returns, raises an
    error, sets up the next request, destructs its object) x plain and '!'-escaped lines, destruction of the
    callbacks' object, disconnect.
P3: every history runs in the real backend; TLC validates the trace against InputTo: every line that arrived is
    consumed exactly once, in order, by the pending callback or as an ordinary command, as the request's flags say."""
import os, sys, json, time, random
sys.path.insert(0, os.path.join(os.path.dirname(os.path.abspath(__file__)), "..", "tools"))
import vlib, build

PROP = "XINPUTTO"
SPEC = os.path.join(vlib.VERIF, "spec", "inputto")
PRE = ["backend", "connect u1", "cycle", "line u1 name u1", "cycle", "line u1 do me mk:it:/obj/it", "cycle"]


def script_of(h):
    ops = list(PRE)
    for s in h:
        a = s["a"]
        if a == "setup":
            ops += ["line u1 %sdo me xcall2:it:setup:%s-%s:0" % ("!" if s["esc"] else "", s["how"], s["tag"]), "cycle"]
        elif a == "line":
            if s["char"]:
                ops += ["input u1 %02x" % (ord("a") + s["n"] % 26), "cycle"]
            else:
                ops += ["line u1 %sx l%d" % ("!" if s["bang"] else "", s["n"]), "cycle"]
        elif a == "dest":
            ops += ["line u1 %sdo me dest:it" % ("!" if s["esc"] else ""), "cycle"]
        elif a == "drop":
            ops += ["hangup u1", "cycle"]
    return ops + ["cycle", "cycle", "cycle"]


def item(text):
    return {"t": text, "esc": text.startswith("!"), "rest": text[1:] if text.startswith("!") else ""}


def project(ex):
    out = [{"e": "Reset", "id": ex["id"]}]
    started = False
    buf = b""
    charmode = False
    pending_setup = None

    def flush_setup():
        nonlocal pending_setup
        if pending_setup:      # no result was logged: the call raised an error that was not caught
            out.append(dict(pending_setup, ret=0, err=1))
            pending_setup = None
    for ev in ex["events"]:
        e = ev.get("e")
        if e == "Mk" and ev.get("ob") == "it":
            started = True
            buf = b""
            continue
        if not started:
            continue
        if e == "Read" and ev.get("u") == "u1":
            data = bytes.fromhex(ev["hex"])
            if not data:
                continue
            items = []
            if charmode:
                items = [item(bytes([b]).decode("latin-1")) for b in data]
            else:
                buf += data
                while b"\r\n" in buf:
                    line, buf = buf.split(b"\r\n", 1)
                    items.append(item(line.decode("latin-1")))
            if items:
                out.append({"e": "Arrive", "items": items})
        elif e == "Setup":
            flush_setup()
            pending_setup = {"e": "Setup", "how": ev["how"], "tag": ev["tag"]}
        elif e == "SetupRes":
            how = ev["how"]
            if how in ("again", "againc"):
                out.append({"e": "Setup", "how": "line" if how == "again" else "char", "tag": "ok", "ret": ev["ret"], "err": 0})
                if how == "againc" and ev["ret"] == 1:
                    charmode = True
            else:
                ps = pending_setup or {"e": "Setup", "how": how, "tag": "?"}
                pending_setup = None
                out.append(dict(ps, ret=ev["ret"], err=ev["err"]))
                if how == "char" and ev["ret"] == 1:
                    charmode = True
        elif e == "Cmd" and "mode" not in ev and ev.get("u") == "u1":
            flush_setup()
            out.append({"e": "Command", "t": bytes.fromhex(ev["hex"]).decode("latin-1")})
        elif e == "Callback":
            flush_setup()
            charmode = False
            out.append({"e": "Callback", "t": bytes.fromhex(ev["line"]).decode("latin-1"), "tag": ev["tag"]})
        elif e == "Reported" and "Owner" in ev.get("err", "") and "destructed" in ev.get("err", ""):
            flush_setup()
            charmode = False
            out.append({"e": "OwnerGone"})
        elif e == "DestOwner" or (e == "Dest" and ev.get("ob") == "it" and ev.get("live")):
            out.append({"e": "DestOwner"})
        elif e == "Unregistered" and ev.get("u") == "u1":
            flush_setup()
            out.append({"e": "Disconnect"})
    flush_setup()
    out.append({"e": "Quiet"})
    return out


def run(tier, work):
    t0 = time.time()
    exe = build.ensure_harness("vdrv", ["vdrv.cpp"])
    verdict = vlib.Verdict(PROP)
    hists, gs = vlib.generate(SPEC, "InputToGen", "GenQuick.cfg" if tier == "quick" else "GenThorough.cfg", work, "p2a", timeout=1800,
                              cap=(None if tier == "quick" else 40000))
    nsim = 1500 if tier == "quick" else 20000
    sims, _ = vlib.generate(SPEC, "InputToGen", "GenSim.cfg", work, "p2b", workers=4, simulate="num=%d" % nsim,
                            extra=["-depth", "14", "-seed", str(vlib.SEED)], timeout=900)
    rnd = random.Random(vlib.SEED)
    sims.sort(key=lambda h: json.dumps(h, sort_keys=True))
    rnd.shuffle(sims)
    allh = hists + sims[:nsim]
    print("GEN %d histories (exhaustive, %d generator states) + %d simulated (seed %d)" % (len(hists), gs["states"], len(allh) - len(hists), vlib.SEED))
    conf, _ = work.mudlib()
    scen = [(str(i), script_of(h)) for i, h in enumerate(allh)]
    t1 = time.time()
    exs = vlib.run_vdrv(exe, conf, scen, work, tag="run")
    print("RUN %d scenarios in %.1fs" % (len(exs), time.time() - t1))
    ncrash = 0
    for ex, sigs, raw in vlib.confirmed_crashes(exe, conf, scen, exs, work):
        for sig in sigs:
            ncrash += 1
            verdict.add(sig, [json.dumps(allh[int(ex["id"])])] + scen[int(ex["id"])][1], "driver failure in an input_to scenario: " + json.dumps(allh[int(ex["id"])])[:300], raw=raw)
    projs = [project(ex) for ex in exs]
    ncb = sum(1 for p in projs for r in p if r["e"] == "Callback")
    ncmd = sum(1 for p in projs for r in p if r["e"] == "Command")
    if ncb < len(projs) // 20 or ncmd < len(projs):
        raise vlib.Broken("vacuous: only %d callbacks / %d commands observed in %d scenarios" % (ncb, ncmd, len(projs)))
    accepted, nevents, rejects = vlib.validate_executions(SPEC, "InputToTrace", "InputToTrace.cfg", projs, work, max_rejects=8)
    for badi, upto in rejects:
        bad = projs[badi][upto] if upto < len(projs[badi]) else {"e": "?"}
        sig = {"kind": "rejected", "event": bad.get("e"), "how": bad.get("how")}
        verdict.add(sig, [json.dumps(allh[badi])] + [json.dumps(p) for p in projs[badi][:upto + 1]],
                    "first unexplainable event #%d: %s" % (upto + 1, json.dumps(bad)[:300]))
    print("TLC P3 InputToTrace: %d executions / %d events accepted (%d callbacks, %d commands)" % (accepted, nevents, ncb, ncmd))
    rc = verdict.finish()
    vlib.write_evidence(PROP, tier, "model_checking", dict(
        states=max(1, gs["states"]), transitions=max(1, gs["transitions"]), traces_validated_against_impl=accepted, evaluations=len(exs),
        distinct_nontrivial=len({json.dumps(h, sort_keys=True) for h in allh if sum(1 for s in h if s["a"] == "line") >= 1}),
        samples=[{"history": allh[0], "trace": projs[0][:12]}, {"history": allh[-1], "trace": projs[-1][:24]}],
        rule="histories printed by TLC from InputToGen (BFS to the bound + -simulate); non-trivial = a set-up and at least one line; distinct by JSON text",
        exhaustive=False, events_validated=nevents, driver_failures=ncrash, callbacks=ncb, commands=ncmd),
        time.time() - t0, len(verdict.new), ["extension beyond the listed properties; not registered in MANIFEST.json"], subdir="evidence_ext")
    return rc


if __name__ == "__main__":
    vlib.main_wrapper(PROP, run)
