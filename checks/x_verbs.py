#!/usr/bin/env python3
"""Extension (no listed property of its own): how a typed command reaches the functions registered with add_action.
P2: VerbsGen enumerates registrations (exact / short / no-space verbs over an overlapping alphabet, answering 0 or 1) by two
    objects the user carries, removals, the objects leaving / coming back / being destructed, and typed lines.
P3: every history runs in the real backend; TLC validates the trace against Verbs: the sentences are offered the line
    front (newest) first, exactly the matching ones, until one answers non-zero; each sees the right query_verb() and
    argument; sentences of an object that left are gone and come back through init()."""
import os, sys, json, time, random
sys.path.insert(0, os.path.join(os.path.dirname(os.path.abspath(__file__)), "..", "tools"))
import vlib, build

PROP = "XVERBS"
SPEC = os.path.join(vlib.VERIF, "spec", "verbs")
PRE = ["backend", "connect u1", "cycle", "line u1 name u1", "cycle",
       "line u1 do me mk:a1:/obj/va;mk:a2:/obj/va;mk:room:/obj/ecb;wmv:a1:me;wmv:a2:me", "cycle"]


def script_of(h):
    ops = list(PRE)
    for s in h:
        a = s["a"]
        if a == "add":
            ops += ["line u1 do me xcall2:%s:addv:%s:%d" % (s["o"], s["v"], s["f"] * 10 + s["r"]), "cycle"]
        elif a == "rm":
            ops += ["line u1 do me xcall2:%s:rmv:%s:0" % (s["o"], s["v"]), "cycle"]
        elif a == "out":
            ops += ["line u1 do me wmv:%s:room" % s["o"], "cycle"]
        elif a == "in":
            ops += ["line u1 do me wmv:%s:me" % s["o"], "cycle"]
        elif a == "dest":
            ops += ["line u1 do me dest:%s" % s["o"], "cycle"]
        elif a == "cmd":
            ops += ["line u1 %s" % s["t"], "cycle"]
    return ops + ["cycle", "cycle"]


def ch(s):
    return list(s)


def project(ex):
    out = [{"e": "Reset", "id": ex["id"]}]
    started = False
    incmd = False
    bad = False
    for ev in ex["events"]:
        e = ev.get("e")
        if e == "Mk" and ev.get("ob") == "room":
            started = True
            continue
        if not started:
            continue
        if e == "AddAction":
            out.append({"e": "AddAction", "ob": ev["ob"], "verb": ch(ev["verb"]), "flag": ev["flag"], "ret": ev["ret"]})
        elif e == "RemoveAction":
            out.append({"e": "RemoveAction", "ob": ev["ob"], "verb": ch(ev["verb"]), "ok": ev["ok"]})
        elif e == "MoveTry" and ev.get("ob") in ("a1", "a2"):
            out.append({"e": "Gone", "ob": ev["ob"]})          # leaving (or re-entering) drops the sentences; init() adds them again
        elif e == "Dest" and ev.get("live") and ev.get("ob") in ("a1", "a2"):
            out.append({"e": "Gone", "ob": ev["ob"]})
        elif e == "Cmd" and ev.get("u") == "u1" and "mode" not in ev:
            text = bytes.fromhex(ev["hex"]).decode("latin-1")
            if not text.startswith("do "):
                out.append({"e": "Command", "line": ch(text.rstrip(" "))})
                incmd, bad = True, False
        elif e == "Act" and incmd:
            out.append({"e": "Act", "ob": ev["ob"], "verb": ch(ev["verb"]), "flag": ev["flag"], "qverb": ch(ev["qverb"] or ""),
                        "arg": ch(ev["arg"]) if isinstance(ev["arg"], str) else ["?"]})
        elif e == "BadLine" and incmd:
            bad = True
        elif e == "Wait" and incmd:
            out.append({"e": "CommandEnd", "handled": 0 if bad else 1})
            incmd = False
    return out


def run(tier, work):
    t0 = time.time()
    exe = build.ensure_harness("vdrv", ["vdrv.cpp"])
    verdict = vlib.Verdict(PROP)
    hists, gs = vlib.generate(SPEC, "VerbsGen", "GenQuick.cfg" if tier == "quick" else "GenThorough.cfg", work, "p2a", timeout=1800,
                              cap=(None if tier == "quick" else 40000))
    nsim = 2500 if tier == "quick" else 30000
    sims, _ = vlib.generate(SPEC, "VerbsGen", "GenSim.cfg", work, "p2b", workers=4, simulate="num=%d" % nsim,
                            extra=["-depth", "11", "-seed", str(vlib.SEED)], timeout=900)
    rnd = random.Random(vlib.SEED)
    sims.sort(key=lambda h: json.dumps(h, sort_keys=True))
    rnd.shuffle(sims)
    allh = hists + sims[:nsim]
    print("GEN %d histories (exhaustive) + %d simulated (seed %d)" % (len(hists), len(allh) - len(hists), vlib.SEED))
    conf, _ = work.mudlib()
    scen = [(str(i), script_of(h)) for i, h in enumerate(allh)]
    t1 = time.time()
    exs = vlib.run_vdrv(exe, conf, scen, work, tag="run")
    print("RUN %d scenarios in %.1fs" % (len(exs), time.time() - t1))
    ncrash = 0
    for ex, sigs, raw in vlib.confirmed_crashes(exe, conf, scen, exs, work):
        for sig in sigs:
            ncrash += 1
            verdict.add(sig, [json.dumps(allh[int(ex["id"])])] + scen[int(ex["id"])][1], "driver failure in an add_action scenario: " + json.dumps(allh[int(ex["id"])])[:300], raw=raw)
    projs = [project(ex) for ex in exs]
    nact = sum(1 for p in projs for r in p if r["e"] == "Act")
    ncmd = sum(1 for p in projs for r in p if r["e"] == "Command")
    if nact < len(projs) // 4 or ncmd < len(projs):
        raise vlib.Broken("vacuous: only %d verb functions ran for %d commands in %d scenarios" % (nact, ncmd, len(projs)))
    accepted, nevents, rejects = vlib.validate_executions(SPEC, "VerbsTrace", "VerbsTrace.cfg", projs, work, max_rejects=8)
    for badi, upto in rejects:
        bad = projs[badi][upto] if upto < len(projs[badi]) else {"e": "?"}
        verdict.add({"kind": "rejected", "event": bad.get("e")}, [json.dumps(allh[badi])] + [json.dumps(p) for p in projs[badi][:upto + 1]],
                    "first unexplainable event #%d: %s" % (upto + 1, json.dumps(bad)[:300]))
    print("TLC P3 VerbsTrace: %d executions / %d events accepted (%d commands, %d verb functions run)" % (accepted, nevents, ncmd, nact))
    rc = verdict.finish()
    vlib.write_evidence(PROP, tier, "model_checking", dict(
        states=max(1, gs["states"]), transitions=max(1, gs["transitions"]), traces_validated_against_impl=accepted, evaluations=len(exs),
        distinct_nontrivial=len({json.dumps(h, sort_keys=True) for h in allh}),
        samples=[{"history": allh[0], "trace": projs[0][:12]}, {"history": allh[-1], "trace": projs[-1][:30]}],
        rule="histories printed by TLC from VerbsGen (BFS to the bound + -simulate), every one begins with a registration and ends with a typed line; distinct by JSON text",
        exhaustive=False, events_validated=nevents, driver_failures=ncrash, commands=ncmd, verb_functions_run=nact),
        time.time() - t0, len(verdict.new), ["extension beyond the listed properties; not registered in MANIFEST.json"], subdir="evidence_ext")
    return rc


if __name__ == "__main__":
    vlib.main_wrapper(PROP, run)
