#!/bin/bash
# Build /repo WITHOUT the NEOLITH_VERIF guard into /verif/.build/baseline and run the repository's
# own test suite, as /root/.vp/BASELINE.json does (ctest -j8 --timeout 900).
set -e
B=/verif/.build/baseline
mkdir -p /verif/.build
cmake -G Ninja -S /repo -B $B -DCMAKE_BUILD_TYPE=RelWithDebInfo -DGTest_DIR=/root/miniconda/lib/cmake/GTest >/dev/null
cmake --build $B -j16 >/dev/null
ctest --test-dir $B -j8 --timeout 900 --output-junit $B/junit.xml "$@"
