#!/usr/bin/env python3
"""C17 — a program loaded from a saved binary equals what its source compiles to; stale binaries are never used.
Staleness (model checking):
 P1: TLC checks on Binaries (files with logical mtimes and versions, binaries stamped with the compile time,
     simul_efun version of the running driver, bytecode format) that a binary which MAY be used always embodies
     the current versions (NeverStale); weakened use rules (include check dropped, simul_efun check dropped) are
     kept as configurations that must be violated.
 P2: BinGen prints every history of edit / touch / old-format / reload (and restart + simul_efun edits) up to a bound.
 P3: each history is executed in the real driver: sources written and stamped with utimes, programs re-loaded,
     the driver's own file-system calls (interposed) tell whether the .b file or the .c file was read; what
     the loaded program answers (the version tags of A.c, H.h, B.c and of the simul_efun it calls) and the
     use-binary decisions are validated by TLC against Binaries.
Equivalence (translation validation): TLC-enumerated program shapes (string / int / range switches, inheritance,
     includes, classes, function literals, save_types, global initialisers, varargs, many strings / functions) are
     generated as LPC, compiled (binary saved), then loaded from the binary in a fresh load; the structural dump
     (dump_prog: inherits, functions, variables, strings, disassembly, line table - canonicalised for the
     address-ordered tables) and the results of every generated call (incl. the line an error is reported at) must
     be identical; TLC validates the Dump / Results events against BinEquiv."""
import os, sys, json, time, random, re, hashlib, shutil, subprocess
sys.path.insert(0, os.path.join(os.path.dirname(os.path.abspath(__file__)), "..", "tools"))
import vlib, build

PROP = "C17"
SPEC = os.path.join(vlib.VERIF, "spec", "binaries")
T0 = 1000000000


def T(t):
    return T0 + 10 * t


def hx(s):
    return s.encode().hex()


def src(f, k, base, saveB=True, late=False):
    """content of file f at version k (every version also changes the program's layout); late: the #include comes
    BEFORE the #pragma save_binary line (the header is opened while the pragma is not yet in effect)"""
    pad = "".join("int pad_%s_%d() { return %d; }\n" % (f.lower(), i, i) for i in range(k % 3))
    if f == "A":
        head = '#include "H.h"\n#pragma save_binary\n' if late else '#pragma save_binary\n#include "H.h"\n'
        return (head + 'inherit "%sB";\n%sstring a_tag() { return "A%d"; }\n'
                'mixed tags() { return ({ a_tag(), H_TAG, b_tag(), g_tag(), c17_sver() }); }\n' % (base, pad, k))
    if f == "B":
        head = ('#include "G.h"\n#pragma save_binary\n' if late else '#pragma save_binary\n#include "G.h"\n') if saveB else '#include "G.h"\n'
        return (head + '%sstring b_tag() { return "B%d"; }\nG_PAD\nstring g_tag() { return G_TAG; }\n'
                'mixed tags() { return ({ b_tag(), g_tag() }); }\n' % (pad, k))
    if f == "H":
        return '#define H_TAG "H%d"\n' % k
    if f == "G":    # a header only B includes; every version changes B's function layout
        return '#define G_TAG "G%d"\n#define G_PAD %s\n' % (k, " ".join("int pad_g_%d() { return %d; }" % (i, i) for i in range(k % 3)))
    raise ValueError(f)


def simul_text(k):
    base = open(os.path.join(vlib.VERIF, "mudlib", "base", "simul_efun.c")).read()
    i = base.index("// @C17-BEGIN@")
    j = base.index("// @C17-END@")
    dummies = "".join('string c17_dummy%d() { return "dummy"; }\n' % n for n in range(k - 1))
    return base[:i] + "// @C17-BEGIN@\n" + dummies + 'string c17_sver() { return "S%d"; }\n' % k + base[j:]


FN = {"A": "A.c", "B": "B.c", "H": "H.h", "G": "G.h"}


def segments_of(hh, sid, private):
    """-> list of segments; a segment = op list run in one driver process. Mirrors the clock of Binaries."""
    h, saveB = hh["h"], hh["saveB"]
    late = int("".join(ch for ch in str(sid) if ch.isdigit()) or 0) % 2 == 1      # every other scenario: includes above the pragma
    D = "c17/%s" % sid
    base = "/" + D + "/"
    ver = {"A": 1, "B": 1, "H": 1, "G": 1, "S": 1}
    now = 5
    pre = ["call /master set_policy save_binary #1", "call /obj/bn set_base " + base]
    seg = list(pre)
    for f, t in (("A", 1), ("B", 2), ("H", 3), ("G", 0)):
        seg += ["hostwrite %s/%s %s" % (D, FN[f], hx(src(f, 1, base, saveB, late))), "utime %s/%s %d" % (D, FN[f], T(t))]
    if private:
        seg += ["utime simul_efun.c %d" % T(4)]
    segs = []
    for a in h:
        if a["a"] == "edit":
            f = a["f"]
            ver[f] += 1
            if f == "S":
                seg += ["hostwrite simul_efun.c %s" % hx(simul_text(ver[f])), "utime simul_efun.c %d" % T(now)]
            else:
                seg += ["hostwrite %s/%s %s" % (D, FN[f], hx(src(f, ver[f], base, saveB, late))), "utime %s/%s %d" % (D, FN[f], T(now))]
            seg += ["note Edit %s %d" % (f, now)]
            now += 1
        elif a["a"] == "touch":
            f = a["f"]
            seg += ["utime %s %d" % ("simul_efun.c" if f == "S" else "%s/%s" % (D, FN[f]), T(now)), "note Touch %s %d" % (f, now)]
            now += 1
        elif a["a"] == "oldformat":
            seg += ["patchbytes bin/%s/%s.b 4 00000000" % (D, a["p"]), "note OldFormat %s" % a["p"]]
        elif a["a"] == "restart":
            seg += ["note Restart"]
            segs.append(seg)
            seg = list(pre)
        elif a["a"] == "load":
            p = a["p"]
            seg += ["fslog 1", "call /obj/bn reload %s" % ("A,B" if p == "A" else "B"), "fslog 0",
                    "stampnew bin/%s %d" % (D, T(now)), "note Load %s" % p, "call /obj/bn tags %s" % p]
            now += 1
    segs.append(seg)
    return segs


def project(events, sid, saveB):
    """abstract trace of one scenario (all its segments' events concatenated)"""
    D = "c17/%s" % sid
    out = [{"e": "Reset", "id": sid, "saveB": saveB}]
    opened = set()
    patched_ok = None
    lastload = None
    for ev in events:
        e = ev.get("e")
        if e == "Fs" and ev["fn"] in ("open", "fopen"):
            opened.add(ev["path"])
        elif e == "Patched":
            patched_ok = ev["ok"]
        elif e == "Note":
            w = ev["t"].split()
            if w[0] == "Edit":
                out.append({"e": "Edit", "f": w[1]})
            elif w[0] == "Touch":
                out.append({"e": "Touch", "f": w[1]})
            elif w[0] == "Restart":
                out.append({"e": "Restart"})
            elif w[0] == "OldFormat":
                if patched_ok:
                    out.append({"e": "OldFormat", "p": w[1]})
                patched_ok = None
            elif w[0] == "Load":
                used = {}
                for q in ("A", "B"):
                    b = "bin/%s/%s.b" % (D, q)
                    c = "%s/%s.c" % (D, q)
                    used[q] = (b in opened) and (c not in opened)
                lastload = {"e": "Load", "p": w[1], "usedA": used["A"], "usedB": used["B"], "tags": None,
                            "readsrc": sorted(q for q in ("A", "B") if "%s/%s.c" % (D, q) in opened)}
                opened = set()
        elif e == "CallRet" and ev.get("fn") == "tags" and lastload is not None:
            v = ev.get("v")
            lastload["tags"] = v if isinstance(v, list) else [str(v)]
            out.append(lastload)
            lastload = None
        elif e == "CallErr" and lastload is not None and ev.get("fn") == "tags":
            lastload["tags"] = ["error"]
            out.append(lastload)
            lastload = None
    return out


# ------------------------------------------------------------------------------------------ equivalence
def canon_dump(text):
    """canonical form of a dump_prog(ob, 3) listing: drop the raw byte dump (it holds string addresses in
    switch tables), sort the rows of address-ordered tables, replace function-table indices by names"""
    lines = text.splitlines()
    out = []
    i = 0
    sect = ""
    while i < len(lines):
        ln = lines[i]
        if ln.startswith("PROGRAM:"):
            sect = "PROGRAM"
            i += 1
            while i < len(lines) and not lines[i].startswith("FUNCTIONS:"):
                i += 1
            continue
        if ln.startswith("FUNCTIONS:"):
            sect = "FUNCTIONS"
        elif ln.startswith("VARIABLES:") or ln.startswith("STRINGS:") or ln.startswith(";;;"):
            sect = ln
        if sect == "FUNCTIONS":
            m = re.match(r"\s*(\d+): (\S+)\s+(\d+)\s+(\S{7})(.*)$", ln)
            if m:
                idx, name, off, fl, rest = m.groups()
                if fl[0] == "i":
                    out.append("F %s %s off=%s %s %s" % (idx, name, off, fl, rest.strip()))
                else:   # 'offset' of a defined function is its index in the address-sorted compiler table: not canonical
                    out.append("F %s %s %s %s" % (idx, name, fl, " ".join(rest.split())))
                i += 1
                continue
        # string switch tables: rows are sorted by the addresses of the shared strings
        if re.match(r'^\t".*"\t[0-9a-f]+$', ln):
            rows = []
            while i < len(lines) and re.match(r'^\t(".*"|0\s*)\t[0-9a-f]+$', lines[i]):
                rows.append(lines[i])
                i += 1
            out.extend(sorted(rows))
            continue
        out.append(re.sub(r"[ \t]+", " ", ln))      # column widths depend on the length of path names
        i += 1
    return "\n".join(out)


def run(tier, work):
    t0 = time.time()
    verdict = vlib.Verdict(PROP)
    exe = build.ensure_harness("vdrv", ["vdrv.cpp"])
    # ---- P1
    st = vlib.model_check(SPEC, "BinGen", "MC_spec.cfg" if tier != "quick" else "MC_spec_quick.cfg", work, "p1")
    if not st["ok"]:
        raise vlib.Broken("Binaries violates NeverStale:\n" + st["out"][-2500:])
    print("TLC P1 Binaries/NeverStale: %d states, %d transitions, ok" % (st["states"], st["transitions"]))
    for mut in ("noinclude", "nosimul", "driver"):
        rc_, out_ = vlib.tlc(SPEC, "BinGen", "MC_%s.cfg" % mut, work, "p1" + mut, deadlock_off=True, timeout=900)
        if rc_ not in (12, 13):
            raise vlib.Broken("weakened use rule '%s' is not detected by the model (exit %d)" % (mut, rc_))
    print("TLC P1 weakened use rules (noinclude, nosimul) and the rule load_binary() implements (driver: known finding C17-F1): violated as expected")
    # ---- P2
    rnd = random.Random(vlib.SEED)
    hists, gs = vlib.generate(SPEC, "BinGen", "GenQuick.cfg" if tier == "quick" else "GenThorough.cfg", work, "p2a", timeout=3000)
    hists.sort(key=lambda h: json.dumps(h, sort_keys=True))
    cap = 2500 if tier == "quick" else 40000
    if len(hists) > cap:
        rnd.shuffle(hists)
        hists = hists[:cap]
    nsim = 500 if tier == "quick" else 6000
    sims, _ = vlib.generate(SPEC, "BinGen", "GenSim.cfg", work, "p2b", workers=4, simulate="num=%d" % nsim,
                            extra=["-depth", "14", "-seed", str(vlib.SEED)], timeout=900)
    sims.sort(key=lambda h: json.dumps(h, sort_keys=True))
    rnd.shuffle(sims)
    hists += sims[:nsim]
    shists, gs2 = vlib.generate(SPEC, "BinGen", "GenS.cfg", work, "p2c", timeout=3000)
    shists = [h for h in shists if any(a["a"] == "restart" for a in h["h"]) and any(a.get("f") == "S" for a in h["h"])]
    shists.sort(key=lambda h: json.dumps(h, sort_keys=True))
    rnd.shuffle(shists)
    shists = shists[:(40 if tier == "quick" else 600)]
    print("GEN %d histories without restart, %d with simul_efun edits and restarts" % (len(hists), len(shists)))
    # ---- run: fork mode (shared mudlib, per-scenario directories)
    conf, mdir = work.mudlib()
    scen = [("f%d" % i, segments_of(h, "f%d" % i, False)[0]) for i, h in enumerate(hists)]
    t1 = time.time()
    exs = vlib.run_vdrv(exe, conf, scen, work, tag="run")
    print("RUN %d scenarios in %.1fs" % (len(exs), time.time() - t1))
    ncrash = 0
    for ex, sigs, raw in vlib.confirmed_crashes(exe, conf, scen, exs, work):
        hh = hists[int(ex["id"][1:])]
        for sig in sigs:
            ncrash += 1
            # (a binary linked against a changed layout of the inherited program - known finding C17-F1 - can also crash)
            sig = dict(sig, crash=True, saveB=hh["saveB"], g_changed=any(a_.get("f") == "G" for a_ in hh["h"]))
            verdict.add(sig, [json.dumps(hh)] + scen[int(ex["id"][1:])][1], "driver failure while re-loading programs", raw=raw)
    projs = [project(ex["events"], ex["id"], hists[int(ex["id"][1:])]["saveB"]) for ex in exs]
    allh = list(hists)
    # ---- run: segment mode (own mudlib and one driver process per boot)
    t1 = time.time()
    sprojs = run_segmented(exe, shists, work, verdict)
    print("RUN %d restart scenarios (%d driver boots) in %.1fs" % (len(shists), sum(1 + sum(1 for a in h["h"] if a["a"] == "restart") for h in shists), time.time() - t1))
    projs += sprojs
    allh += shists
    def sig_of(badi, upto):
        b = projs[badi][upto] if upto < len(projs[badi]) else {"e": "?"}
        sig = {"kind": "rejected", "event": b.get("e")}
        if b.get("e") == "Load":
            sig["p"] = b.get("p")
            sig["usedA"] = b.get("usedA")
            sig["with_simul_edit"] = any(a.get("f") == "S" for a in allh[badi]["h"])
            sig["saveB"] = allh[badi]["saveB"]
            # was the header that only the inherited program includes changed before this load?
            nact = sum(1 for p_ in projs[badi][:upto + 1] if p_["e"] in ("Edit", "Touch", "Restart", "OldFormat", "Load"))
            acts = [a_ for a_ in allh[badi]["h"] if not (a_["a"] == "oldformat" and False)]
            sig["g_changed"] = any(a_["a"] in ("edit", "touch") and a_.get("f") == "G" for a_ in acts[:nact])
        return b, sig

    def drop_known(badi, upto):
        b, sig = sig_of(badi, upto)
        if b.get("e") == "Load" and vlib.match_known(PROP, sig):
            verdict.add(sig, [json.dumps(allh[badi])], "known")
            # the model and the driver now disagree about which binary of A exists: the rest of this history is not judged
            del projs[badi][upto + 1:]
            return True
        return False

    accepted, nevents, rejects = vlib.validate_executions(SPEC, "BinTrace", "BinTrace.cfg", projs, work, drop_if=drop_known)
    for badi, upto in rejects:
        b = projs[badi][upto] if upto < len(projs[badi]) else {"e": "?"}
        sig = {"kind": "rejected", "event": b.get("e")}
        if b.get("e") == "Load":
            sig["p"] = b.get("p")
            sig["usedA"] = b.get("usedA")
            # was the header that only the inherited program includes changed since the binary of A was last written?
            gch = False
            for a_ in allh[badi]["h"][:sum(1 for p_ in projs[badi][:upto + 1] if p_["e"] in ("Edit", "Touch", "Restart", "OldFormat", "Load")) ]:
                if a_["a"] in ("edit", "touch") and a_.get("f") == "G":
                    gch = True
            sig["g_changed"] = gch
            sig["with_simul_edit"] = any(a.get("f") == "S" for a in allh[badi]["h"])
            sig["saveB"] = allh[badi]["saveB"]
        verdict.add(sig, [json.dumps(allh[badi])] + [json.dumps(p) for p in projs[badi][:upto + 1]],
                    "first unexplainable event #%d: %s" % (upto + 1, json.dumps(b)))
    print("TLC P3 BinTrace: %d executions / %d events accepted" % (accepted, nevents))
    loads = [p for pr in projs for p in pr if p["e"] == "Load"]
    nused = sum(1 for p in loads if p["usedA"] or p["usedB"])
    nrecomp = sum(1 for p in loads if p["readsrc"])
    print("LOADS %d, of which %d used at least one binary and %d read at least one source" % (len(loads), nused, nrecomp))
    if nused < len(loads) // 20 or nrecomp < len(loads) // 20:
        raise vlib.Broken("vacuity guard: binaries are (almost) never used or never rejected in the scenarios (%d / %d of %d loads)" % (nused, nrecomp, len(loads)))
    # ---- equivalence
    import c17eq
    eq = c17eq.run(tier, work, exe, verdict)
    rc = verdict.finish()
    vlib.write_evidence(PROP, tier, "model_checking", dict(
        states=st["states"] + gs["states"], transitions=st["transitions"] + gs["transitions"],
        traces_validated_against_impl=accepted + eq["accepted"], evaluations=len(projs) + eq["programs"],
        distinct_nontrivial=len({json.dumps(h, sort_keys=True) for h in allh if len({a["a"] for a in h["h"]}) >= 2}),
        samples=[{"history": allh[0], "trace": projs[0][:8]}, {"history": allh[-1], "trace": projs[-1][:8]}] + eq["samples"],
        rule="staleness: edit/touch/old-format/reload(/restart) histories printed by TLC from BinGen (BFS to the bound + -simulate), non-trivial = "
             "at least two kinds of action, distinct by JSON text; equivalence: program shapes printed by TLC from BinShapes, each compared "
             "compiled-vs-loaded (dump + call results)",
        exhaustive=False, events_validated=nevents + eq["events"], loads=len(loads), loads_using_a_binary=nused,
        loads_recompiling=nrecomp, driver_failures=ncrash, programs=eq["programs"], disagreements_checked=eq["compared"],
        equivalence=eq["summary"]),
        time.time() - t0, len(verdict.new),
        ["modification times are distinct logical times set with utimes (binaries are stamped with the logical time of the load that wrote them)",
         "a re-load destructs the program and the programs it inherits first, so an inherited program is never older than its source when the inheritor is compiled",
         "'the simul_efun file is newer' is judged against the simul_efun the running driver booted with (an edit without restart does not change the running simul_efun object)",
         "the bytecode-format stamp is exercised by overwriting the driver id inside the .b file"])
    return rc


def run_segmented(exe, shists, work, verdict):
    from concurrent.futures import ThreadPoolExecutor
    env = dict(os.environ)
    env.update(vlib.ASAN_ENV)
    env["VDRV_NOWARM"] = "1"

    def one(i):
        h = shists[i]
        sid = "s%d" % i
        conf, mdir = work.mudlib(name="mud_" + sid)
        with open(os.path.join(mdir, "simul_efun.c"), "w") as fh:
            fh.write(simul_text(1))
        events = []
        for k, seg in enumerate(segments_of(h, sid, True)):
            sp = work.path("seg", "%s_%d.txt" % (sid, k))
            op = work.path("seg", "%s_%d.ndjson" % (sid, k))
            with open(sp, "w") as fh:
                fh.write("reset %s\n" % sid)
                for o in seg:
                    fh.write(o + "\n")
            p = subprocess.run(["timeout", "120", exe, conf, sp, op, "30"], env=env, stdout=subprocess.DEVNULL, stderr=subprocess.PIPE, cwd=work.dir)
            end = None
            for ln in open(op, errors="replace"):
                try:
                    ev = json.loads(ln)
                except ValueError:
                    continue
                if ev.get("e") == "End":
                    end = ev
                elif ev.get("e") != "Reset":
                    events.append(ev)
            if end is None or end.get("sig") or end.get("exit") not in (0,) or end.get("asan"):
                events.append({"e": "Died", "end": end})
        shutil.rmtree(mdir, ignore_errors=True)
        return sid, events

    with ThreadPoolExecutor(12) as tp:
        res = list(tp.map(one, range(len(shists))))
    projs = []
    for (sid, events), h in zip(res, shists):
        died = [e for e in events if e.get("e") == "Died"]
        if died:
            end = died[0]["end"] or {}
            verdict.add({"kind": "driver-died", "sig": end.get("sig"), "asan": [r.get("kind") for r in end.get("asan", [])][:2]},
                        [json.dumps(h)], "driver failure in a restart scenario", raw=end.get("raw", ""))
        projs.append(project(events, sid, h["saveB"]))
    return projs


if __name__ == "__main__":
    vlib.main_wrapper(PROP, run)
