"""C17 equivalence part: program shapes -> LPC -> compiled image vs binary-loaded image."""
import os, sys, json, time, random, re, hashlib, shutil, subprocess
import vlib

SPEC = os.path.join(vlib.VERIF, "spec", "binaries")
GREEK = ["alpha", "beta", "gamma", "delta", "epsilon", "zeta", "eta", "theta", "iota", "kappa", "lambda", "mu", "nu", "xi",
         "omicron", "pi", "rho", "sigma", "tau", "upsilon", "phi", "chi", "psi", "omega"]


def word(i):
    return GREEK[i % len(GREEK)] + ("" if i < len(GREEK) else str(i // len(GREEK)))


def gen(shape, base):
    """-> (files, reload list).  Every feature contributes declarations, functions and probe expressions."""
    fs = set(shape["feats"])
    n = shape["n"]
    head = ["#pragma save_binary"]
    if "savetypes" in fs:
        head += ["#pragma save_types", "#pragma strict_types"]
    decl, funcs, probes = [], [], []
    files = {}
    T = (lambda t: t + " ") if "savetypes" in fs else (lambda t: t + " ")
    if "include" in fs:
        head.append('#include "I.h"')
        files["I.h"] = ('#define I_STR "from include"\n#define I_MAC(x) ((x) * 3 + %d)\n'
                        'int i_fun(int a) {\n  return a + 1000;\n}\n'
                        'mixed i_fail(int z) {\n\n  return 10 / z;\n}\n' % n)
        probes += ["I_STR", "I_MAC(4)", "i_fun(2)", "catch(i_fail(0))", "i_fail(5)"]
    if "inherit" in fs:
        head.append('inherit "%sQ";' % base)
        qf = "".join("int q_pad%d() { return %d; }\n" % (i, i) for i in range(n % 7))
        files["Q.c"] = ('#pragma save_binary\nint qv = 42;\nstring qs = "qstr";\nmapping qm = ([ "k" : %d ]);\n%s'
                        'int qf(int a) { return a * 100 + qv; }\nint over() { return 7; }\nstring q_name() { return "Q" + qs; }\n'
                        'mixed q_fail(int z) {\n  return 1 %% z;\n}\n' % (n, qf))
        funcs.append("int over() { return 1000 + ::over(); }")
        probes += ["qf(2)", "qv", "qs", "qm", "over()", "q_name()", "catch(q_fail(0))"]
    if "class" in fs:
        decl.append("class pt { int x; int y; string nm; }")
        decl.append("class pair { mixed a; class pt b; }")
        funcs.append("mixed use_class(int k) {\n  class pt p = new(class pt);\n  class pair q = new(class pair);\n  p->x = k; p->y = k + 1; p->nm = \"pt\" + k;\n"
                     "  q->a = ({ k }); q->b = p;\n  return ({ p->x + p->y, p->nm, q->b->nm, q->a, classp(q) });\n}")
        probes += ["use_class(3)", "use_class(%d)" % n]
    if "ginit" in fs:
        decl += ["int g1 = %d;" % (n * 7), 'mapping gm = ([ "a" : 1, "b" : ({ 1, 2 }), %d : "n" ]);' % n,
                 'string *ga = ({ "x", "y", "z%d" });' % n, "int g2 = g1 + 1;", "mixed g3 = ({ g2, ([ ]) });"]
        probes += ["g1", "gm", "ga", "g2", "g3"]
    else:
        decl += ["int g1;"]
        probes += ["g1"]
    if "floats" in fs:
        decl.append("float gf = 2.5;")
        funcs.append("float fl(float a, int b) { return a * 1.5 + b - 0.25e2 + %d.125; }" % n)
        probes += ["gf", "fl(2.0, 3)", "fl(gf, %d)" % n, "to_int(fl(1.0, 1))", "1.0e10", "-0.5"]
    if "modifiers" in fs:
        funcs += ["private int hidden(int a) { return a * 2; }", "static int stat_f(int a) { return a + 1; }",
                  "int proto(int a);", "nomask int nm_f() { return %d; }" % n, "protected int prot_f(int a) { return a - 2; }",
                  "int uses_proto() { return proto(10) + hidden(1); }", "int proto(int a) { return a - 1; }"]
        decl += ["private int pv = 3;", "static string sv = \"static\";", "public int nv = 9;"]
        probes += ["hidden(3)", "stat_f(3)", "proto(3)", "nm_f()", "prot_f(3)", "uses_proto()", "pv", "sv", "nv"]
    if "varargs" in fs:
        funcs += ["varargs int va(int a, int b) { return a + b * 10; }", "int spread(int a, mixed *rest...) { return a + sizeof(rest); }",
                  "mixed fwd(mixed *a...) { return spread(a...); }"]
        probes += ["va(1)", "va(1, 2)", "spread(1, 2, 3)", "fwd(5, 6, 7, 8)", "fwd(1)"]
    if "funlit" in fs:
        funcs.append("int fl_helper(int a, int b) { return a * 10 + b; }")
        funcs.append("mixed use_fp(int k) {\n  function f1 = (: $1 + $2 :);\n  function f2 = (: fl_helper :);\n  function f3 = (: strlen :);\n"
                     "  function f4 = (: fl_helper, 7 :);\n  function f5 = (: g1 + $1 :);\n  function f6 = (: ({ $1, (: $1 * 2 :) }) :);\n"
                     "  mixed r6 = evaluate(f6, k);\n"
                     "  return ({ evaluate(f1, 1, k), evaluate(f2, 4, k), evaluate(f3, \"abcd\"), evaluate(f4, 2), evaluate(f5, 1),\n"
                     "    map_array(({ 1, 2, k }), (: $1 * $1 :)), r6[0], evaluate(r6[1], 21), filter_array(({ 1, 2, 3, 4 }), (: $1 > $(k) :)),\n"
                     "    sort_array(({ 3, 1, 2 }), (: $1 - $2 :)), functionp(f1) });\n}")
        probes += ["use_fp(2)", "use_fp(%d)" % n]
    if "strswitch" in fs:
        cases = "".join('    case "%s": return %d;\n' % (word(i), i + 1) for i in range(n))
        funcs.append("int sw_str(string s) {\n  switch (s) {\n%s    case 0: return -1;\n    default: return 99;\n  }\n}" % cases)
        funcs.append("string sw_str2(string s) {\n  string r = \"\";\n  switch (s) {\n%s  }\n  return r + \"|\";\n}" %
                     "".join('    case "%s": r += "%d";%s\n' % (word(2 * i + 1), i, "" if i % 3 else " break;") for i in range(max(1, n // 2))))
        probes += ['sw_str("%s")' % word(i) for i in sorted({0, n - 1, n // 2, n})] + ['sw_str("nope")', "sw_str(0)"]
        probes += ['sw_str2("%s")' % word(2 * i + 1) for i in sorted({0, max(1, n // 2) - 1})] + ['sw_str2("alpha")']
    if "intswitch" in fs:
        dense = "".join("    case %d: return %d;\n" % (i + 1, (i + 1) * 10) for i in range(n))
        funcs.append("int sw_dense(int i) {\n  switch (i) {\n%s    default: return -5;\n  }\n}" % dense)
        sparse = "".join("    case %d: return %d;\n" % ((i - n // 2) * 100003, i) for i in range(n))
        funcs.append("int sw_sparse(int i) {\n  switch (i) {\n%s  }\n  return -7;\n}" % sparse)
        funcs.append("int sw_range(int i) {\n  switch (i) {\n    case -5..-1: return 1;\n    case 0: return 2;\n    case 10..%d: return 3;\n    case %d: return 4;\n    case 1000000000000..1000000000005: return 5;\n  }\n  return 0;\n}" % (10 + n, 20 + n))
        probes += ["sw_dense(%d)" % i for i in sorted({0, 1, n, n + 1, n // 2})]
        probes += ["sw_sparse(%d)" % ((i - n // 2) * 100003) for i in sorted({0, n - 1, n // 2})] + ["sw_sparse(5)"]
        probes += ["sw_range(%d)" % i for i in (-6, -5, -1, 0, 5, 10, 10 + n, 11 + n, 20 + n, 1000000000003)]
    if "nestedswitch" in fs:
        funcs.append('string sw_nest(string a, int b) {\n  switch (a) {\n    case "in":\n      switch (b) {\n        case 1: return "in1";\n        case 2..%d: return "in2";\n      }\n      return "in?";\n'
                     '    case "out":\n      switch (a + b) {\n        case "out1": return "o1";\n        case "out%d": return "oN";\n      }\n      break;\n  }\n  return "none";\n}' % (n + 2, n))
        probes += ['sw_nest("in", 1)', 'sw_nest("in", %d)' % (n + 2), 'sw_nest("in", %d)' % (n + 3), 'sw_nest("out", 1)', 'sw_nest("out", %d)' % n, 'sw_nest("x", 0)']
    if "manyfuncs" in fs:
        for i in range(n * 2):
            funcs.append("int %s_fn(int a) { return a + %d; }" % (word(i * 5 + 3), i))
        probes += ["%s_fn(1)" % word(i * 5 + 3) for i in sorted({0, n, 2 * n - 1})]
    if "manystrings" in fs:
        funcs.append("mixed strs() {\n  return ({\n%s\n  });\n}" % ",\n".join('    "s_%s_%d"' % (word(i * 7), i) for i in range(n * 3)))
        funcs.append('string longs() { return "%s" + "%s"; }' % ("L" * (n * 11), 'tail\\n\\t\\"q\\"'))
        probes += ["strs()", "longs()", "sizeof(strs())"]
    funcs.append("mixed fail_here(int z) {\n  int w = %d;\n\n  return w / z;\n}" % n)
    probes += ["catch(fail_here(0))", "fail_here(1)"]
    body = "\n".join(head) + "\n" + "\n".join(decl) + "\n" + "\n".join(funcs) + "\n"
    body += "mixed results() {\n  return ({\n" + ",\n".join("    " + p for p in probes) + "\n  });\n}\n"
    files["P.c"] = body
    return files, ("P,Q" if "inherit" in fs else "P")


def decoy(files):
    """a program that defines P's function names and string constants in REVERSE order: loaded before P's binary in
    a fresh driver it makes the shared strings exist at addresses ordered differently from the saved tables (which are
    sorted by string address), so a loader that does not re-sort the function table / string-switch tables is exposed"""
    src = files["P.c"]
    names = []
    for m in re.finditer(r"^(?:(?:private|static|nomask|protected|public|varargs)\s+)*(?:int|string|mixed|float|void|mapping)\s*\*?\s*(\w+)\s*\(", src, re.M):
        if m.group(1) not in names:
            names.append(m.group(1))
    strs = []
    for m in re.finditer(r'"((?:[^"\\\n]|\\.)*)"', src):
        if m.group(1) not in strs and not m.group(1).endswith(".h") and len(m.group(1)) < 200:
            strs.append(m.group(1))
    out = ["// decoy: same names, reverse order"]
    out.append("mixed zs() {\n  return ({\n%s\n  });\n}" % ",\n".join('    "%s"' % x for x in reversed(strs)))
    for nm in reversed(names):
        out.append("int %s() { return 0; }" % nm)
    return "\n".join(out) + "\n"


def canon_dump(text):
    import c17
    return c17.canon_dump(text)


def image_ops(D, base, reload, k):
    return ["fslog 1", "call /obj/bn reload %s" % reload, "fslog 0", "note Loaded %d" % k,
            "call /obj/bn dump P /%s/d%d" % (D, k), "hostcat %s/d%d" % (D, k),
            "call /obj/bn results P", "call %sP fail_here #0" % base, "call /obj/bn churn #%d" % (k * 37)]


def ops_of(shape, sid):
    D = "c17e/%s" % sid
    base = "/" + D + "/"
    files, reload = gen(shape, base)
    ops = ["call /master set_policy save_binary #1", "call /obj/bn set_base " + base]
    for f, txt in sorted(files.items()):
        ops += ["hostwrite %s/%s %s" % (D, f, txt.encode().hex()), "utime %s/%s 1000000000" % (D, f)]
    return ops, D, base, reload, files


def images(events, D, norm=None):
    """-> list of Image events of one execution (or segment); norm: directory name replaced by a fixed token in every text"""
    out = []
    opened = set()
    cur = None
    for ev in events:
        e = ev.get("e")
        if e == "Fs" and ev["fn"] in ("open", "fopen"):
            opened.add(ev["path"])
        elif e == "Note" and ev["t"].startswith("Loaded"):
            used = ("bin/%s/P.b" % D in opened) and ("%s/P.c" % D not in opened)
            cur = {"e": "Image", "how": "binary" if used else "compiled", "dump": None, "results": None, "reports": [],
                   "readsrc": "%s/P.c" % D in opened}
            out.append(cur)
            opened = set()
        elif cur is None:
            continue
        elif e == "HostFile":
            txt = bytes.fromhex(ev["hex"]).decode(errors="replace") if ev.get("exists") else "<no dump>"
            cur["dump_text"] = canon_dump(txt)
        elif e == "CallRet" and ev.get("fn") == "results":
            cur["results_text"] = json.dumps(ev.get("v"), sort_keys=True)
        elif e == "CallErr" and ev.get("fn") in ("results", "reload", "dump"):
            cur.setdefault("errs", []).append(ev.get("fn"))
        elif e == "Reported":
            cur["reports"].append([ev.get("caught"), ev.get("err"), ev.get("file"), ev.get("line"),
                                   [t for t in ev.get("trace", []) if t[1] != "obj/bn.c"]])
    if norm:
        for im in out:
            for k in ("dump_text", "results_text"):
                if k in im:
                    im[k] = im[k].replace(norm, "DIR")
            im["reports"] = json.loads(json.dumps(im["reports"]).replace(norm, "DIR"))
    for im in out:
        im["dump"] = hashlib.sha1(im.get("dump_text", "<none>").encode()).hexdigest()[:16]
        im["results"] = hashlib.sha1((im.get("results_text", "<none>") + json.dumps(im.get("errs", []))).encode()).hexdigest()[:16]
        im["reports_text"] = json.dumps(im["reports"])
        im["reports"] = hashlib.sha1(im["reports_text"].encode()).hexdigest()[:16]
    return out


def explain(a, b):
    """first difference between two images, for the replay file"""
    for k in ("dump_text", "results_text", "reports_text"):
        x, y = a.get(k, ""), b.get(k, "")
        if x != y:
            xl, yl = x.splitlines(), y.splitlines()
            for i in range(max(len(xl), len(yl))):
                p = xl[i] if i < len(xl) else "<end>"
                q = yl[i] if i < len(yl) else "<end>"
                if p != q:
                    return k, "line %d: compiled %r / binary %r" % (i + 1, p[:200], q[:200])
    return "?", "?"


def run(tier, work, exe, verdict):
    rnd = random.Random(vlib.SEED)
    shapes, gs = vlib.generate(SPEC, "BinShapes", "ShapesQuick.cfg" if tier == "quick" else "ShapesThorough.cfg", work, "eqa", timeout=1800)
    nsim = 150 if tier == "quick" else 3000
    sims, _ = vlib.generate(SPEC, "BinShapes", "ShapesSim.cfg", work, "eqb", workers=4, simulate="num=%d" % nsim,
                            extra=["-depth", "3", "-seed", str(vlib.SEED)], timeout=900)
    key = lambda s: json.dumps(s, sort_keys=True)
    shapes.sort(key=key)
    sims.sort(key=key)
    rnd.shuffle(sims)
    shapes += sims[:nsim]
    print("GEN %d program shapes (feature sets x sizes: BFS + %d simulated)" % (len(shapes), min(nsim, len(sims))))
    conf, mdir = work.mudlib(name="mudeq")
    scen, info = [], []
    for i, sh in enumerate(shapes):
        sid = "e%d" % i
        ops, D, base, reload, files = ops_of(sh, sid)
        ops += image_ops(D, base, reload, 1) + image_ops(D, base, reload, 2) + image_ops(D, base, reload, 3)
        scen.append((sid, ops))
        info.append((D, files))
    t1 = time.time()
    exs = vlib.run_vdrv(exe, conf, scen, work, tag="eqrun", timeout=20)
    print("RUN %d programs (compile, then two loads from the binary) in %.1fs" % (len(exs), time.time() - t1))
    ncrash = 0
    for ex, sigs, raw in vlib.confirmed_crashes(exe, conf, scen, exs, work):
        for sig in sigs:
            ncrash += 1
            i = int(ex["id"][1:])
            verdict.add(sig, [json.dumps(shapes[i])] + ["// %s\n%s" % kv for kv in sorted(info[i][1].items())], "driver failure while saving / loading a binary", raw=raw)
    projs, ims_all = [], []
    for ex in exs:
        i = int(ex["id"][1:])
        ims = images(ex["events"], info[i][0])
        ims_all.append(ims)
        projs.append([{"e": "Reset", "id": ex["id"]}] + [{k: im[k] for k in ("e", "how", "dump", "results", "reports")} for im in ims])
    # ---- a sample again with the binary loaded by a freshly booted driver (different heap layout, different string addresses)
    nseg = 24 if tier == "quick" else 400
    seg_idx = sorted(rnd.sample(range(len(shapes)), min(nseg, len(shapes))))
    sprojs, sims_all = run_fresh(exe, [shapes[i] for i in seg_idx], work, verdict)
    projs += sprojs
    ims_all += sims_all
    allshapes = shapes + [shapes[i] for i in seg_idx]
    # vacuity / harness sanity: the first image must be a compile that worked, the later ones binary loads
    ncompiled = sum(1 for ims in ims_all if ims and ims[0]["how"] == "compiled" and "results_text" in ims[0] and ims[0].get("dump_text", "<no dump>") != "<no dump>")
    nbinary = sum(1 for ims in ims_all for im in ims[1:] if im["how"] == "binary")
    nfail = [i for i, ims in enumerate(ims_all) if not ims or "results_text" not in ims[0] or ims[0].get("errs")]
    if nfail:
        i = nfail[0]
        raise vlib.Broken("generated program does not compile / run (shape %s): %s" % (json.dumps(allshapes[i]), json.dumps([e for e in (exs[i]["events"] if i < len(exs) else []) if e.get("e") in ("Reported", "CallErr", "Log")][:4])[:1500]))
    if nbinary < len(ims_all):       # (on average two loads per program should use the binary; the driver may decline now and then)
        raise vlib.Broken("vacuity guard: only %d loads used a binary for %d programs" % (nbinary, len(ims_all)))
    accepted, nevents, rejects = vlib.validate_executions(SPEC, "BinEquiv", "BinEquiv.cfg", projs, work, tag="eqp3")
    for badi, upto in rejects:
        ims = ims_all[badi]
        what, where = explain(ims[0], ims[upto - 1]) if 0 < upto <= len(ims) else ("?", "?")
        if what == "?":
            where = "images: " + json.dumps(projs[badi])[:600]
        sh = allshapes[badi]
        sig = {"kind": "differs", "what": what.replace("_text", ""), "feats": sorted(sh["feats"])[:3]}
        verdict.add(sig, [json.dumps(sh), where], "binary-loaded program differs from the compiled one in its %s: %s" % (what.replace("_text", ""), where))
    print("TLC P3 BinEquiv: %d programs / %d images accepted (%d compiled, %d loaded from the binary)" % (accepted, nevents, ncompiled, nbinary))
    feats_seen = sorted({f for sh in allshapes for f in sh["feats"]})
    return dict(accepted=accepted, programs=len(ims_all), compared=nbinary, events=nevents,
                samples=[{"shape": allshapes[0], "images": projs[0]}, {"shape": allshapes[-1], "images": projs[-1]}],
                summary=dict(programs=len(ims_all), binary_loads_compared=nbinary, fresh_process_loads=len(sprojs), features=feats_seen,
                             driver_failures=ncrash))


def run_fresh(exe, shapes, work, verdict):
    from concurrent.futures import ThreadPoolExecutor
    env = dict(os.environ)
    env.update(vlib.ASAN_ENV)
    env["VDRV_NOWARM"] = "1"

    def one(i):
        sid = "r%d" % i
        conf, mdir = work.mudlib(name="mudr_" + sid)
        ops, D, base, reload, files = ops_of(shapes[i], sid)
        pre = ops[:2]
        dz = ["hostwrite %s/Z.c %s" % (D, decoy(files).encode().hex()), "call %sZ zs" % base]
        segs = [ops + image_ops(D, base, reload, 1), pre + dz + image_ops(D, base, reload, 2)]
        ims = []
        for k, seg in enumerate(segs):
            sp = work.path("eqseg", "%s_%d.txt" % (sid, k))
            op = work.path("eqseg", "%s_%d.ndjson" % (sid, k))
            with open(sp, "w") as fh:
                fh.write("reset %s\n" % sid)
                for o in seg:
                    fh.write(o + "\n")
            subprocess.run(["timeout", "120", exe, conf, sp, op, "30"], env=env, stdout=subprocess.DEVNULL, stderr=subprocess.PIPE, cwd=work.dir)
            events, end = [], None
            for ln in open(op, errors="replace"):
                try:
                    ev = json.loads(ln)
                except ValueError:
                    continue
                if ev.get("e") == "End":
                    end = ev
                elif ev.get("e") != "Reset":
                    events.append(ev)
            if end is None or end.get("sig") or end.get("exit") not in (0,) or end.get("asan"):
                e = end or {}
                verdict.add({"kind": "driver-died", "sig": e.get("sig"), "asan": [r.get("kind") for r in e.get("asan", [])][:2]},
                            [json.dumps(shapes[i])], "driver failure while %s a binary in a fresh process" % ("saving" if k == 0 else "loading"), raw=e.get("raw", ""))
            ims += images(events, D)
        shutil.rmtree(mdir, ignore_errors=True)
        return ims

    with ThreadPoolExecutor(12) as tp:
        res = list(tp.map(one, range(len(shapes))))
    projs = [[{"e": "Reset", "id": "r%d" % i}] + [{k: im[k] for k in ("e", "how", "dump", "results", "reports")} for im in ims] for i, ims in enumerate(res)]
    return projs, res
