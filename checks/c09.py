#!/usr/bin/env python3
"""C09 — no event history or failing task takes the driver down.
P2: BackendGen enumerates short histories of external events (tick before any connection, connect,
    partial input, EOF/hang-up/reset, reconnect, console) with an error injected into each kind of
    task, in network and console mode, with a working / failing / silent master error_handler.
P3: every trace of the real backend() is validated against Backend (alive, every error reported,
    only the failing object's heart beat off) and, for the network users, against CmdTurn (C12)."""
import os, sys, json, time, random
sys.path.insert(0, os.path.join(os.path.dirname(os.path.abspath(__file__)), "..", "tools"))
sys.path.insert(0, os.path.dirname(os.path.abspath(__file__)))
import vlib, build
import c12
import c10

PROP = "C09"
SPEC = os.path.join(vlib.VERIF, "spec", "backend")
SPEC12 = os.path.join(vlib.VERIF, "spec", "cmdturn")
SPEC10 = os.path.join(vlib.VERIF, "spec", "callout")
TTYPE = b"\xff\xfa\x18\x00vt\xff\xf0"


def hx(s):
    return (s if isinstance(s, bytes) else s.encode()).hex()


class Builder:
    def __init__(self, setup):
        self.console = setup["mode"] == "console"
        self.ops = []
        if self.console:
            self.ops.append("consolemode 1")
        if setup["eh"] == "failing":
            self.ops.append("call master set_policy eh_error #1")
        elif setup["eh"] == "silent":
            self.ops.append("call master set_policy eh_silent #1")
        self.ops += ["proj hb", "proj callouts", "backend"]
        self.conn = set()
        self.objs = set()
        self.kid = 0
        self.extra = 0
        if self.console:
            self.ops += ["console " + hx("name c\n"), "cycle"]

    def cyc(self, n=1):
        self.ops += ["cycle"] * n

    def user(self, u):
        if u not in self.conn:
            self.ops += ["connect " + u, "cycle", "line %s name %s" % (u, u), "cycle"]
            self.conn.add(u)

    def cmd(self, text, u=None):
        """a command by the commanding user (console user in console mode)"""
        if self.console and u is None:
            self.ops += ["console " + hx(text + "\n"), "cycle"]
        else:
            u = u or "u1"
            self.user(u)
            self.ops += ["line %s %s" % (u, text), "cycle"]

    def obj(self, o):
        if o not in self.objs:
            self.cmd("do me mk:%s:/obj/sc" % o)
            self.objs.add(o)

    def step(self, a):
        o = self.ops
        if a == "tick":
            o += ["tick 2", "cycle"]
        elif a == "tick40":
            o += ["tick 40", "cycle"]
        elif a in ("conn1", "conn2", "recon1"):
            self.user("u" + a[-1])
        elif a in ("cmd1", "cmd2"):
            self.cmd("x hello", "u" + a[-1])
        elif a in ("err1", "err2"):
            self.cmd("do me err", "u" + a[-1])
        elif a == "partial1":
            self.user("u1"); o += ["input u1 " + hx("x par"), "cycle", "tick 2", "cycle", "input u1 " + hx("tial\r\n"), "cycle"]
        elif a in ("eof1", "hangup1", "rst2"):
            u = "u" + a[-1]
            if u in self.conn:
                o += ["%s %s" % (a[:-1], u), "cycle"]; self.conn.discard(u)
        elif a == "hberr":
            self.obj("o1"); self.cmd("do me oset=o1=hb=err;hb:o1:1"); o += ["tick 2", "cycle"]
        elif a == "hb_ok":
            self.obj("o2"); self.cmd("do me hb:o2:1"); o += ["tick 2", "cycle"]
        elif a == "coerr":
            self.obj("o1"); self.kid += 1
            self.cmd("do o1 set=k%d=err;co:A:1:k%d" % (self.kid, self.kid)); o += ["tick 2", "cycle"]
        elif a in ("copair", "copair2"):
            # two call_outs due in the same second, one of them fails: the other one must still fire
            self.obj("o1"); self.obj("o2"); self.kid += 2
            good = "do o2 co:A:1:k%d" % (self.kid - 1)
            bad = "do o1 set=k%d=err;co:A:1:k%d" % (self.kid, self.kid)
            for c in ((good, bad) if a == "copair" else (bad, good)):
                self.cmd(c)
            o += ["tick 2", "cycle"]
        elif a == "co_ok":
            self.obj("o2"); self.kid += 1
            self.cmd("do o2 co:A:2:k%d" % self.kid)
        elif a == "pi_err1":
            self.user("u1"); self.cmd("do me pol:process_input_error:u1"); self.cmd("x afterwards", "u1")
        elif a == "inputto_err1":
            self.user("u1"); self.cmd("do me set=inputto=err;inputto", "u1"); self.cmd("typed text", "u1")
        elif a == "dest_self1":
            if "u1" in self.conn:
                self.cmd("do me dest:me", "u1"); self.conn.discard("u1")
        elif a == "quit1":
            if "u1" in self.conn:
                self.cmd("do me quit", "u1"); self.conn.discard("u1")
        elif a == "netdead_err":
            self.user("u2"); self.cmd("do me pol:netdead_error:1"); o += ["hangup u2", "cycle"]; self.conn.discard("u2")
        elif a == "logon_err":
            self.extra += 1
            self.cmd("do me pol:logon_error:1"); o += ["connect u%d" % (2 + self.extra), "cycle", "cycle"]
        elif a == "connect_err":
            self.extra += 1
            self.cmd("do me pol:connect_error:1"); o += ["connect u%d" % (2 + self.extra), "cycle", "cycle"]
        elif a == "ttype_err1":
            self.user("u1"); self.cmd("do me pol:ttype_error:1"); o += ["input u1 " + hx(TTYPE), "cycle"]
        elif a == "reset_err":
            self.obj("o1"); self.cmd("do me oset=o1=reset=err;sreset:o1:5"); o += ["tick 1000", "cycle"]
        elif a == "cleanup_err":
            self.obj("o1"); self.cmd("do me oset=o1=cleanup=err"); o += ["tick 1000", "cycle", "tick 1000", "cycle"]
        elif a == "console_cmd":
            if self.console:
                o += ["console " + hx("x from console\n"), "cycle"]
        elif a == "console_err":
            if self.console:
                o += ["console " + hx("do me err\n"), "cycle"]
        elif a == "console_eof":
            if self.console:
                o += ["console " + hx("do me quit\n"), "cycle", "console " + hx("\n"), "cycle", "console " + hx("name c\n"), "cycle"]

    def finish(self):
        self.ops += ["tick 2", "cycle", "cycle", "cycle"]
        return self.ops


def script_of(hist):
    b = Builder(hist[0])
    for s in hist[1:]:
        b.step(s["a"])
    return b.finish()


def project_backend(ex):
    out = [{"e": "Reset", "id": ex["id"]}]
    names = {}
    for ev in ex["events"]:
        e = ev.get("e")
        if e == "Mk":
            names[ev["fname"].lstrip("/")] = ev["ob"]
            out.append({"e": "Touch", "ob": ev["ob"]})
        elif e == "Raise":
            out.append({"e": "Raise", "task": "hb" if ev.get("ctx") == "hb" else str(ev.get("ctx")), "ob": ev.get("ob", "?")})
        elif e == "Reported":
            if not ev.get("caught"):
                out.append({"e": "Reported"})
        elif e == "Log":
            t = ev.get("t", "")
            if "error in mudlib error handler" in t or "***** " in t or "injected fault" in t or "scenario error" in t:
                out.append({"e": "Logged"})
        elif e == "SetHB":
            out.append({"e": "Touch", "ob": ev["ob"] if ev["ob"] != "me" else ev["by"]})
        elif e == "Dest" and ev.get("live"):
            out.append({"e": "Touch", "ob": ev["ob"] if ev["ob"] != "me" else ev["by"]})
        elif e == "HBList":
            out.append({"e": "Poll", "hb": sorted(names.get(o, o) for o, n in ev["l"])})
    end = ex["end"] or {}
    ok = end.get("exit") == 0 and not end.get("sig") and not end.get("asan")
    out.append({"e": "End", "ok": bool(ok)})
    return out


def project_cmdturn(ex):
    # the C12 projection, with console traffic removed, telnet sub-negotiations stripped and every
    # injected error treated as "the cycle may have been cut short"
    evs = []
    for ev in ex["events"]:
        ev = dict(ev)
        if ev.get("e") == "Read" and "hex" in ev:
            ev["hex"] = bytes.fromhex(ev["hex"]).replace(TTYPE, b"").hex()
        if ev.get("e") == "Raise":
            ev["ctx"] = "top"
        if ev.get("e") == "Cmd" and ev.get("u") == "c":
            continue
        if ev.get("e") == "Cmd" and ev.get("u") == "?" and bytes.fromhex(ev["hex"]).startswith(b"name c"):
            continue
        evs.append(ev)
    return c12.project(dict(ex, events=evs))


def run(tier, work):
    t0 = time.time()
    exe = build.ensure_harness("vdrv", ["vdrv.cpp"])
    verdict = vlib.Verdict(PROP)
    hists, gs = vlib.generate(SPEC, "BackendGen", "GenQuick.cfg" if tier == "quick" else "GenThorough.cfg", work, "p2a")
    nsim = 1500 if tier == "quick" else 30000
    sims, _ = vlib.generate(SPEC, "BackendGen", "GenSim.cfg", work, "p2b", workers=4, simulate="num=%d" % nsim,
                            extra=["-depth", "10", "-seed", str(vlib.SEED)], timeout=900)
    allh = hists + sims
    print("GEN %d behaviours (exhaustive, %d states) + %d simulated (seed %d)" % (len(hists), gs["states"], len(sims), vlib.SEED))
    conf, _ = work.mudlib()
    scen = [(str(i), script_of(h)) for i, h in enumerate(allh)]
    t1 = time.time()
    exs = vlib.run_vdrv(exe, conf, scen, work, tag="run")
    print("RUN %d scenarios in %.1fs" % (len(exs), time.time() - t1))
    ncrash = 0
    for ex, sigs, raw in vlib.confirmed_crashes(exe, conf, scen, exs, work):
        for sig in sigs:
            ncrash += 1
            verdict.add(sig, [json.dumps(allh[int(ex["id"])])] + scen[int(ex["id"])][1], "driver failure: " + json.dumps(allh[int(ex["id"])])[:300], raw=raw)
    projs = [project_backend(ex) for ex in exs]
    accepted, nevents, rejects = vlib.validate_executions(SPEC, "BackendTrace", "BackendTrace.cfg", projs, work, tag="p3b")
    for badi, upto in rejects:
        bad = projs[badi][upto] if upto < len(projs[badi]) else {"e": "?"}
        if bad.get("e") == "End":
            continue      # reported above as a driver failure with its own signature
        sig = {"kind": "rejected", "spec": "Backend", "event": bad.get("e")}
        verdict.add(sig, [json.dumps(allh[badi])] + [json.dumps(p) for p in projs[badi][:upto + 1]],
                    "first unexplainable event #%d: %s" % (upto + 1, json.dumps(bad)))
    print("TLC P3 BackendTrace: %d executions / %d events accepted" % (accepted, nevents))
    projs2 = [project_cmdturn(ex) for ex in exs if not vlib.crashed(ex)]
    idx2 = [i for i, ex in enumerate(exs) if not vlib.crashed(ex)]
    acc2, nev2, rej2 = vlib.validate_executions(SPEC12, "CmdTurnTrace", "CmdTurnTrace.cfg", projs2, work, tag="p3c")
    for bi, upto in rej2:
        bad = projs2[bi][upto] if upto < len(projs2[bi]) else {"e": "?"}
        sig = {"kind": "rejected", "spec": "CmdTurn", "event": bad.get("e")}
        verdict.add(sig, [json.dumps(allh[idx2[bi]])] + [json.dumps(p) for p in projs2[bi][:upto + 1]],
                    "first unexplainable event #%d: %s" % (upto + 1, json.dumps(bad)))
    print("TLC P3 CmdTurnTrace (same traces): %d executions / %d events accepted" % (acc2, nev2))
    # the timers: the same traces seen through the call_out specification (a failing call_out must not delay or lose the others)
    projs3 = [c10.project(ex) for ex in exs if not vlib.crashed(ex)]
    acc3, nev3, rej3 = vlib.validate_executions(SPEC10, "CallOutTrace", "CallOutTrace.cfg", projs3, work, tag="p3d")
    for bi, upto in rej3:
        bad = projs3[bi][upto] if upto < len(projs3[bi]) else {"e": "?"}
        sig = {"kind": "rejected", "spec": "CallOut", "event": bad.get("e")}
        verdict.add(sig, [json.dumps(allh[idx2[bi]])] + [json.dumps(p) for p in projs3[bi][:upto + 1]],
                    "first unexplainable event #%d: %s" % (upto + 1, json.dumps(bad)))
    print("TLC P3 CallOutTrace (same traces): %d executions / %d events accepted" % (acc3, nev3))
    # the other objects: the periodic reset / clean_up scan with failing, self-destructing and object-destructing hooks
    # (spec/lifecycle) - nobody who was due is left out of a scan because another object's hook failed
    import x_lifecycle
    nlife = x_lifecycle.run(tier, work, verdict=verdict)
    faults = {"err1", "err2", "hberr", "coerr", "copair", "copair2", "pi_err1", "inputto_err1", "netdead_err", "logon_err", "connect_err",
              "ttype_err1", "reset_err", "cleanup_err", "console_err"}
    nontrivial = len({json.dumps(h, sort_keys=True) for h in allh if any(s["a"] in faults for s in h[1:])})
    rc = verdict.finish()
    samples = [{"history": allh[7], "trace": projs[7][:14]}, {"history": allh[-1], "trace": projs[-1][:24]}]
    vlib.write_evidence(PROP, tier, "model_checking", dict(
        states=max(gs["states"], 1), transitions=max(gs["transitions"], 1), traces_validated_against_impl=accepted,
        samples=samples, evaluations=len(exs), distinct_nontrivial=nontrivial,
        rule="event/fault histories printed by TLC from BackendGen (BFS to the stated depth + -simulate); non-trivial = contains "
             "at least one injected task error; distinct by JSON text; states/transitions are those of the generator model",
        exhaustive=False, events_validated=nevents + nev2, driver_failures=ncrash, cmdturn_accepted=acc2),
        time.time() - t0, len(verdict.new), ["virtual time; scripted reactor, sockets and console queue"])
    return rc


if __name__ == "__main__":
    vlib.main_wrapper(PROP, run)
