#!/usr/bin/env python3
"""C08 — object names, inventories and destruction stay consistent.
P2: ObjWorldGen enumerates hook scripts (create / init / move_or_destruct) x top-level clone/move/destruct steps.
P3: traces of the real clone/move/destruct code (operations issued re-entrantly from hooks) validated
    against ObjWorld; after every command the driver's structures and LPC's views must equal the spec state."""
import os, sys, json, time, random
sys.path.insert(0, os.path.join(os.path.dirname(os.path.abspath(__file__)), "..", "tools"))
import vlib, build

PROP = "C08"
SPEC = os.path.join(vlib.VERIF, "spec", "objworld")


def script_of(h):
    hk = h[0]
    ops = ["proj world", "backend", "connect u1", "cycle", "line u1 name u1", "cycle",
           "line u1 do me ld:b1:/obj/w1;ld:b2:/obj/w2;ld:b3:/obj/w3", "cycle"]     # blueprints are objects too
    setup = []
    if hk["create"] != "none":
        setup.append("whook:w2:create:" + hk["create"])
    if hk["init"] != "none":
        setup.append("whook:w2:init:" + hk["init"])
        setup.append("whook:w3:init:" + hk["init"])
    setup.append("whook:w2:mod:" + hk["mod"])
    setup.append("whook:w3:mod:" + hk["mod2"])
    ops += ["line u1 do me " + ";".join(setup), "cycle", "line u1 do me wnew:o1:/obj/w1;wview", "cycle"]
    n = 1
    for s in h[1:]:
        a = s["a"]
        if a.startswith("new"):
            n += 1
            op = "wnew:o%d:/obj/w%s" % (n, a[3:])
        elif a.startswith("li"):
            op = "wldi:" + a[2:]
        elif a.startswith("ld"):
            op = "wld:" + a[2:]
        elif a.startswith("mv"):
            op = "wmv:o%s:o%s" % (a[2], a[3])
        else:
            op = "wdest:o%s" % a[4:]
        ops += ["line u1 do me %s;wview" % op, "cycle"]
    ops += ["cycle"]
    return ops


def project(ex):
    out = [{"e": "Reset", "id": ex["id"]}]
    f2n = {}           # file name -> short name
    cstack = []        # names of clone operations in progress
    last_view = None

    def nm(x):
        if x in ("0", 0, None):
            return "0"
        x = str(x)
        return f2n.get(x.lstrip("/"), f2n.get(x, x))

    for ev in ex["events"]:
        e = ev.get("e")
        if e == "CreateTry":
            cstack.append([ev["name"], False])
            out.append({"e": "CreateTry"})
        elif e == "Created":
            fn = ev["ob"].lstrip("/")
            if fn == "obj/wbase":
                continue                         # the inherited program's own object: not part of the scenario
            if "#" not in fn:
                f2n[fn] = "b" + fn[-1]          # a blueprint (loaded in the set-up step)
            # belongs to the innermost clone that has not produced its object yet
            for c in reversed(cstack if "#" in fn else []):
                if not c[1]:
                    c[1] = True
                    f2n[ev["ob"].lstrip("/")] = c[0]
                    break
            out.append({"e": "Created", "ob": nm(ev["ob"])})
        elif e == "CreateRes":
            if cstack:
                cstack.pop()
            out.append({"e": "CreateRes"})
        elif e == "MoveTry":
            out.append({"e": "MoveTry", "ob": nm(ev["ob"]), "d": nm(ev["d"])})
        elif e == "MoveRes":
            out.append({"e": "MoveRes", "ob": nm(ev["ob"]), "ok": ev["ok"]})
        elif e == "DestTry":
            out.append({"e": "DestTry", "ob": nm(ev["ob"])})
        elif e == "DestRes":
            out.append({"e": "DestRes", "ob": nm(ev["ob"]), "ok": ev["ok"]})
        elif e in ("Hook", "HookEnd"):
            out.append({"e": e, "ob": nm(ev["ob"]), "k": ev["k"]})
        elif e == "Raise":
            out.append({"e": "Raise"})
        elif e == "Reported" and not ev.get("caught"):
            # an error that no catch could hold (too deep recursion / evaluation cost) reached the driver: every
            # operation in progress was abandoned without its LPC-level result being logged
            out.append({"e": "Raise"})
            # a clone in progress whose create() failed never reports CreateRes with an object
        elif e == "LoadInherit":
            out.append({"e": "LoadInherit", "got": ev["got"], "same": ev["same"], "copies": ev["copies"]})
        elif e == "LoadNamed":
            out.append({"e": "LoadNamed", "mode": ev["mode"], "got": ev["got"], "ran": ev["ran"], "found": ev["found"]})
        elif e == "View":
            last_view = ev
        elif e == "World" and last_view is not None:
            cAlive, cEnv, cInv, cFound = [], {}, {}, True
            for o in ev["l"]:
                if o["n"] == "obj/wbase":
                    continue
                n = nm(o["n"])
                if o["dead"]:
                    if o["found"]:
                        cFound = False
                    continue
                cAlive.append(n)
                cEnv[n] = nm(o["env"])
                cInv[n] = [nm(x) for x in o["inv"]]
                if len(set(cInv[n])) != len(cInv[n]):
                    cFound = False     # an object twice in one inventory
                if not o["found"]:
                    cFound = False
            for o in ev["dlist"]:
                if o["found"] or o["env"] or o["inv"]:
                    cFound = False
            lAlive, lEnv, lInv, lFound = [], {}, {}, True
            for n, alive, envn, inv, found in last_view["l"]:
                if not (n.startswith("o") or n.startswith("a") or n in ("b1", "b2", "b3")):
                    continue
                if alive:
                    lAlive.append(n)
                    lEnv[n] = nm(envn)
                    lInv[n] = [nm(x) for x in inv]
                    if not found:
                        lFound = False
            out.append({"e": "Snapshot", "cAlive": sorted(cAlive), "cEnv": cEnv, "cInv": cInv, "cFoundOk": cFound,
                        "lAlive": sorted(lAlive), "lEnv": lEnv, "lInv": lInv, "lFoundOk": lFound})
            last_view = None
    return out


def run(tier, work):
    t0 = time.time()
    exe = build.ensure_harness("vdrv", ["vdrv.cpp"])
    verdict = vlib.Verdict(PROP)
    hists, gs = vlib.generate(SPEC, "ObjWorldGen", "GenQuick.cfg" if tier == "quick" else "GenThorough.cfg", work, "p2a", timeout=3000)
    rnd = random.Random(vlib.SEED)
    hists.sort(key=lambda h: json.dumps(h, sort_keys=True))
    if tier == "quick" and len(hists) > 4000:
        rnd.shuffle(hists)
        hists = hists[:4000]
    nsim = 1500 if tier == "quick" else 40000
    sims, _ = vlib.generate(SPEC, "ObjWorldGen", "GenSim.cfg", work, "p2b", workers=4, simulate="num=%d" % nsim,
                            extra=["-depth", "12", "-seed", str(vlib.SEED)], timeout=900)
    sims.sort(key=lambda h: json.dumps(h, sort_keys=True))
    rnd.shuffle(sims)
    sims = sims[:nsim]
    allh = hists + sims
    print("GEN %d behaviours (exhaustive, %d states) + %d simulated (seed %d)" % (len(hists), gs["states"], len(sims), vlib.SEED))
    conf, _ = work.mudlib()
    scen = [(str(i), script_of(h)) for i, h in enumerate(allh)]
    t1 = time.time()
    # every other scenario runs with a two-bucket object name table: all names collide, so the hash chains are as long
    # as the population ("small and large object populations" relative to the table)
    conf2, _ = work.mudlib(name="mudlib2", conf_extra="ObjectHashSize 2")
    confs = [conf, conf2]
    exs = []
    for par in (0, 1):
        exs += vlib.run_vdrv(exe, confs[par], [sc for j, sc in enumerate(scen) if j % 2 == par], work, tag="run%d" % par)
    exs.sort(key=lambda ex: int(ex["id"]))
    print("RUN %d scenarios in %.1fs (half of them with ObjectHashSize 2)" % (len(exs), time.time() - t1))
    ncrash = 0
    crashes = []
    for par in (0, 1):
        crashes += list(vlib.confirmed_crashes(exe, confs[par], [sc for j, sc in enumerate(scen) if j % 2 == par],
                                               [ex for ex in exs if int(ex["id"]) % 2 == par], work))
    for ex, sigs, raw in crashes:
        for sig in sigs:
            ncrash += 1
            verdict.add(sig, [json.dumps(allh[int(ex["id"])])] + scen[int(ex["id"])][1], "driver failure: " + json.dumps(allh[int(ex["id"])])[:300], raw=raw)
    projs = [project(ex) for ex in exs]
    accepted, nevents, rejects = vlib.validate_executions(SPEC, "ObjWorldTrace", "ObjWorldTrace.cfg", projs, work)
    for badi, upto in rejects:
        bad = projs[badi][upto] if upto < len(projs[badi]) else {"e": "?"}
        sig = {"kind": "rejected", "event": bad.get("e")}
        verdict.add(sig, [json.dumps(allh[badi])] + [json.dumps(p) for p in projs[badi][:upto + 1]],
                    "first unexplainable event #%d: %s" % (upto + 1, json.dumps(bad)[:400]))
    print("TLC P3 ObjWorldTrace: %d executions / %d events accepted" % (accepted, nevents))
    nontrivial = len({json.dumps(h, sort_keys=True) for h in allh
                      if (h[0]["create"] != "none" or h[0]["init"] != "none" or h[0]["mod"] != "stay") and any(s["a"].startswith("dest") for s in h[1:])})
    rc = verdict.finish()
    samples = [{"history": allh[0], "trace": projs[0][:14]}, {"history": allh[-1], "trace": projs[-1][:24]}]
    vlib.write_evidence(PROP, tier, "model_checking", dict(
        states=max(1, gs["states"]), transitions=max(1, gs["transitions"]), traces_validated_against_impl=accepted,
        samples=samples, evaluations=len(exs), distinct_nontrivial=nontrivial,
        rule="hook scripts x clone/move/destruct steps printed by TLC from ObjWorldGen (BFS + -simulate); non-trivial = some hook performs an "
             "operation and the history destructs something; distinct by JSON text; states/transitions are those of the generator model",
        exhaustive=False, events_validated=nevents, driver_failures=ncrash),
        time.time() - t0, len(verdict.new), ["snapshots compare spec state, driver structures (super/contains/name table) and LPC views"])
    return rc


if __name__ == "__main__":
    vlib.main_wrapper(PROP, run)
