#!/usr/bin/env python3
"""C07 — calls reach the right function and respect visibility, whatever came before.
P1: on every enumerated family the reference (Dispatch.Res / Outcome) never lets a hidden function be the
    outcome of a call_other and always lets driver-origin calls reach the resolved definition.
P2: DispatchGen enumerates inheritance families x call histories (origins call_other / driver apply /
    efun callback / call_out, including refused calls on a cold cache followed by driver calls).
P3: the generated LPC families run in the real driver; every trace is validated against Dispatch, whose
    outcome is a function of (family, call) only."""
import os, sys, json, time, random
sys.path.insert(0, os.path.join(os.path.dirname(os.path.abspath(__file__)), "..", "tools"))
import vlib, build

PROP = "C07"
SPEC = os.path.join(vlib.VERIF, "spec", "dispatch")
ORIG = {"co": "call_other", "drv": "driver", "efun": "efun", "cout": "call_out"}


def defines(fam, i, n):
    """program i (1-based) defines or inherits a function n"""
    p = fam[i - 1]
    return any(f["name"] == n for f in p["funcs"]) or any(defines(fam, inh["p"], n) for inh in p["inh"])


def supers(fam):
    """(program, name) pairs for which '::name()' written in that program compiles: some inherit has the name"""
    reach, todo = set(), [len(fam)]
    while todo:                       # only programs that are part of the object
        i = todo.pop()
        if i not in reach:
            reach.add(i)
            todo += [inh["p"] for inh in fam[i - 1]["inh"]]
    return [(i, n) for i, p in enumerate(fam, 1) for n in ("f", "g") if i in reach and any(defines(fam, inh["p"], n) for inh in p["inh"])]


def write_family(root, fid, fam):
    d = os.path.join(root, "fam", str(fid))
    os.makedirs(d, exist_ok=True)
    for i, p in enumerate(fam, 1):
        src = []
        for inh in p["inh"]:
            src.append('%sinherit "/fam/%s/p%d";' % ((inh["mod"] + " ") if inh["mod"] else "", fid, inh["p"]))
        src.append("int v_p%d = %d;" % (i, i))
        for fn in p["funcs"]:
            src.append('%smixed %s(mixed a) { vlog("\\"e\\":\\"Ran\\",\\"p\\":%d,\\"vp\\":" + v_p%d); return %d; }'
                       % ((fn["mod"] + " ") if fn["mod"] else "", fn["name"], i, i, i))
        for (pi, n) in supers(fam):
            if pi == i:     # reached by a driver-origin apply, whatever the inherit modifiers
                src.append('mixed sup_%s_p%d(mixed a) { return ::%s(1); }' % (n, i, n))
        if i == len(fam):
            src.append("void create() { seteuid(getuid()); }")
            # function names as literals: compiled programs hold them as shared strings, as ordinary LPC code does
            src.append('void sched_f() { vlog("\\"e\\":\\"Call\\",\\"origin\\":\\"call_out\\",\\"name\\":\\"f\\""); call_out("f", 1, 1); }')
            src.append('void sched_g() { vlog("\\"e\\":\\"Call\\",\\"origin\\":\\"call_out\\",\\"name\\":\\"g\\""); call_out("g", 1, 1); }')
        open(os.path.join(d, "p%d.c" % i), "w").write("\n".join(src) + "\n")
    cal = ['#include "/sc.h"', "void create() { seteuid(getuid()); }"]
    for n in ("f", "g"):
        cal.append('void co_%s(object t) { mixed e; vlog("\\"e\\":\\"Call\\",\\"origin\\":\\"call_other\\",\\"name\\":\\"%s\\""); e = catch(t->%s(1)); vlog("\\"e\\":\\"CallDone\\""); }' % (n, n, n))
        cal.append('void coa_%s(object t) { mixed e; vlog("\\"e\\":\\"Call\\",\\"origin\\":\\"call_other\\",\\"name\\":\\"%s\\""); e = catch(({ this_object(), t })->%s(1)); vlog("\\"e\\":\\"CallDone\\""); }' % (n, n, n))
        cal.append('void efun_%s(object t) { mixed e; vlog("\\"e\\":\\"Call\\",\\"origin\\":\\"efun\\",\\"name\\":\\"%s\\""); e = catch(map_array(({ 1 }), "%s", t)); vlog("\\"e\\":\\"CallDone\\""); }' % (n, n, n))
    open(os.path.join(d, "caller.c"), "w").write("\n".join(cal) + "\n")


def script_of(fid, h):
    ops = ["backend", "connect u1", "cycle", "line u1 name u1", "cycle",
           "line u1 do me mk:t:/fam/%s/p%d;mk:cal:/fam/%s/caller" % (fid, len(h["family"]), fid), "cycle"]
    for c in h["calls"]:
        o, n = c.split("_")
        if o == "co":
            ops += ["line u1 do me xcall:cal:co_%s:t" % n, "cycle"]
        elif o == "coa":      # call_other on an ARRAY of objects, the object under test not being the first element
            ops += ["line u1 do me xcall:cal:coa_%s:t" % n, "cycle"]
        elif o == "efun":
            ops += ["line u1 do me xcall:cal:efun_%s:t" % n, "cycle"]
        elif o == "drv":
            ops += ["callreg t %s" % n, "cycle"]
        elif o == "cout":
            ops += ["line u1 do me xcall:t:sched_%s" % n, "cycle", "tick 2", "cycle", "cycle"]
    for (pi, n) in supers(h["family"]):     # every '::' call of the family, once before and once after the history's calls is enough: after
        ops += ["callreg t sup_%s_p%d" % (n, pi), "cycle"]
    ops += ["cycle"]
    return ops


def project(ex, h):
    out = [{"e": "Reset", "id": ex["id"], "family": h["family"]}]
    made = False
    waiting_cout = False
    ticked = False
    for ev in ex["events"]:
        e = ev.get("e")
        if e == "Mk" and ev.get("ob") == "t":
            made = True
        elif e == "Call" and ev["name"].startswith("sup_"):
            _, n, pp = ev["name"].split("_")
            out.append({"e": "Super", "from": int(pp[1:]), "name": n})
        elif e == "Call":
            out.append({"e": "Call", "origin": ev["origin"], "name": ev["name"]})
            if ev["origin"] == "call_out":
                waiting_cout = True
                ticked = False
        elif e == "Ran":
            out.append({"e": "Ran", "p": ev["p"], "vp": ev["vp"]})
        elif e == "CallDone":
            out.append({"e": "Done"})
        elif e == "TickBegin" and waiting_cout:
            ticked = True
        elif e == "Wait" and waiting_cout and ticked:
            out.append({"e": "Done"})
            waiting_cout = False
    return out if made else None


def run(tier, work):
    t0 = time.time()
    exe = build.ensure_harness("vdrv", ["vdrv.cpp"])
    verdict = vlib.Verdict(PROP)
    hists, gs = vlib.generate(SPEC, "DispatchGen", "GenQuick.cfg" if tier == "quick" else "GenThorough.cfg", work, "p2a", timeout=3000)
    print("TLC P1 Dispatch (via DispatchGen): %d states, %d transitions, ok" % (gs["states"], gs["transitions"]))
    rnd = random.Random(vlib.SEED)
    hists.sort(key=lambda h: json.dumps(h, sort_keys=True))
    cap = 3000 if tier == "quick" else 40000
    if len(hists) > cap:
        rnd.shuffle(hists)
        hists = hists[:cap]
    nsim = 1000 if tier == "quick" else 20000
    sims, _ = vlib.generate(SPEC, "DispatchGen", "GenSim.cfg", work, "p2b", workers=4, simulate="num=%d" % nsim,
                            extra=["-depth", "9", "-seed", str(vlib.SEED)], timeout=900)
    sims.sort(key=lambda h: json.dumps(h, sort_keys=True))
    rnd.shuffle(sims)
    sims = sims[:nsim]
    allh = hists + sims
    print("GEN %d behaviours (enumerated) + %d simulated (seed %d)" % (len(hists), len(sims), vlib.SEED))
    conf, root = work.mudlib()
    fams = {}
    for i, h in enumerate(allh):
        key = json.dumps(h["family"], sort_keys=True)
        if key not in fams:
            fams[key] = len(fams)
            write_family(root, fams[key], h["family"])
        h["fid"] = fams[key]
    scen = [(str(i), script_of(h["fid"], h)) for i, h in enumerate(allh)]
    t1 = time.time()
    exs = vlib.run_vdrv(exe, conf, scen, work, tag="run")
    print("RUN %d scenarios (%d distinct families) in %.1fs" % (len(exs), len(fams), time.time() - t1))
    ncrash = 0
    for ex, sigs, raw in vlib.confirmed_crashes(exe, conf, scen, exs, work):
        for sig in sigs:
            ncrash += 1
            verdict.add(sig, [json.dumps(allh[int(ex["id"])])] + scen[int(ex["id"])][1], "driver failure in a dispatch scenario", raw=raw)
    projs, idx, nocompile = [], [], 0
    for ex in exs:
        p = project(ex, allh[int(ex["id"])])
        if p is None:
            nocompile += 1
            continue
        projs.append(p)
        idx.append(int(ex["id"]))
    if nocompile:
        print("NOTE %d scenarios whose family did not compile/clone (not judged)" % nocompile)
    accepted, nevents, rejects = vlib.validate_executions(SPEC, "DispatchTrace", "DispatchTrace.cfg", projs, work)
    for bi, upto in rejects:
        bad = projs[bi][upto] if upto < len(projs[bi]) else {"e": "?"}
        h = allh[idx[bi]]
        calls = h["calls"]
        sig = {"kind": "rejected", "event": bad.get("e")}
        # which call failed, and what preceded it
        ncall = sum(1 for p in projs[bi][:upto + 1] if p["e"] == "Call")
        if ncall:
            sig["call"] = calls[ncall - 1] if ncall - 1 < len(calls) else "?"
            sig["after_refused_call_other"] = any(c.startswith("co_") for c in calls[:ncall - 1])
        verdict.add(sig, [json.dumps(h)] + [json.dumps(p) for p in projs[bi][1:upto + 1]],
                    "first unexplainable event #%d: %s" % (upto + 1, json.dumps(bad)))
    print("TLC P3 DispatchTrace: %d executions / %d events accepted" % (accepted, nevents))
    nontrivial = len({json.dumps(h, sort_keys=True) for h in allh if any(p["inh"] for p in h["family"]) and len(set(h["calls"])) >= 2})
    rc = verdict.finish()
    samples = [{"history": {k: v for k, v in allh[5].items() if k != "fid"}, "trace": (projs[5][1:8] if len(projs) > 5 else [])}]
    vlib.write_evidence(PROP, tier, "model_checking", dict(
        states=gs["states"], transitions=gs["transitions"], traces_validated_against_impl=accepted,
        samples=samples, evaluations=len(exs), distinct_nontrivial=nontrivial,
        rule="inheritance families x call histories printed by TLC from DispatchGen (BFS + -simulate); non-trivial = the family uses "
             "inheritance and the history has two different calls; distinct by JSON text",
        exhaustive=False, events_validated=nevents, driver_failures=ncrash, families=len(fams), not_compiled=nocompile),
        time.time() - t0, len(verdict.new), ["reference semantics of inherit modifiers taken from docs/manual/lpc.md"])
    return rc


if __name__ == "__main__":
    vlib.main_wrapper(PROP, run)
