#!/usr/bin/env python3
"""C04 — every evaluation is bounded by the configured limits.
P1: EvalBudgetImpl (cost countdown, catch, sticky limit state) - ticks bounded, a catch never completes
    with a limit error, no stale limit state at driver level.
P2: EvalBudgetGen enumerates looping/recursing program shapes x catch nesting x handler continuation x
    MaxEvaluationCost, and the constructor x size grid (limit-1, limit, limit+1, 2*limit).
P3: generated LPC runs in the real driver; executed-instruction counts (H1), catch results, driver-level
    reports and the sizes of all constructed values are validated against EvalBudget."""
import os, sys, json, time, random
sys.path.insert(0, os.path.join(os.path.dirname(os.path.abspath(__file__)), "..", "tools"))
import vlib, build

PROP = "C04"
SPEC = os.path.join(vlib.VERIF, "spec", "evalbudget")
LIMS = dict(array=100, mapping=100, buffer=100, string=1000)
LIMITMSG = ("Too long evaluation", "Too deep recursion", "Stack overflow", "Can't catch")

LOOPS = {
    "while": "int body() { int n; while (1) n++; return n; }",
    "for": "int body() { int n; for (;;) n++; return n; }",
    "dowhile": "int body() { int n; do { n++; } while (1); return n; }",
    "whiledec": "int body() { int n; int x = 1 << 40; while (x--) n++; return n; }",
    "rec": "int rec(int d) { return rec(d + 1) + 1; }\nint body() { return rec(0); }",
    "mutual": "int mb(int d);\nint ma(int d) { return mb(d + 1) + 1; }\nint mb(int d) { return ma(d + 1) + 1; }\nint body() { return ma(0); }",
    "recfp": "int rfp(int d) { function f = (: rfp :); return evaluate(f, d + 1) + 1; }\nint body() { return rfp(0); }",
    "recfunc": "int rf2(int d) { return evaluate((: rf2($1) :), d + 1) + 1; }\nint body() { return rf2(0); }",
    "reccb": "mixed rcb(mixed x) { return map_array(({ 1 }), \"rcb\", this_object()); }\nint body() { rcb(1); return 1; }",
    "recother": "int rco(int d) { return this_object()->rco(d + 1) + 1; }\nint body() { return rco(0); }",
    "bigargs": "int many(mixed *x...) { return sizeof(x); }\nint body() { mixed *a = allocate(1500); return many(a...); }",
    "bigcallother": "int many(mixed *x...) { return sizeof(x); }\nint body() { return call_other(this_object(), ({ \"many\" }) + allocate(6000)); }",
    "bigbound": "int many(mixed *x...) { return sizeof(x); }\nint body() { mixed *a = allocate(6000); function f = (: many, a... :); return evaluate(f); }",
    "foreach": "int body() { int n; mixed x; foreach (x in allocate(90)) n++; return n; }",
}


def budget_src(it):
    src = ['#include "/sc.h"', "void create() { seteuid(getuid()); }", LOOPS[it["loop"]]]
    nest = it["nest"]
    # level0 = body; level k wraps level k-1 in a catch
    pad = it.get("pad", 0)
    for k in range(pad):
        src.append("mixed pad%d() { return %s(); }" % (k, "body" if k == 0 else "pad%d" % (k - 1)))
    src.append("mixed level0() { return %s(); }" % ("pad%d" % (pad - 1) if pad else "body"))
    for k in range(1, nest + 1):
        nxt = {"ret": "", "loop": "body();", "recurse": "level%d();" % k}[it["next"]]
        src.append('mixed level%d() { mixed e; int lim; e = catch(level%d()); '
                   'lim = stringp(e) && (strsrch(e, "Too long evaluation") != -1 || strsrch(e, "Too deep recursion") != -1 || strsrch(e, "Stack overflow") != -1 || strsrch(e, "Can\'t catch") != -1); '
                   'vlog("\\"e\\":\\"CatchYield\\",\\"caught\\":" + (e ? 1 : 0) + ",\\"limit\\":" + lim); %s return 0; }' % (k, k - 1, nxt))
    src.append('void go() { vlog("\\"e\\":\\"Begin\\""); level%d(); vlog("\\"e\\":\\"Completed\\""); }' % nest)
    return "\n".join(src) + "\n"


CTORS = {
    "allocate": "return allocate(n);",
    "arr_add": "return allocate(n / 2) + allocate(n - n / 2);",
    "arr_addeq": "a = allocate(n / 2); a += allocate(n - n / 2); return a;",
    "arr_addeq_self": "a = allocate((n + 1) / 2); a += a; return a;",
    "arr_add_self": "a = allocate((n + 1) / 2); return a + a;",
    "arr_doubling": "a = ({ 1 }); while (sizeof(a) < n) a += a; return a;",
    "str_addeq_self": "s = repeat_string(\"a\", (n + 1) / 2); s += s; return s;",
    "str_doubling": "s = \"a\"; while (strlen(s) < n) s += s; return s;",
    "map_addeq_self": "m = mk(n / 2); m += m; return m;",
    "buf_addeq_self": "v = allocate_buffer((n + 1) / 2); v += v; return v;",
    "explode": "return explode(repeat_string(\"x,\", n), \",\");",
    "keys": "return keys(mk(n));",
    "values": "return values(mk(n));",
    "map_array": "return map_array(allocate(n), (: $1 :));",
    "filter": "return filter_array(allocate(n), (: 1 :));",
    "sort": "return sort_array(allocate(n), 1);",
    "unique_array": "return unique_array(allocate(n), (: 1 :));",
    "arr_range_assign": "a = ({ 1, 2 }); a[0..0] = allocate(n); return a;",
    "allocate_mapping": "return allocate_mapping(n);",
    "map_add": "return mk2(0, n / 2) + mk2(n / 2, n - n / 2);",
    "map_addeq": "m = mk2(0, n / 2); m += mk2(n / 2, n - n / 2); return m;",
    "map_insert": "return mk(n);",
    "map_mapping": "return map_mapping(mk(n), (: $2 :));",
    "allocate_buffer": "return allocate_buffer(n);",
    "buf_add": "return allocate_buffer(n / 2) + allocate_buffer(n - n / 2);",
    "str_add": "return repeat_string(\"a\", n / 2) + repeat_string(\"b\", n - n / 2);",
    "str_addeq": "s = repeat_string(\"a\", n / 2); s += repeat_string(\"b\", n - n / 2); return s;",
    "str_intadd": "return repeat_string(\"a\", n - 5) + 12345;",
    "repeat_string": "return repeat_string(\"x\", n);",
    "sprintf_pad": "return sprintf(\"%*s\", n, \"x\");",
    "implode": "return implode(map_array(allocate(90), (: \"0123456789\" :)), repeat_string(\"-\", (n - 900) / 89 + 1));",
    "replace_string": "return replace_string(repeat_string(\"x\", n / 2), \"x\", \"xy\");",
    "upper": "return upper_case(repeat_string(\"x\", n));",
    "replace_skip": "return replace_string(repeat_string(\"ab-----\", n / 13 + 1), \"ab\", \"abcdefgh\");",
    "replace_skip2": "return replace_string(repeat_string(\"-----ab\", n / 13 + 1), \"ab\", \"abcdefgh\");",
    "unique_mapping": "a = allocate(n); for (v = 0; v < n; v++) a[v] = v; return unique_mapping(a, (: $1 :));",
    "str_range_assign": "s = repeat_string(\"a\", n / 2); s[0..0] = repeat_string(\"b\", n - n / 2 + 1); return s;",
    "str_range_assign_v": "s = repeat_string(\"a\", n / 2); v = (s[0..0] = repeat_string(\"b\", n - n / 2 + 1)); return s;",
    "str_range_insert": "s = repeat_string(\"a\", n - 3); s[2..1] = \"xyz\"; return s;",
    "explode_chars": "return explode(repeat_string(\"x\", n), \"\");",
    "filter_mapping": "return filter_mapping(mk(n), (: 1 :));",
}
KIND = {"arr_addeq_self": "array", "arr_add_self": "array", "arr_doubling": "array", "str_addeq_self": "string", "str_doubling": "string",
        "map_addeq_self": "mapping", "buf_addeq_self": "buffer", "allocate": "array", "arr_add": "array", "arr_addeq": "array", "explode": "array", "keys": "array", "values": "array",
        "map_array": "array", "filter": "array", "sort": "array", "unique_array": "array", "arr_range_assign": "array",
        "allocate_mapping": "mapping", "map_add": "mapping", "map_addeq": "mapping", "map_insert": "mapping", "map_mapping": "mapping",
        "allocate_buffer": "buffer", "buf_add": "buffer",
        "str_add": "string", "str_addeq": "string", "str_intadd": "string", "repeat_string": "string", "sprintf_pad": "string",
        "implode": "string", "replace_string": "string", "upper": "string", "replace_skip": "string", "replace_skip2": "string", "unique_mapping": "mapping", "str_range_assign": "string",
        "str_range_assign_v": "string", "str_range_insert": "string", "explode_chars": "array", "filter_mapping": "mapping"}


def sizes_src():
    src = ['#include "/sc.h"', "void create() { seteuid(getuid()); }",
           "mapping mk2(int from, int n) { mapping m = ([ ]); int i; for (i = 0; i < n; i++) m[from + i] = i; return m; }",
           "mapping mk(int n) { return mk2(0, n); }"]
    for k, body in CTORS.items():
        src.append("mixed c_%s(int n) { mixed *a; mapping m; string s; mixed v; %s }" % (k, body))
    src.append('''void build(string k, int n) {
  mixed v, e;
  string kind; int sz;
  vlog("\\"e\\":\\"Begin\\"");
  e = catch(v = call_other(this_object(), "c_" + k, n));
  if (e) { vlog("\\"e\\":\\"CtorError\\",\\"ctor\\":" + jq(k) + ",\\"n\\":" + n + ",\\"err\\":" + jq(replace_string(e, "\\n", ""))); return; }
  if (arrayp(v)) { kind = "array"; sz = sizeof(v); }
  else if (mapp(v)) { kind = "mapping"; sz = sizeof(v); }
  else if (bufferp(v)) { kind = "buffer"; sz = sizeof(v); }
  else if (stringp(v)) { kind = "string"; sz = strlen(v); }
  else { kind = "other"; sz = 0; }
  vlog("\\"e\\":\\"Built\\",\\"ctor\\":" + jq(k) + ",\\"n\\":" + n + ",\\"kind\\":" + jq(kind) + ",\\"size\\":" + sz);
}''')
    return "\n".join(src) + "\n"


def req_size(kind, tag):
    lim = LIMS[kind]
    return {"lim-1": lim - 1, "lim": lim, "lim+1": lim + 1, "2lim": 2 * lim}[tag]


def run(tier, work):
    t0 = time.time()
    exe = build.ensure_harness("vdrv", ["vdrv.cpp"])
    verdict = vlib.Verdict(PROP)
    mc = vlib.model_check(SPEC, "EvalBudgetImpl", "MCImplFixed.cfg", work, "p1", timeout=600)
    print("TLC P1 EvalBudgetImpl: %d states, %d transitions, %s" % (mc["states"], mc["transitions"], "ok" if mc["ok"] else "VIOLATED"))
    if not mc["ok"]:
        raise vlib.Broken("EvalBudgetImpl violates its invariants")
    items, gs = vlib.generate(SPEC, "EvalBudgetGen", "GenAll.cfg", work, "p2", timeout=600)
    items = [it for it in items if it["t"] == "budget" or it["ctor"] in CTORS]
    items.sort(key=lambda x: json.dumps(x, sort_keys=True))
    budget = [it for it in items if it["t"] == "budget" and not (it["nest"] == 0 and it["next"] != "ret")]
    sizes = [it for it in items if it["t"] == "size"]
    # ---- budget group (default limits, MaxEvaluationCost set per scenario)
    conf, root = work.mudlib(name="mudlib_b")
    os.makedirs(os.path.join(root, "c04"), exist_ok=True)
    scen_b = []
    for i, it in enumerate(budget):
        open(os.path.join(root, "c04", "b%d.c" % i), "w").write(budget_src(it))
        scen_b.append((str(i), ["setcfg MaxEvaluationCost %d" % it["cost"], "backend", "connect u1", "cycle", "line u1 name u1", "cycle",
                                "line u1 do me mk:b:/c04/b%d" % i, "cycle", "izero", "line u1 do me xcall:b:go", "cycle", "icount", "cycle"]))
    nb = len(budget)
    exs_b = vlib.run_vdrv(exe, conf, scen_b, work, tag="runb", timeout=30)
    # ---- size group (small limits in the configuration file)
    conf2, root2 = work.mudlib(name="mudlib_s", conf_extra="MaxArraySize %d\nMaxMappingSize %d\nMaxBufferSize %d\nMaxStringLength %d\n"
                               % (LIMS["array"], LIMS["mapping"], LIMS["buffer"], LIMS["string"]))
    os.makedirs(os.path.join(root2, "c04"), exist_ok=True)
    open(os.path.join(root2, "c04", "sizes.c"), "w").write(sizes_src())
    scen_s = []
    for j, it in enumerate(sizes):
        n = req_size(KIND[it["ctor"]], it["size"])
        scen_s.append(("s%d" % j, ["backend", "connect u1", "cycle", "line u1 name u1", "cycle", "line u1 do me mk:z:/c04/sizes", "cycle",
                                   "izero", "line u1 do me xcall2:z:build:%s:%d" % (it["ctor"], n), "cycle", "icount", "cycle"]))
    exs_s = vlib.run_vdrv(exe, conf2, scen_s, work, tag="runs", timeout=30)
    print("GEN %d budget shapes + %d constructor/size cases (%d generator states); RUN %d + %d scenarios" %
          (len(budget), len(sizes), gs["states"], len(exs_b), len(exs_s)))
    ncrash = 0
    for (exe_, conf_, scen_, exs_, its) in ((exe, conf, scen_b, exs_b, budget), (exe, conf2, scen_s, exs_s, sizes)):
        idx = {sid: k for k, (sid, _) in enumerate(scen_)}
        for ex, sigs, raw in vlib.confirmed_crashes(exe_, conf_, scen_, exs_, work):
            for sig in sigs:
                ncrash += 1
                verdict.add(sig, [json.dumps(its[idx[ex["id"]]])], "driver failure: " + json.dumps(its[idx[ex["id"]]]), raw=raw)

    def project(ex, it):
        me = it.get("cost", 1000000)
        out = [{"e": "Reset", "id": ex["id"], "maxeval": me, "la": LIMS["array"], "lm": LIMS["mapping"], "lb": LIMS["buffer"], "ls": LIMS["string"]}]
        ticks = None
        completed = False
        began = False
        for ev in ex["events"]:
            e = ev.get("e")
            if e == "Begin":
                out.append({"e": "Begin"}); began = True
            elif e == "CatchYield":
                out.append({"e": "CatchYield", "limit": bool(ev["limit"])})
            elif e == "Completed":
                completed = True
            elif e == "Reported" and not ev.get("caught") and any(m in ev.get("err", "") for m in LIMITMSG):
                out.append({"e": "LimitReported"})
            elif e == "Log" and any(m in ev.get("t", "") for m in LIMITMSG) and "\t*" in ev.get("t", ""):
                out.append({"e": "LimitReported"})
            elif e == "Built":
                out.append({"e": "Built", "kind": ev["kind"], "size": ev["size"]}) if ev["kind"] in LIMS else None
            elif e == "ICount":
                ticks = ev["n"]
        if began:
            out.append({"e": "Done", "ticks": ticks if ticks is not None else 10 ** 9, "completed": completed})
        return [o for o in out if o]

    projs = [project(ex, budget[int(ex["id"])]) for ex in exs_b] + [project(ex, sizes[int(ex["id"][1:])]) for ex in exs_s]
    metas = [budget[int(ex["id"])] for ex in exs_b] + [sizes[int(ex["id"][1:])] for ex in exs_s]
    notrun = sum(1 for p in projs if len(p) < 2)
    if notrun:
        print("NOTE %d generated programs did not run (compile error in the generated LPC?)" % notrun)
        if notrun > len(projs) // 20:
            errs = [ev.get("msg") for ex in exs_s + exs_b for ev in ex["events"] if ev.get("e") == "CompileErr"][:3]
            raise vlib.Broken("vacuous: %d of %d generated programs did not run: %s" % (notrun, len(projs), errs))
    accepted, nevents, rejects = vlib.validate_executions(SPEC, "EvalBudgetTrace", "EvalBudgetTrace.cfg", projs, work, max_rejects=12)
    for badi, upto in rejects:
        bad = projs[badi][upto] if upto < len(projs[badi]) else {"e": "?"}
        it = metas[badi]
        sig = {"kind": "rejected", "event": bad.get("e")}
        if it["t"] == "size":
            sig.update(ctor=it["ctor"], over=True)
        else:
            sig.update(loop=it["loop"], nested_catch=it["nest"] >= 2)
        verdict.add(sig, [json.dumps(it)] + [json.dumps(p) for p in projs[badi][:upto + 1]],
                    "%s: first unexplainable event #%d: %s" % (json.dumps(it), upto + 1, json.dumps(bad)))
    print("TLC P3 EvalBudgetTrace: %d executions / %d events accepted" % (accepted, nevents))
    # ---- the whole call surface of C01 (every efun x position x kind, operators, index / range forms) once more with
    # lowered limits: whatever an evaluation returns or leaves in its variables must respect them
    import c01
    nsurf = c01.run(tier, work, over_verdict=verdict)
    print("SURFACE (checks/c01.py enumeration, limits %s): %d evaluations returned values, all measured" % (json.dumps(c01.OVER_LIMITS), nsurf))
    if nsurf < 1000:
        raise vlib.Broken("the surface run returned only %d values" % nsurf)
    rc = verdict.finish()
    samples = [{"case": metas[0], "trace": projs[0][:8]}, {"case": metas[-1], "trace": projs[-1][:8]}]
    vlib.write_evidence(PROP, tier, "model_checking", dict(
        states=mc["states"] + gs["states"], transitions=mc["transitions"] + gs["transitions"], traces_validated_against_impl=accepted,
        samples=samples, evaluations=len(projs), distinct_nontrivial=len({json.dumps(m, sort_keys=True) for m in metas}),
        rule="loop/recursion kind x catch nesting x continuation x MaxEvaluationCost, and constructor x size around the limit, all printed by TLC from "
             "EvalBudgetGen (exhaustive over the listed sets); every case is non-trivial (it loops, recurses or builds a value at the limit); distinct by JSON text",
        exhaustive=True, events_validated=nevents, driver_failures=ncrash, not_run=notrun),
        time.time() - t0, len(verdict.new), ["H1 instruction counter; size limits set in the configuration file: %s" % json.dumps(LIMS)])
    return rc


if __name__ == "__main__":
    vlib.main_wrapper(PROP, run)
