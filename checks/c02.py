#!/usr/bin/env python3
"""C02 — compiling any source text is safe and leaves the compiler reusable.
P2: Compiler.tla enumerates damage recipes (seed program x kind of damage x position x argument: truncation, token
    deletion / duplication / replacement by 'nasty' tokens, preprocessor directives in the wrong place, deep nesting,
    maximal numbers of locals / arguments / strings / functions / globals, nested function literals, random bytes,
    text blocks, unterminated literals and comments) and, by simulation, sessions of several such compiles.
    tools apply each recipe token-wise to generated seed programs (the C17 feature generator).
P3: every session runs in the real driver under ASan/UBSan: each damaged text is compiled (load_object), then the fixed
    probe program is compiled and its image (canonical dump_prog listing + results of its probe calls) taken; TLC
    validates against Compiler: every compile terminated with a program or with >= 1 reported error (never both,
    never neither), and the probe image equals the image the probe has in a fresh driver."""
import os, sys, json, time, random, re, hashlib
sys.path.insert(0, os.path.join(os.path.dirname(os.path.abspath(__file__)), "..", "tools"))
import vlib, build
import c17eq

PROP = "C02"
SPEC = os.path.join(vlib.VERIF, "spec", "compiler")
ALLF = ["strswitch", "intswitch", "inherit", "include", "class", "funlit", "savetypes", "ginit", "varargs", "floats", "modifiers",
        "manyfuncs", "manystrings", "nestedswitch"]
SEED_SHAPES = {1: {"feats": ["strswitch", "class", "funlit", "ginit", "varargs"], "n": 4},
               2: {"feats": ["intswitch", "include", "floats", "modifiers", "nestedswitch"], "n": 3},
               3: {"feats": [f for f in ALLF if f != "savetypes"], "n": 5},
               4: {"feats": ALLF, "n": 9}}
PROBE_SHAPE = {"feats": [f for f in ALLF if f != "savetypes"], "n": 6}
TOK = re.compile(r'"(?:\\.|[^"\\\n])*"|\'(?:\\.|[^\'\\\n])\'|\d+\.\d+|\d+|[A-Za-z_]\w*|\.\.\.|\.\.|::|->|<<=|>>=|[-+*/%&|^<>=!]=|&&|\|\||\+\+|--|<<|>>|\(\{|\}\)|\(\[|\]\)|\(:|:\)|\S')
NASTY = ["{", "}", "(", ")", "({", "})", "([", "])", "(:", ":)", ";", ",", "::", "->", "...", "$1", "$(", "0x", "1e", "'", '"', "/*", "@TEXT",
         "#", "##", "\\", "case", "default", "inherit", "class", "function", "int", "private", "efun::", "catch", "sscanf(", "parse_command(",
         "time_expression", "foreach", "in", "ref", "new", "1..2", "<", "..", "999999999999999999999999", "0.0.0", "0x7fffffffffffffffffff",
         "'ab'", "'\\", "$99", "$0", "(::", "varargs", "mixed *", "break", "continue", "return", "while(", "switch(", "else", "?", ":"]
DIRECTIVES = ['#include "SELF"', '#include "nonexistent.h"', "#if 1", "#if", "#else", "#endif", "#define X X\nint dx = X;", "#define F(a) F(a) F(a)\nint df = F(1);",
              "#define LONG " + "x" * 3000 + "\nint LONG;", "#pragma strict_types", "#undef", "#echo x", "#line 99999999", "#include <", "#if 1/0", "#if (1",
              "#ifdef", "#elif 1", "#define A(x,y,z) x##y#z\nstring da = A(1,2,3);", "#define R1 R2\n#define R2 R1\nint dr = R1;", "#include \"/../../etc/passwd\"",
              "#define E(a) a a a a a a a a a a\n#define E2(a) E(E(E(E(a))))\nint de = E2(E2(1));", "#if defined(", "#ifndef\n#endif", "#pragma\n#pragma zzz", "#define\n#define 1",
              "#include __FILE__", "#if 0\n@@@@ ' \" /*\n#endif", "#if 0", "#define V(x...) x\nint dv = V(1);", "#include \"I.h\"\n#include \"I.h\"\n#include \"I.h\""]


def seed_source(k, base):
    files, reload = c17eq.gen(SEED_SHAPES[k], base)
    return files


def toks_of(src):
    """[(start, end)] spans of tokens outside preprocessor lines"""
    spans = []
    off = 0
    for ln in src.splitlines(True):
        if not ln.lstrip().startswith("#"):
            for m in TOK.finditer(ln):
                spans.append((off + m.start(), off + m.end()))
        off += len(ln)
    return spans


def at(spans, p, npos):
    if not spans:
        return 0
    return min(len(spans) - 1, (len(spans) - 1) * p // max(1, npos - 1))


def apply(recipe, src, npos, nargs):
    """-> damaged text (bytes)"""
    d, p, a = recipe["d"], recipe["p"], recipe["a"]
    spans = toks_of(src)
    i = at(spans, p, npos)
    s0, e0 = spans[i] if spans else (0, 0)
    line_start = src.rfind("\n", 0, s0) + 1
    b = src.encode()
    if d == "none":
        return b
    if d == "trunc":
        return src[:s0 + (a % 3)].encode()
    if d == "deltok":
        j = min(len(spans) - 1, i + a)
        return (src[:s0] + src[spans[j][1]:]).encode()
    if d == "duptok":
        return (src[:e0] + (" " + src[s0:e0]) * (1 + a * 3) + src[e0:]).encode()
    if d == "nasty":
        return (src[:s0] + " " + NASTY[(a + 8 * p) % len(NASTY)] + " " + src[e0:]).encode()
    if d == "directive":
        return (src[:line_start] + DIRECTIVES[(a + 8 * p) % len(DIRECTIVES)].replace("SELF", "F.c") + "\n" + src[line_start:]).encode()
    if d == "nest":
        depth = [10, 60, 300, 1500, 6000, 20000, 100, 1000][a % 8]
        opn, cls = [("(", ")"), ("({", "})"), ("([ 1:", "])"), ("(: ", " :)"), ("{", "}"), ("-", ""), ("!", ""), ("(1 ? ", " : 0)"), ("a[", "]"), ("f(", ")")][p % 10]
        expr = "mixed nest_f(mixed a, mixed f) { return " + opn * depth + "1" + cls * depth + "; }\n"
        if opn == "{":
            expr = "void nest_b() " + "{" * depth + " " + "}" * depth + "\n"
        return (src[:line_start] + expr + src[line_start:]).encode()
    if d == "many":
        n = [24, 25, 26, 50, 255, 256, 300, 1000][a % 8]
        kind = p % 10
        if kind == 0:
            t = "void many_l() { int " + ", ".join("l%d" % k for k in range(n)) + "; l0 = l%d; }\n" % (n - 1)
        elif kind == 1:
            t = "int many_a(" + ", ".join("int a%d" % k for k in range(n)) + ") { return a%d; }\n" % (n - 1)
        elif kind == 2:
            t = "mixed many_s() { return ({ " + ",\n".join('"ms_%d"' % k for k in range(n * 20)) + " }); }\n"
        elif kind == 3:
            t = "".join("int mf_%d() { return %d; }\n" % (k, k) for k in range(n * 4))
        elif kind == 4:
            t = "".join("int mg_%d = %d;\n" % (k, k) for k in range(n))
        elif kind == 5:
            t = "int " + "i" * (n * 4) + " = 1;\n"
        elif kind == 6:
            t = 'string ls = "' + "s" * (n * 40) + '";\n'
        elif kind == 7:
            t = "int ll = " + " + ".join(["1"] * (n * 3)) + ";\n"
        elif kind == 8:
            t = "void many_blk() {\n" + "".join("  { int b%d = %d; { int c%d; c%d = b%d; } }\n" % (k, k, k, k, k) for k in range(n)) + "}\n"
        else:
            t = "int many_sw(int x) { switch (x) {\n" + "".join("case %d: return %d;\n" % (k * 3, k) for k in range(n * 4)) + "} return 0; }\n"
        return (src[:line_start] + t + src[line_start:]).encode()
    if d == "funlit":
        depth = 1 + a % 4
        nloc = [3, 10, 20, 24][(a // 4) % 4] if p % 2 == 0 else [5, 23, 30, 60][(a // 4) % 4]
        decl = "int " + ", ".join("v%d" % k for k in range(nloc)) + ";"
        inner = "$1 + 1"
        for lvl in range(depth):
            inner = "map_array(({ 1, 2 }), (: %s :))" % inner
        t = "mixed fl_nest(int q) { %s v0 = q; return %s; }\n" % (decl, inner)
        # anonymous functions (function (args) { ... }) nested `depth` deep, each level with its own locals
        body = "return p%d;" % depth
        for lvl in range(depth, 0, -1):
            loc = "int " + ", ".join("w%d_%d" % (lvl, k) for k in range(nloc)) + ";"
            body = "%s w%d_0 = p%d; return function (int p%d) { %s };" % (loc, lvl, lvl - 1 if lvl > 1 else 0, lvl, body)
        t += "mixed fl_anon(int p0) { %s }\n" % body
        # the same with literals that use their own parameters at every level
        t += "mixed fl_nest2() { return " + "(: " * depth + "$1" + " :)" * depth + "; }\n"
        return (src[:line_start] + t + src[line_start:]).encode()
    if d == "bytes":
        rnd = random.Random(a * 131 + p * 7 + recipe["s"])
        k = [1, 2, 5, 20, 200, 2000, 1, 3][a % 8]
        junk = bytes(rnd.randrange(256) if a % 2 else rnd.choice(b"\x00\x01\x7f\x80\xff{}()[];\"'\\#@$\n\r\t ") for _ in range(k))
        cut = len(src[:s0].encode())
        return b[:cut] + junk + b[cut:]
    if d == "textblock":
        t = ["@TEXT\nline1\nline2\n", "@@ARR\nl1\nl2\n", "string tb = @END\nabc\nEND\n;\n", "string *ta = @@END\na\nb\nEND\n;\n", "@\n", "@@\n",
             "string tc = @" + "L" * 2000 + "\nx\n", "mixed td = ({ @E\nx\nE\n, @@E\ny\nE\n });\n"][a % 8]
        return (src[:line_start] + t + src[line_start:]).encode()
    if d == "anonend":
        # the text ENDS inside anonymous functions whose parameters / locals carry names the rest of the world uses:
        # efuns the probe calls and names of the probe's own globals and functions
        names = ["strlen", "map_array", "filter_array", "sort_array", "evaluate", "functionp", "sizeof", "allocate", "explode", "implode",
                 "member_array", "this_object", "sprintf", "g1", "fl_helper", "time", "living", "users", "write", "call_other"]
        k = 1 + a % 4
        rot = names[(a * 3 + p) % len(names):] + names[:(a * 3 + p) % len(names)]
        outer = ["", "int o1", "int o1, int o2, int o3"][p % 3]
        depth = 1 + (a // 4) % 3
        t = "mixed anon_end(%s) { int l1; " % outer
        for lvl in range(depth):
            ns = rot[lvl * k:lvl * k + k]
            if a % 2:
                t += "return function (%s) { int %s; " % (", ".join("int " + n for n in ns), "q%d" % lvl)
            else:
                t += "return function (int r%d) { int %s; " % (lvl, ", ".join(ns))
        t += ["return ", "", "if (", "l1 = (", "while (1) {"][a % 5]
        return (src[:line_start] + t).encode()
    if d == "unterminated":
        t = ['"never closed', "/* never closed", "'", "'a", '"esc\\', "(: 1", "({ 1, 2", "([ 1 :", '"nl in\nstring"', "// " + "c" * 5000, "/*/ x /*/", '"a" "b" "c' ][a % 12]
        return (src[:s0] + " " + t + " " + src[s0:]).encode()
    return b


def run(tier, work):
    t0 = time.time()
    verdict = vlib.Verdict(PROP)
    exe = build.ensure_harness("vdrv", ["vdrv.cpp"])
    cfg = "GenQuick.cfg" if tier == "quick" else "GenThorough.cfg"
    npos, nargs = (5, 8) if tier == "quick" else (10, 60)
    hists, gs = vlib.generate(SPEC, "Compiler", cfg, work, "p2a", timeout=3000)
    nsim = 400 if tier == "quick" else 6000
    sims, _ = vlib.generate(SPEC, "Compiler", "GenSim.cfg", work, "p2b", workers=4, simulate="num=%d" % nsim,
                            extra=["-depth", "8", "-seed", str(vlib.SEED)], timeout=900)
    rnd = random.Random(vlib.SEED)
    key = lambda h: json.dumps(h, sort_keys=True)
    hists.sort(key=key)
    sims = [h for h in sims if len(h) >= 2]
    sims.sort(key=key)
    rnd.shuffle(sims)
    sessions = [[]] + hists + sims[:nsim]          # session 0: the probe alone
    print("GEN %d single-compile sessions (every recipe) + %d simulated multi-compile sessions" % (len(hists), len(sessions) - 1 - len(hists)))
    conf, mdir = work.mudlib()
    scen = []
    texts = {}
    for i, h in enumerate(sessions):
        sid = "c%d" % i
        D = "c02/%s" % sid
        base = "/" + D + "/"
        ops = ["call /master set_clog #1", "call /obj/bn set_base " + base]
        # probe program (with its inherited program and include file)
        pfiles, preload = c17eq.gen(PROBE_SHAPE, base)
        for f, txt in sorted(pfiles.items()):
            ops.append("hostwrite %s/%s %s" % (D, f, txt.encode().hex()))
        for k, r in enumerate(h):
            # simulated sessions use the wider position / argument ranges of GenSim.cfg
            np_, na_ = (npos, nargs) if len(h) == 1 else (10, 60)
            sfiles = seed_source(r["s"], "/%s/k%d/" % (D, k))
            main = apply(r, sfiles["P.c"], np_, na_)
            texts[(i, k)] = main
            for f, txt in sorted(sfiles.items()):
                if f != "P.c":
                    ops.append("hostwrite %s/k%d/%s %s" % (D, k, f, txt.encode().hex()))
            ops.append("hostwrite %s/k%d/F.c %s" % (D, k, main.hex()))
            ops += ["note Compile %d" % k, "call /obj/bn comp /%s/k%d/F" % (D, k)]
        ops += ["note Probe", "call /obj/bn set_base " + base] + c17eq.image_ops(D, base, preload, 1)[:-1]
        scen.append((sid, ops))
    t1 = time.time()
    exs = vlib.run_vdrv(exe, conf, scen, work, tag="run", timeout=20)
    print("RUN %d sessions in %.1fs" % (len(exs), time.time() - t1))
    ncrash = 0
    crashed_ids = set()
    for ex, sigs, raw in vlib.confirmed_crashes(exe, conf, scen, exs, work):
        i = int(ex["id"][1:])
        crashed_ids.add(ex["id"])
        done = sum(1 for ev in ex["events"] if ev.get("e") == "CallRet" and ev.get("fn") == "comp")
        r = sessions[i][min(done, len(sessions[i]) - 1)] if sessions[i] else {}
        if any(s_.get("kind") == "SEGV" for s_ in sigs):        # ASan turns the signal into exit code 1: one failure, not two
            sigs = [s_ for s_ in sigs if s_.get("kind") != "exit"]
        for sig in sigs:
            ncrash += 1
            sig = dict(sig, damage=r.get("d"))
            sig["self_include"] = r.get("d") == "directive" and DIRECTIVES[(r["a"] + 8 * r["p"]) % len(DIRECTIVES)].startswith(('#include "SELF"', "#include __FILE__"))
            verdict.add(sig, [json.dumps(sessions[i]), "text of compile #%d (hex): %s" % (done, texts.get((i, min(done, len(sessions[i]) - 1)), b"").hex()[:6000])],
                        "the driver failed while compiling (recipe %s)" % json.dumps(r), raw=raw)
    # ---- projection
    ref = None
    projs = []
    stats = {"program": 0, "errors": 0}
    for ex in exs:
        i = int(ex["id"][1:])
        D = "c02/%s" % ex["id"]
        out = [{"e": "Reset", "id": ex["id"], "ref": None}]
        nerr = 0
        cur = None
        for ev in ex["events"]:
            e = ev.get("e")
            if e == "Note" and ev["t"].startswith("Compile"):
                cur = int(ev["t"].split()[1])
                nerr = 0
            elif e == "CompileErr" and cur is not None:
                if ": Warning: " not in ev.get("msg", ""):       # yywarn() also goes through log_error
                    nerr += 1
            elif e == "CallRet" and ev.get("fn") == "comp":
                v = ev.get("v") or ["none"]
                out.append({"e": "Compile", "k": cur, "finished": True, "outcome": v[0], "nerr": nerr, "recipe": sessions[i][cur]})
                stats[v[0]] = stats.get(v[0], 0) + 1
                cur = None
            elif e == "CallErr" and ev.get("fn") == "comp":
                out.append({"e": "Compile", "k": cur, "finished": True, "outcome": "uncaught", "nerr": nerr, "recipe": sessions[i][cur]})
                cur = None
        if cur is not None and ex["id"] not in crashed_ids and not vlib.crashed(ex):     # (a crash beyond the confirmation limit is not a second kind of failure)
            out.append({"e": "Compile", "k": cur, "finished": False, "outcome": "none", "nerr": nerr, "recipe": sessions[i][cur]})
        ims = c17eq.images(ex["events"], D, norm=D)
        if ims:
            im = ims[-1]
            img = im["dump"] + im["results"] + im["reports"]
            if i == 0:
                ref = img
                refim = im
            out.append({"e": "Probe", "image": img, "_im": im})
        elif ex["id"] not in crashed_ids and not vlib.crashed(ex):
            out.append({"e": "Probe", "image": "missing"})
        projs.append(out)
    if ref is None or "results_text" not in refim or refim.get("errs"):
        raise vlib.Broken("the probe program does not compile in a fresh driver")
    tprojs = []
    for out in projs:
        out[0]["ref"] = ref
        tprojs.append([{k: v for k, v in p.items() if k not in ("_im", "recipe")} for p in out])
    accepted, nevents, rejects = vlib.validate_executions(SPEC, "CompilerTrace", "CompilerTrace.cfg", tprojs, work, max_rejects=10)
    for badi, upto in rejects:
        b = projs[badi][upto] if upto < len(projs[badi]) else {"e": "?"}
        sig = {"kind": "rejected", "event": b.get("e")}
        what = json.dumps({k: v for k, v in b.items() if k != "_im"})[:300]
        lines = [json.dumps(sessions[badi])]
        if b.get("e") == "Compile":
            sig.update(outcome=b["outcome"], finished=b["finished"], zero_errors=b["nerr"] == 0, damage=b["recipe"]["d"])
            lines.append("text (hex): " + texts[(badi, b["k"])].hex()[:8000])
        elif b.get("e") == "Probe" and "_im" in b:
            w, where = c17eq.explain(refim, b["_im"])
            sig.update(what=w.replace("_text", ""), after=[r["d"] for r in sessions[badi]][-2:])
            what = "probe image differs after %s: %s" % (json.dumps(sessions[badi]), where)
        verdict.add(sig, lines, what)
    print("TLC P3 CompilerTrace: %d sessions / %d events accepted (%d compiles gave a program, %d gave errors)" % (accepted, nevents, stats.get("program", 0), stats.get("errors", 0)))
    if stats.get("errors", 0) < 20 or stats.get("program", 0) < 5:
        raise vlib.Broken("vacuity guard: the recipes do not produce both outcomes (%s)" % json.dumps(stats))
    rc = verdict.finish()
    vlib.write_evidence(PROP, tier, "model_checking", dict(
        states=gs["states"], transitions=gs["transitions"], traces_validated_against_impl=accepted, evaluations=sum(len(h) for h in sessions),
        distinct_nontrivial=len({texts[k] for k in texts}),
        samples=[{"session": sessions[1], "trace": tprojs[1]}, {"session": sessions[-1], "trace": tprojs[-1]}],
        rule="damage recipes (seed x damage x position x argument) printed by TLC from Compiler (all single recipes + simulated sessions of 2-4 compiles); "
             "distinct = distinct damaged source texts",
        exhaustive=False, events_validated=nevents, outcomes=stats, driver_failures=ncrash, damages=sorted({r["d"] for h in sessions for r in h})),
        time.time() - t0, len(verdict.new),
        ["texts are token-level / structural damages of generated programs plus random byte insertions - not all byte strings",
         "the compile-error count is what the master's log_error() receives; ASan/UBSan watch every compile",
         "reusability is judged by the image (canonical dump_prog listing + probe call results + error reports) of one fixed feature-rich probe program"])
    return rc


if __name__ == "__main__":
    vlib.main_wrapper(PROP, run)
