#!/usr/bin/env python3
"""C15 — file access is confined to the mudlib and always mediated by the master.
P1: FileGuardPaths - for EVERY string over {a . / #} up to length 8, Legal(p) (transcription of legal_path()
    after check_valid_path()'s single leading-slash strip) implies ~Escapes(p).
P2: the same model prints every path up to a shorter bound; x every file efun x master policy
    (allow / deny / rewrite to a legal path / rewrite to hostile paths), plus load/clone/call_other by name
    and #include / inherit of each path.
P3: the driver's file-system calls (libc interposed at link time) and the master's valid_read / valid_write
    log are validated against FileGuard: no call with an escaping path, every call inside an efun covered by
    an approval of the right kind given during that efun call."""
import os, sys, json, time, random
sys.path.insert(0, os.path.join(os.path.dirname(os.path.abspath(__file__)), "..", "tools"))
import vlib, build

PROP = "C15"
SPEC = os.path.join(vlib.VERIF, "spec", "fileguard")
EFUNS = ["read_file", "write_file", "rm", "mkdir", "rmdir", "rename_from", "rename_to", "cp_from", "cp_to", "link", "get_dir", "get_dir_l",
         "stat", "file_size", "read_bytes", "write_bytes", "read_buffer", "write_buffer", "tail", "file_length", "save_object",
         "restore_object", "dumpallobj", "load_object", "find_object", "call_other", "clone"]
POLICIES = {"allow": ("allow", ""), "deny": ("deny", ""), "rw_ok": ("/ok/rw", "/ok/rw"), "rw_dotdot": ("../x", "../x"),
            "rw_abs": ("//etc/passwd", "//etc/passwd"), "rw_deep": ("ok/../../x", "ok/../../x")}
MUT = {"open_w", "fopen_w", "unlink", "rename", "mkdir", "rmdir", "link", "symlink", "fprintf"}


def run(tier, work):
    t0 = time.time()
    exe = build.ensure_harness("vdrv", ["vdrv.cpp"])
    verdict = vlib.Verdict(PROP)
    mc = vlib.model_check(SPEC, "FileGuardPaths", "MCPaths.cfg", work, "p1", timeout=2000)
    print("TLC P1 FileGuardPaths: %d states (= strings), %d transitions, Legal => ~Escapes %s" % (mc["states"], mc["transitions"], "holds" if mc["ok"] else "VIOLATED"))
    if not mc["ok"]:
        verdict.add({"kind": "model", "what": "Legal does not imply ~Escapes"}, [mc["out"][-3000:]], "the transcription of legal_path() accepts an escaping path")
    paths, gs = vlib.generate(SPEC, "FileGuardPaths", "GenPaths.cfg", work, "p2", timeout=900)
    paths = ["".join(p["path"]) for p in paths]
    extra = ["../x", "a/../../x", "/etc/passwd", "//etc/passwd", "a/./b", ".a", "a/.b", "...", "a/.../b", "..a", "a..", "a/..b/c", "./a", "a/.", ".", "",
             "/", "//", "a//b", "/../x", "a/../", "ok/src", "ok/rw", "/ok/src", "x" * 300 + "/../y", "a/" * 60 + "../b"]
    rnd = random.Random(vlib.SEED)
    paths.sort()
    if tier == "quick":
        short = [p for p in paths if len(p) <= 3]
        longer = [p for p in paths if len(p) > 3]
        rnd.shuffle(longer)
        paths = short + longer[:120]
    paths += extra
    cases = [(ef, p, pol) for p in paths for ef in EFUNS for pol in POLICIES]
    if tier == "quick":
        rnd.shuffle(cases)
        cases = cases[:12000]
    conf, root = work.mudlib()
    os.makedirs(os.path.join(root, "ok"), exist_ok=True)
    for f in ("src", "src2", "rw"):
        open(os.path.join(root, "ok", f), "w").write("content\n")
    sentinel = os.path.join(os.path.dirname(root), "SENTINEL-x")
    open(sentinel, "w").write("must never be touched\n")
    open(os.path.join(os.path.dirname(root), "x"), "w").write("outside\n")
    # include / inherit of each path: one generated file per path
    os.makedirs(os.path.join(root, "inc"), exist_ok=True)
    incs = [p for p in paths if p and "\n" not in p and '"' not in p][:200 if tier == "quick" else 2000]
    for i, p in enumerate(incs):
        open(os.path.join(root, "inc", "i%d.c" % i), "w").write('#include "%s"\nint q() { return 1; }\n' % p)
        open(os.path.join(root, "inc", "h%d.c" % i), "w").write('inherit "%s";\nint q() { return 1; }\n' % p)
    # batches per policy
    B = 150
    scen, meta = [], []
    bypol = {}
    for c in cases:
        bypol.setdefault(c[2], []).append(c)
    for pol, cs in bypol.items():
        ans = POLICIES[pol][0]
        setpol = "pol:read:%s;pol:write:%s" % (ans, ans) if ans not in ("allow", "deny") else "pol:read:%s;pol:write:%s" % (ans, ans)
        for b in range(0, len(cs), B):
            ops = ["call master set_log #1", "backend", "connect u1", "cycle", "line u1 name u1", "cycle", "line u1 do me mk:fe:/obj/fe", "cycle",
                   "line u1 do me " + setpol, "cycle", "fslog 1"]
            for (ef, p, _) in cs[b:b + B]:
                ops += ["line u1 do me xcall3:fe:fe:%s:%s" % (ef, p.encode().hex() or "00"), "cycle"]
            scen.append(("%s-%d" % (pol, b), ops)); meta.append(pol)
    # editor sessions: ed(path), then the editor commands a user types - write without a name, file-name change and write,
    # write to another name, quit - under masters that answer differently for reading and writing
    edpaths = ["/ok/edf", "ok/edf", "/ok/../ok/edf", "/../x", "/ro/f"]
    for pol, setp in (("ro", "pol:read:allow;pol:write:deny"), ("allow", "pol:read:allow;pol:write:allow"), ("rw_ok", "pol:read:allow;pol:write:/ok/rw")):
        ops = ["call master set_log #1", "backend", "connect u1", "cycle", "line u1 name u1", "cycle", "line u1 do me mk:fe:/obj/fe", "cycle",
               "line u1 do me " + setp, "cycle", "fslog 1"]
        for p in edpaths:
            for cmds in (["w"], ["a", "text", ".", "w"], ["f /ok/other", "w"], ["w /ok/third"], ["a", "more", ".", "x"]):
                ops += ["line u1 do me xcall3:fe:fe:ed:%s" % p.encode().hex(), "cycle"]
                for c in cmds:
                    ops += ["line u1 " + c, "cycle"]
                ops += ["line u1 Q", "cycle", "line u1 do me xcall3:fe:fe:ed_end:00", "cycle"]
        scen.append(("ed-%s" % pol, ops)); meta.append(pol if pol in POLICIES else "allow")
    # include / inherit batch (policy allow)
    for b in range(0, len(incs), 60):
        ops = ["call master set_log #1", "backend", "connect u1", "cycle", "line u1 name u1", "cycle", "line u1 do me mk:fe:/obj/fe", "cycle", "fslog 1"]
        for i in range(b, min(b + 60, len(incs))):
            ops += ["line u1 do me xcall3:fe:fe:load_object:%s" % ("/inc/i%d" % i).encode().hex(), "cycle",
                    "line u1 do me xcall3:fe:fe:load_object:%s" % ("/inc/h%d" % i).encode().hex(), "cycle"]
        scen.append(("inc-%d" % b, ops)); meta.append("allow")
    t1 = time.time()
    exs = vlib.run_vdrv(exe, conf, scen, work, tag="run", timeout=60, jobs=1)     # one process: the batches share the scratch mudlib, so they run in a fixed order
    print("GEN %d paths x %d efuns x %d policies -> %d cases (+%d include/inherit files); RUN %d batches in %.1fs" %
          (len(paths), len(EFUNS), len(POLICIES), len(cases), 2 * len(incs), len(exs), time.time() - t1))
    ncrash = 0
    for ex, sigs, raw in vlib.confirmed_crashes(exe, conf, scen, exs, work):
        last = [ev for ev in ex["events"] if ev.get("e") == "EfunBegin"][-1:] or [{}]
        for sig in sigs:
            ncrash += 1
            sig = dict(sig, efun=last[0].get("efun"))
            verdict.add(sig, [json.dumps(last[0])], "driver failure in file efun %s path hex %s" % (last[0].get("efun"), last[0].get("hex")), raw=raw)
    def intact(path, text):     # the driver may have replaced it by anything (a directory, nothing at all)
        try:
            return os.path.isfile(path) and not os.path.islink(path) and open(path).read() == text
        except OSError:
            return False
    if not intact(sentinel, "must never be touched\n") or not intact(os.path.join(os.path.dirname(root), "x"), "outside\n"):
        verdict.add({"kind": "sentinel"}, [], "a file outside the mudlib directory was modified")
    rootabs = os.path.realpath(root)
    projs = []
    for ex, pol in zip(exs, meta):
        out = [{"e": "Reset", "id": ex["id"], "policy": pol}]
        started = False
        loader = False      # load_object / clone / call_other by name are not file efuns: no valid_read mediation is
                            # promised for them; their stat() existence probe precedes the legality check of the name
        for ev in ex["events"]:
            e = ev.get("e")
            if e == "EfunBegin":
                started = True
                loader = ev["efun"] in ("load_object", "find_object", "call_other", "clone")
                if not loader:
                    out.append({"e": "EfunBegin", "efun": ev["efun"], "hex": ev["hex"]})
            elif e == "EfunEnd":
                if not loader:
                    out.append({"e": "EfunEnd"})
                loader = False
            elif not started:
                continue
            elif e == "Ask" and ev.get("kind") in ("read", "write"):
                a = ev.get("pol", "allow")
                out.append({"e": "Ask", "kind": ev["kind"], "path": list(ev["path"]), "answer": a if a in ("allow", "deny") else "rewrite",
                            "rewritten": list(a) if a not in ("allow", "deny") else []})
            elif e == "Fs":
                fn = ev["fn"]
                if loader and fn in ("stat", "lstat"):
                    continue
                p = ev["path"]
                mut = fn in MUT or (fn == "fopen" and ev.get("path2", "r")[:1] in ("w", "a"))
                for q in ([p] + ([ev["path2"]] if fn in ("rename", "link", "symlink") and ev.get("path2") else [])):
                    # the driver's own files (debug log etc.) are opened relative to the mudlib too; absolute paths inside the mudlib dir do not occur
                    out.append({"e": "Fs", "fn": fn, "path": list(q), "mut": bool(mut)})
        projs.append(out)
    accepted, nevents, rejects = vlib.validate_executions(SPEC, "FileGuardTrace", "FileGuardTrace.cfg", projs, work, max_rejects=20)
    for badi, upto in rejects:
        bad = projs[badi][upto] if upto < len(projs[badi]) else {"e": "?"}
        lastb = [p for p in projs[badi][:upto] if p["e"] == "EfunBegin"][-1:] or [{}]
        inef = bool(lastb) and not any(p["e"] == "EfunEnd" for p in projs[badi][projs[badi].index(lastb[0]):upto]) if lastb[0] else False
        sig = {"kind": "rejected", "event": bad.get("e"), "efun": lastb[0].get("efun") if inef else None, "policy": meta[badi]}
        if bad.get("e") == "Fs":
            sig["fn"] = bad["fn"]
            sig["escapes"] = "".join(bad["path"]).startswith("/") or ".." in "".join(bad["path"]).split("/")
        pathtxt = "".join(bad.get("path", []))[:120]
        verdict.add(sig, [json.dumps(p) for p in projs[badi][max(0, upto - 12):upto + 1]],
                    "efun %s arg %r policy %s: unexplainable %s %s %r" % (lastb[0].get("efun"), bytes.fromhex(lastb[0].get("hex", "")).decode(errors="replace")[:80], meta[badi], bad.get("e"), bad.get("fn", ""), pathtxt))
    print("TLC P3 FileGuardTrace: %d batches / %d events accepted" % (accepted, nevents))
    rc = verdict.finish()
    samples = [{"case": cases[0], "trace": projs[0][1:8]}]
    vlib.write_evidence(PROP, tier, "model_checking", dict(
        states=mc["states"], transitions=mc["transitions"], traces_validated_against_impl=accepted,
        samples=samples, evaluations=len(cases) + 2 * len(incs), distinct_nontrivial=len(set(cases)) + 2 * len(incs),
        rule="paths printed by TLC from FileGuardPaths (all strings over {a . / #} up to the bound; sampled in quick mode) plus hand-listed extremes, "
             "x file efuns x master policies; include/inherit of each path; distinct by (efun, path, policy)",
        exhaustive=False, events_validated=nevents, driver_failures=ncrash, strings_checked_in_model=mc["states"]),
        time.time() - t0, len(verdict.new), ["libc open/fopen/stat/lstat/opendir/mkdir/rmdir/link/symlink/rename/unlink interposed at link time", "scenario master logs every valid_read/valid_write"])
    return rc


if __name__ == "__main__":
    vlib.main_wrapper(PROP, run)
