#!/usr/bin/env python3
"""C11 — heart_beat runs once per interval per enabled object; faults stay local.
P1: HeartBeatImpl (array + cursor + compensation, impl-shaped) satisfies the strict rules exhaustively.
P2: HeartBeatGen enumerates populations x per-object heart_beat scripts x tick/top-level steps.
P3: traces of the real call_heart_beat() are validated against the abstract spec HeartBeat."""
import os, sys, json, time, random
sys.path.insert(0, os.path.join(os.path.dirname(os.path.abspath(__file__)), "..", "tools"))
import vlib, build

PROP = "C11"
SPEC = os.path.join(vlib.VERIF, "spec", "heartbeat")


def scr_ops(name, idx=1):
    """script name -> '|'-separated ops run inside heart_beat()"""
    if name == "none":
        return ""
    if name == "err":
        return "err"
    if name == "mk":
        return "clr:hb|mk:o%d:/obj/sc|hb:o%d:1" % (4 + idx, 4 + idx)
    parts = name.split("_")
    ops = []
    i = 0
    while i < len(parts):
        w = parts[i]
        if w == "dis":
            ops.append("hb:%s:0" % ("me" if parts[i + 1] == "self" else parts[i + 1])); i += 2
        elif w == "en":
            ops.append("hb:%s:%s" % ("me" if parts[i + 1] == "self" else parts[i + 1], parts[i + 2])); i += 3
        elif w == "dest":
            ops.append("dest:%s" % ("me" if parts[i + 1] == "self" else parts[i + 1])); i += 2
        elif w == "err":
            ops.append("err"); i += 1
        else:
            raise ValueError(name)
    return "|".join(ops)


def script_of(hist):
    cfgs = [s for s in hist if s["a"] == "cfg"]
    n = len(cfgs)
    ops = ["proj hb", "backend", "connect u1", "cycle", "line u1 name u1", "cycle",
           "line u1 do me " + ";".join("mk:o%d:/obj/sc" % (i + 1) for i in range(n)), "cycle"]
    for i, c in enumerate(cfgs):
        body = scr_ops(c["scr"], i + 1)
        pre = ("oset=o%d=hb=%s;" % (i + 1, body)) if body else ""
        if pre or c["iv"]:
            ops.append("line u1 do me %s%s" % (pre, ("hb:o%d:%d" % (i + 1, c["iv"])) if c["iv"] else ""))
            ops.append("cycle")
    for s in hist:
        if s["a"] == "tick":
            ops += ["tick 2", "cycle"]
        elif s["a"] == "top":
            ops += ["line u1 do me " + s["op"], "cycle"]
    ops += ["tick 2", "cycle", "tick 2", "cycle", "cycle"]
    return ops


def project(ex):
    out = [{"e": "Reset", "id": ex["id"]}]
    names = {}
    for ev in ex["events"]:
        e = ev.get("e")
        if e == "Mk":
            names[ev["fname"].lstrip("/")] = ev["ob"]
            out.append({"e": "Create", "ob": ev["ob"]})
        elif e == "SetHB":
            out.append({"e": "SetHB", "ob": ev["ob"] if ev["ob"] != "me" else ev["by"], "n": ev["n"]})
        elif e == "Dest" and ev.get("live"):
            out.append({"e": "Destruct", "ob": ev["ob"] if ev["ob"] != "me" else ev["by"]})
        elif e == "TickBegin":
            out.append({"e": "TickBegin"})
        elif e == "HB":
            out.append({"e": "HB", "ob": ev["ob"]})
        elif e == "Raise" and ev.get("ctx") == "hb":
            out.append({"e": "HBError", "ob": ev["ob"]})
        elif e == "HBList":
            out.append({"e": "Poll", "list": sorted([[names.get(o, o), n] for o, n in ev["l"]])})
    return out


def run(tier, work):
    t0 = time.time()
    exe = build.ensure_harness("vdrv", ["vdrv.cpp"])
    verdict = vlib.Verdict(PROP)
    mc = vlib.model_check(SPEC, "HeartBeatImpl", "MCImpl.cfg" if tier == "quick" else "MCImplThorough.cfg", work, "p1", timeout=3000)
    for cfg in ("MCImplMutIdx.cfg", "MCImplMutToDo.cfg", "MCImplMutIsolate.cfg"):      # one-line weakenings of the model must be violated
        mm = vlib.model_check(SPEC, "HeartBeatImpl", cfg, work, "p1m", timeout=1500)
        if mm["ok"]:
            raise vlib.Broken("HeartBeatImpl with %s satisfies NoViolation: the invariant is vacuous" % cfg)
    print("TLC P1 HeartBeatImpl: %d states, %d transitions, %s" % (mc["states"], mc["transitions"], "ok" if mc["ok"] else "VIOLATED"))
    if not mc["ok"]:
        raise vlib.Broken("HeartBeatImpl violates its invariants:\n" + mc["out"][-2000:])
    hists, _ = vlib.generate(SPEC, "HeartBeatGen", "GenQuick.cfg" if tier == "quick" else "GenThorough.cfg", work, "p2a")
    hists, nexh = vlib.cap_histories(hists, 100000)
    nsim = 1500 if tier == "quick" else 40000
    sims, _ = vlib.generate(SPEC, "HeartBeatGen", "GenSim.cfg", work, "p2b", workers=4,
                            simulate="num=%d" % nsim, extra=["-depth", "12", "-seed", str(vlib.SEED)], timeout=900)
    rnd = random.Random(vlib.SEED)
    sims.sort(key=lambda h: json.dumps(h, sort_keys=True))
    rnd.shuffle(sims)
    sims = sims[:nsim]
    allh = hists + sims
    print("GEN %d behaviours (exhaustive) + %d simulated (seed %d)" % (len(hists), len(sims), vlib.SEED))
    conf, _ = work.mudlib()
    scen = [(str(i), script_of(h)) for i, h in enumerate(allh)]
    t1 = time.time()
    exs = vlib.run_vdrv(exe, conf, scen, work, tag="run")
    print("RUN %d scenarios in %.1fs" % (len(exs), time.time() - t1))
    ncrash = 0
    for ex, sigs, raw in vlib.confirmed_crashes(exe, conf, scen, exs, work):
        for sig in sigs:
            ncrash += 1
            verdict.add(sig, [json.dumps(allh[int(ex["id"])])] + scen[int(ex["id"])][1], "driver failure in a heart-beat scenario", raw=raw)
    projs = [project(ex) for ex in exs]
    accepted, nevents, rejects = vlib.validate_executions(SPEC, "HeartBeatTrace", "HeartBeatTrace.cfg", projs, work)
    for badi, upto in rejects:
        bad = projs[badi][upto] if upto < len(projs[badi]) else {"e": "?"}
        sig = {"kind": "rejected", "event": bad.get("e")}
        verdict.add(sig, [json.dumps(allh[badi])] + [json.dumps(p) for p in projs[badi][:upto + 1]],
                    "first unexplainable event #%d: %s" % (upto + 1, json.dumps(bad)))
    print("TLC P3 HeartBeatTrace: %d executions / %d events accepted" % (accepted, nevents))
    nontrivial = len({json.dumps(h, sort_keys=True) for h in allh
                      if any(s["a"] == "cfg" and s["iv"] > 0 and s["scr"] != "none" for s in h)})
    rc = verdict.finish()
    samples = [{"history": allh[0], "trace": projs[0][:14]}, {"history": allh[-1], "trace": projs[-1][:20]}]
    vlib.write_evidence(PROP, tier, "model_checking", dict(
        states=mc["states"], transitions=mc["transitions"], traces_validated_against_impl=accepted,
        samples=samples, evaluations=len(exs), distinct_nontrivial=nontrivial,
        rule="populations x heart_beat scripts x tick/top-level steps printed by TLC from HeartBeatGen (BFS + -simulate); "
             "non-trivial = at least one enabled object whose heart_beat performs an operation; distinct by JSON text",
        exhaustive=False, enumerated_by_tlc=nexh, enumerated_run=len(hists), events_validated=nevents, driver_failures=ncrash),
        time.time() - t0, len(verdict.new),
        ["virtual time; scripted reactor", "HeartBeatImpl bounds: see spec/heartbeat/MCImpl*.cfg"])
    return rc


if __name__ == "__main__":
    vlib.main_wrapper(PROP, run)
