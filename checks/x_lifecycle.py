#!/usr/bin/env python3
"""Extension (no listed property of its own; it touches C09's reset / clean_up tasks): the periodic object scan.
P2: LifecycleGen enumerates uses of objects, set_reset, what an object's reset() / clean_up() do when they run
    (raise an error, destruct the object itself or another one, call another object, answer 0) and ticks of lengths
    around ResetDuration / CleanupDuration / the 900 s scan period.
P3: every history runs in the real backend (ResetDuration 100, CleanupDuration 300); TLC validates the trace against
    Lifecycle: reset() only for objects used since their last reset whose time has come, clean_up() only after more
    than CleanupDuration seconds without use and not after it answered 0, each at most once per scan, and nobody who
    was due is left out of a scan - also when another object's hook fails or destructs objects."""
import os, sys, json, time, random
sys.path.insert(0, os.path.join(os.path.dirname(os.path.abspath(__file__)), "..", "tools"))
import vlib, build

PROP = "XLIFECYCLE"
SPEC = os.path.join(vlib.VERIF, "spec", "lifecycle")
OBJS = ["o1", "o2", "o3"]
PRE = ["backend", "connect u1", "cycle", "line u1 name u1", "cycle", "line u1 do me mk:o1:/obj/sc;mk:o2:/obj/sc;mk:o3:/obj/sc", "cycle"]


def other(o):
    return OBJS[(OBJS.index(o) + 1) % 3]


def commands_of(h):
    """-> list of (op lines, abstract effects of the command itself)"""
    out = []
    for s in h:
        a = s["a"]
        if a == "touch":
            out.append((["line u1 do %s x" % s["o"], "cycle"], [{"e": "Touch", "ob": s["o"]}]))
        elif a == "sreset":
            out.append((["line u1 do me sreset:%s:%d" % (s["o"], s["n"]), "cycle"], [{"e": "SetReset", "ob": s["o"], "n": s["n"]}]))
        elif a == "hook":
            body = {"err": "err", "destself": "dest:me", "destother": "dest:" + other(s["o"]), "touchother": "xcall:%s:hb_query" % other(s["o"])}[s["w"]]
            out.append((["line u1 do me oset=%s=%s=%s" % (s["o"], s["h"], body), "cycle"], [{"e": "Touch", "ob": s["o"]}]))
        elif a == "ret0":
            out.append((["line u1 do me oset=%s=curet0=1" % s["o"], "cycle"], [{"e": "Touch", "ob": s["o"]}]))
        elif a == "tick":
            out.append((["tick %d" % s["dt"], "cycle"], None))
    return out


def script_of(h):
    ops = list(PRE)
    for lines, _ in commands_of(h):
        ops += lines
    return ops + ["cycle", "cycle"]


def project(ex, h):
    # backend() runs the periodic work once before its loop: the first scan happens at start-up, the next one 900 s later
    out = [{"e": "Reset", "id": ex["id"], "nextscan": 1000900}]
    cmds = [c for c in commands_of(h) if c[1] is not None]
    hooks = {}      # (object, "reset"|"cleanup") -> what, in force once its command has run
    ret0 = set()
    pend_hooks = [s for s in h if s["a"] in ("hook", "ret0", "touch", "sreset")]
    tnow = None
    started = False
    in_tick = False
    alive = set()
    ci = 0
    for ev in ex["events"]:
        e = ev.get("e")
        if e == "Tick":
            tnow = ev["to"]
        if e == "Mk" and ev.get("ob") in OBJS:
            started = True
            if tnow is None:
                tnow = 1000000
            out.append({"e": "Created", "ob": ev["ob"], "t": tnow})
            alive.add(ev["ob"])
            continue
        if not started:
            continue
        if e == "Cmd" and ev.get("u") == "u1" and "mode" not in ev:
            text = bytes.fromhex(ev["hex"]).decode("latin-1")
            if text.startswith("do ") and not text.startswith("do me mk:") and ci < len(cmds):
                s = pend_hooks[ci]
                for eff in cmds[ci][1]:
                    if eff["ob"] in alive:
                        out.append(eff)
                if s["a"] == "hook":
                    hooks[(s["o"], s["h"])] = s["w"]
                elif s["a"] == "ret0":
                    ret0.add(s["o"])
                ci += 1
        elif e == "Tick":
            if in_tick:
                out.append({"e": "ScanEnd"})
            out.append({"e": "Tick", "t": ev["to"]})
            in_tick = True
        elif e == "ResetRun" and ev.get("ob") in OBJS:
            o = ev["ob"]
            out.append({"e": "ResetRun", "ob": o})
            if hooks.get((o, "reset")) == "touchother" and other(o) in alive:
                out.append({"e": "Touch", "ob": other(o)})
        elif e == "CleanUp" and ev.get("ob") in OBJS:
            o = ev["ob"]
            out.append({"e": "CleanUp", "ob": o, "again": o not in ret0})
            if hooks.get((o, "cleanup")) == "touchother" and other(o) in alive:
                out.append({"e": "Touch", "ob": other(o)})
        elif e == "Raise" and ev.get("ctx") in ("reset", "clean_up") and ev.get("ob") in OBJS:
            out.append({"e": "HookFailed", "ob": ev["ob"]})
        elif e == "Dest" and ev.get("live"):
            o = ev["ob"] if ev["ob"] != "me" else ev["by"]
            if o in alive:
                alive.discard(o)
                out.append({"e": "Destructed", "ob": o})
        elif e == "Wait" and in_tick:
            out.append({"e": "ScanEnd"})
            in_tick = False
    if in_tick:
        out.append({"e": "ScanEnd"})
    return out


def run(tier, work, verdict=None):
    """verdict: used by checks/c09.py - the same histories and validation, violations added to that verdict (C09: an error
    in one object's reset() / clean_up() must not deprive the other objects of theirs)"""
    t0 = time.time()
    exe = build.ensure_harness("vdrv", ["vdrv.cpp"])
    own = verdict is None
    if own:
        verdict = vlib.Verdict(PROP)
    hists, gs = vlib.generate(SPEC, "LifecycleGen", "GenQuick.cfg" if tier == "quick" else "GenThorough.cfg", work, "p2a", timeout=1800,
                              cap=(None if tier == "quick" else 40000))
    nsim = 2500 if tier == "quick" else 30000
    sims, _ = vlib.generate(SPEC, "LifecycleGen", "GenSim.cfg", work, "p2b", workers=4, simulate="num=%d" % nsim,
                            extra=["-depth", "11", "-seed", str(vlib.SEED)], timeout=900)
    rnd = random.Random(vlib.SEED)
    sims.sort(key=lambda h: json.dumps(h, sort_keys=True))
    rnd.shuffle(sims)
    allh = hists + sims[:nsim]
    print("GEN %d histories (exhaustive) + %d simulated (seed %d)" % (len(hists), len(allh) - len(hists), vlib.SEED))
    conf, _ = work.mudlib(conf_extra="ResetDuration 100\nCleanupDuration 300")
    scen = [(str(i), script_of(h)) for i, h in enumerate(allh)]
    t1 = time.time()
    exs = vlib.run_vdrv(exe, conf, scen, work, tag="run")
    print("RUN %d scenarios in %.1fs" % (len(exs), time.time() - t1))
    ncrash = 0
    for ex, sigs, raw in vlib.confirmed_crashes(exe, conf, scen, exs, work):
        for sig in sigs:
            ncrash += 1
            verdict.add(sig, [json.dumps(allh[int(ex["id"])])] + scen[int(ex["id"])][1], "driver failure in a reset / clean_up scenario: " + json.dumps(allh[int(ex["id"])])[:300], raw=raw)
    projs = [project(ex, allh[int(ex["id"])]) for ex in exs]
    nres = sum(1 for p in projs for r in p if r["e"] == "ResetRun")
    ncu = sum(1 for p in projs for r in p if r["e"] == "CleanUp")
    if nres < len(projs) // 10 or ncu < len(projs) // 20:
        raise vlib.Broken("vacuous: only %d resets / %d clean_ups observed in %d scenarios" % (nres, ncu, len(projs)))
    accepted, nevents, rejects = vlib.validate_executions(SPEC, "LifecycleTrace", "LifecycleTrace.cfg", projs, work, max_rejects=8)
    for badi, upto in rejects:
        bad = projs[badi][upto] if upto < len(projs[badi]) else {"e": "?"}
        sig = {"kind": "rejected", "event": bad.get("e")}
        verdict.add(sig, [json.dumps(allh[badi])] + [json.dumps(p) for p in projs[badi][:upto + 1]],
                    "first unexplainable event #%d: %s" % (upto + 1, json.dumps(bad)[:300]))
    print("TLC P3 LifecycleTrace: %d executions / %d events accepted (%d resets, %d clean_ups)" % (accepted, nevents, nres, ncu))
    if not own:
        return accepted
    rc = verdict.finish()
    vlib.write_evidence(PROP, tier, "model_checking", dict(
        states=max(1, gs["states"]), transitions=max(1, gs["transitions"]), traces_validated_against_impl=accepted, evaluations=len(exs),
        distinct_nontrivial=len({json.dumps(h, sort_keys=True) for h in allh}),
        samples=[{"history": allh[0], "trace": projs[0][:14]}, {"history": allh[-1], "trace": projs[-1][:30]}],
        rule="histories printed by TLC from LifecycleGen (BFS to the bound + -simulate), every one ends with a tick; distinct by JSON text",
        exhaustive=False, events_validated=nevents, driver_failures=ncrash, resets=nres, clean_ups=ncu),
        time.time() - t0, len(verdict.new), ["extension beyond the listed properties; not registered in MANIFEST.json",
                                             "the random part of the next reset time is not observed: the specification keeps its bounds"], subdir="evidence_ext")
    return rc


if __name__ == "__main__":
    vlib.main_wrapper(PROP, run)
