#!/usr/bin/env python3
"""C13 — input framing ignores packet boundaries and survives any byte stream.
P1: the reference decoder of TelnetRef is compositional (a fold) and never leaks negotiation bytes.
P2: TelnetGen enumerates token streams x segmentations (strict class), robust-class streams (malformed,
    oversized, 8-bit) and line-mode (ASCII) streams.
P3: traces of the real get_user_data()/copy_chars()/get_user_command() validated against Telnet."""
import os, sys, json, time, random
sys.path.insert(0, os.path.join(os.path.dirname(os.path.abspath(__file__)), "..", "tools"))
import vlib, build

PROP = "C13"
SPEC = os.path.join(vlib.VERIF, "spec", "telnet")
ROBUST = {"lonecr", "lf", "nul", "iacse", "iacend", "sbopen", "sbbig", "sbbad", "long", "long2047", "l680", "hi"}


def pieces(b, cuts):
    out = []
    cur = []
    for i, x in enumerate(b):
        cur.append(x)
        if i < len(cuts) and cuts[i]:
            out.append(cur)
            cur = []
    if cur:
        out.append(cur)
    return out


def script_of(h):
    ops = ["proj users"]
    if h["port"] == "ascii":
        ops.append("portkind ascii")
    ops += ["backend", "connect u1", "cycle"]
    data = h["bytes"]
    if isinstance(data, str):
        data = []
    nlines = 0
    for p in pieces(data, h["cuts"]):
        ops.append("input u1 " + bytes(p).hex())
        ops.append("cycle")
        if h.get("drain", True):
            k = bytes(p).count(b"\n") + bytes(p).count(b"\x00") + 1
            ops += ["cycle"] * min(k, 40)
    if h.get("drain", True):
        ops += ["cycle"] * (min(60, len(data)) + 3)
    else:
        ops += ["cycle"] * (bytes(data).count(b"\n") + 10)     # one command per cycle: enough polls to drain a burst
    return ops


def project(ex, h):
    cls = "robust" if h["cls"] == "robust" else "strict"
    out = [{"e": "Reset", "id": ex["id"], "cls": cls, "port": h["port"]}]
    for ev in ex["events"]:
        e = ev.get("e")
        if e == "Read" and ev["n"] > 0:
            out.append({"e": "Recv", "bytes": list(bytes.fromhex(ev["hex"]))})
        elif e == "Cmd":
            out.append({"e": "Line", "text": list(bytes.fromhex(ev["hex"]))})
        elif e == "Users":
            for u in ev["l"]:
                out.append({"e": "Buf", "ts": u["ts"], "te": u["te"]})
    out.append({"e": "Drained"})
    return out


def run(tier, work):
    t0 = time.time()
    exe = build.ensure_harness("vdrv", ["vdrv.cpp"])
    verdict = vlib.Verdict(PROP)
    mc = vlib.model_check(SPEC, "TelnetGen", "MCFold.cfg", work, "p1", timeout=3000)
    print("TLC P1 TelnetGen/MCFold: %d states, %d transitions, %s" % (mc["states"], mc["transitions"], "ok" if mc["ok"] else "VIOLATED"))
    if not mc["ok"]:
        raise vlib.Broken("reference decoder is not compositional:\n" + mc["out"][-2000:])
    rnd = random.Random(vlib.SEED)
    hs, _ = vlib.generate(SPEC, "TelnetGen", "GenQuick.cfg" if tier == "quick" else "GenThorough.cfg", work, "p2a")
    hs.sort(key=lambda h: json.dumps(h, sort_keys=True))
    rnd.shuffle(hs)
    hs = hs[:2500] if tier == "quick" else hs[:12000]       # (the thorough enumeration is far larger than a run can replay)
    for h in hs:
        h.update(cls="strict", port="telnet")
    nsim = 600 if tier == "quick" else 1500
    sims, _ = vlib.generate(SPEC, "TelnetGen", "GenSim.cfg", work, "p2b", workers=4, simulate="num=%d" % nsim,
                            extra=["-depth", "12", "-seed", str(vlib.SEED)], timeout=900)
    for h in sims:
        h.update(cls="strict", port="telnet")
    rob, _ = vlib.generate(SPEC, "TelnetGen", "GenRobust.cfg", work, "p2c", workers=4, simulate="num=%d" % (nsim // 2),
                           extra=["-depth", "9", "-seed", str(vlib.SEED)], timeout=900)
    for h in rob:
        h.update(cls="robust" if any(t in ROBUST for t in h["toks"]) else "strict", port="telnet")
    asc, _ = vlib.generate(SPEC, "TelnetGen", "GenAscii.cfg", work, "p2d")
    asc.sort(key=lambda h: json.dumps(h, sort_keys=True))
    rnd.shuffle(asc)
    asc = asc[:600] if tier == "quick" else asc[:3000]
    for h in asc:
        h.update(cls="strict", port="ascii")
    # bursts: many short lines sent faster than one command per cycle (hand-listed family, strict)
    bursts = []
    for nl, per in ((30, 5), (150, 25), (100, 100)):
        data = b"".join(b"l%03d say hello\r\n" % i for i in range(nl))
        cuts = [1 if (i + 1) % (per * 16) == 0 else 0 for i in range(len(data) - 1)]
        bursts.append(dict(toks=["burst%d" % nl], bytes=list(data), cuts=cuts, cls="strict", port="telnet", drain=False))
    allh = hs + sims + rob + asc + bursts
    print("GEN %d strict + %d simulated + %d robust + %d ascii + %d burst" % (len(hs), len(sims), len(rob), len(asc), len(bursts)))
    conf, _ = work.mudlib()
    scen = [(str(i), script_of(h)) for i, h in enumerate(allh)]
    t1 = time.time()
    exs = vlib.run_vdrv(exe, conf, scen, work, tag="run")
    print("RUN %d scenarios in %.1fs" % (len(exs), time.time() - t1))
    ncrash = 0
    for ex, sigs, raw in vlib.confirmed_crashes(exe, conf, scen, exs, work):
        for sig in sigs:
            ncrash += 1
            h = allh[int(ex["id"])]
            verdict.add(sig, [json.dumps(dict(h, bytes=bytes(h["bytes"]).hex()))], "driver failure on an input stream", raw=raw)
    projs = [project(ex, allh[int(ex["id"])]) for ex in exs]
    accepted, nevents, rejects = vlib.validate_executions(SPEC, "TelnetTrace", "TelnetTrace.cfg", projs, work, max_rejects=8)
    for badi, upto in rejects:
        bad = projs[badi][upto] if upto < len(projs[badi]) else {"e": "?"}
        h = allh[badi]
        sig = {"kind": "rejected", "event": bad.get("e"), "port": h["port"], "cls": h["cls"]}
        if h["toks"][0].startswith("burst"):
            sig["family"] = "burst"
        elif h["port"] == "ascii":
            sig["split"] = any(h["cuts"])
        verdict.add(sig, [json.dumps(dict(h, bytes=bytes(h["bytes"]).hex()))] + [json.dumps(p) for p in projs[badi][:upto + 1]][-30:],
                    "first unexplainable event #%d: %s" % (upto + 1, json.dumps(bad)[:300]))
    print("TLC P3 TelnetTrace: %d executions / %d events accepted" % (accepted, nevents))
    nontrivial = len({json.dumps([h["bytes"], h["cuts"], h["port"]]) for h in allh if len(h["bytes"]) >= 3 and any(h["cuts"])})
    rc = verdict.finish()
    samples = [{"stream": allh[3], "trace": projs[3][:10]}, {"stream": dict(allh[-4], bytes=str(allh[-4]["bytes"])[:200]), "trace": projs[-4][:10]}]
    vlib.write_evidence(PROP, tier, "model_checking", dict(
        states=mc["states"], transitions=mc["transitions"], traces_validated_against_impl=accepted,
        samples=samples, evaluations=len(exs), distinct_nontrivial=nontrivial,
        rule="token streams x segmentations printed by TLC from TelnetGen (strict, robust and ASCII-port families) plus 3 hand-listed bursts; "
             "non-trivial = at least 3 bytes delivered in at least two reads; distinct by (bytes, cuts, port)",
        exhaustive=False, events_validated=nevents, driver_failures=ncrash),
        time.time() - t0, len(verdict.new), ["scripted recv(); one read per poll"])
    return rc


if __name__ == "__main__":
    vlib.main_wrapper(PROP, run)
