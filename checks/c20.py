#!/usr/bin/env python3
"""C20 — uid/euid change only as the master allows; without euid no object creation.
P1: TLC checks on the abstract spec Uids (run by UidsGen over a small universe) that uids are never 0,
    change only by creation/export and euids only by an approved seteuid.
P2: the same runs print load/clone/seteuid/export_uid histories under three master policies.
P3: traces of the real efuns (getuid/geteuid of every object after every step) validated against Uids."""
import os, sys, json, time, random
sys.path.insert(0, os.path.join(os.path.dirname(os.path.abspath(__file__)), "..", "tools"))
import vlib, build

PROP = "C20"
SPEC = os.path.join(vlib.VERIF, "spec", "uids")
DIRS = {"d1": "d1", "d2": "d2", "bb": "bb"}
CREATOR = {"d1": "d1", "d2": "d2", "bb": "Backbone"}


def script_of(h):
    ops = ["backend", "connect u1", "cycle", "line u1 name u1", "cycle",
           "line u1 do me pol:seteuid:%s;uids" % h["policy"], "cycle"]
    k = 0
    for s in h["steps"]:
        a = s["a"]
        if a == "create":
            k += 1
            name = s["new"] if s["new"] != "none" else "x%d" % k
            kind = "new" if k % 3 else "ld"
            f = "/%s/ob" % s["c"] if kind == "new" else "/%s/l%d" % (s["c"], 1 + (k // 3) % 2)
            ops.append("line u1 do %s %s:%s:%s" % (s["by"], kind, name, f))
        elif a == "seteuid":
            ops.append("line u1 do %s seu:%s" % (s["ob"], s["x"]))
        elif a == "export":
            ops.append("line u1 do %s exp:%s" % (s["from"], s["to"]))
        ops.append("cycle")
    # at the end: an object that has given up its euid asks for a file-backed object and for a VIRTUAL one (no file; the
    # master's compile_object() would make it) - neither may be created
    ops += ["line u1 do u1 seu:0", "cycle", "line u1 do u1 new:xf:/d1/ob", "cycle", "line u1 do u1 ld:xv:/d1/virt/v1", "cycle", "cycle"]
    return ops


def project(ex, h):
    out = [{"e": "Reset", "id": ex["id"], "policy": h["policy"]}]
    adopted = False
    for ev in ex["events"]:
        e = ev.get("e")
        if e == "Uids":
            if not adopted:
                for n, u, eu in ev["l"]:
                    if n == "u1":
                        out.append({"e": "Adopt", "ob": "u1", "uid": u, "euid": eu})
                        adopted = True
            out.append({"e": "Uids", "l": ev["l"]})
        elif e == "Create":
            d = ev["file"].strip("/").split("/")[0]
            out.append({"e": "Create", "by": ev["by"], "ob": ev["ob"], "creator": CREATOR.get(d, "Root")})
        elif e == "CreateRefused":
            out.append({"e": "CreateRefused", "by": ev["by"]})
        elif e == "Seteuid":
            out.append({"e": "Seteuid", "ob": ev["ob"], "x": ev["x"], "ret": ev["ret"]})
        elif e == "Export":
            out.append({"e": "Export", "from": ev["from"], "to": ev["to"], "ret": ev["ret"]})
        elif e == "ExportErr":
            out.append({"e": "ExportErr", "from": ev["from"]})
    return out


def run(tier, work):
    t0 = time.time()
    exe = build.ensure_harness("vdrv", ["vdrv.cpp"])
    verdict = vlib.Verdict(PROP)
    rc_, out_ = vlib.tlc(SPEC, "UidsGen", "GenQuick.cfg" if tier == "quick" else "GenThorough.cfg", work, "p1", deadlock_off=True, timeout=3000)
    if rc_ != 0:
        raise vlib.Broken("Uids model violates its properties or failed (exit %d):\n%s" % (rc_, out_[-2500:]))
    hists, gs = vlib.generate(SPEC, "UidsGen", "GenQuick.cfg" if tier == "quick" else "GenThorough.cfg", work, "p2a", timeout=3000)
    print("TLC P1 Uids (via UidsGen): %d states, %d transitions, ok" % (gs["states"], gs["transitions"]))
    rnd = random.Random(vlib.SEED)
    hists.sort(key=lambda h: json.dumps(h, sort_keys=True))
    if tier == "quick" and len(hists) > 4000:
        rnd.shuffle(hists)
        hists = hists[:4000]
    hists, nexh = vlib.cap_histories(hists, 150000)
    nsim = 800 if tier == "quick" else 20000
    sims, _ = vlib.generate(SPEC, "UidsGen", "GenSim.cfg", work, "p2b", workers=4, simulate="num=%d" % nsim,
                            extra=["-depth", "12", "-seed", str(vlib.SEED)], timeout=900)
    sims.sort(key=lambda h: json.dumps(h, sort_keys=True))
    rnd.shuffle(sims)
    sims = sims[:nsim]
    allh = hists + sims
    print("GEN %d behaviours (exhaustive) + %d simulated (seed %d)" % (len(hists), len(sims), vlib.SEED))
    conf, _ = work.mudlib()
    scen = [(str(i), script_of(h)) for i, h in enumerate(allh)]
    t1 = time.time()
    exs = vlib.run_vdrv(exe, conf, scen, work, tag="run")
    print("RUN %d scenarios in %.1fs" % (len(exs), time.time() - t1))
    ncrash = 0
    for ex, sigs, raw in vlib.confirmed_crashes(exe, conf, scen, exs, work):
        for sig in sigs:
            ncrash += 1
            verdict.add(sig, [json.dumps(allh[int(ex["id"])])] + scen[int(ex["id"])][1], "driver failure in a uid scenario", raw=raw)
    projs = [project(ex, allh[int(ex["id"])]) for ex in exs]
    accepted, nevents, rejects = vlib.validate_executions(SPEC, "UidsTrace", "UidsTrace.cfg", projs, work)
    for badi, upto in rejects:
        bad = projs[badi][upto] if upto < len(projs[badi]) else {"e": "?"}
        sig = {"kind": "rejected", "event": bad.get("e")}
        verdict.add(sig, [json.dumps(allh[badi])] + [json.dumps(p) for p in projs[badi][:upto + 1]],
                    "first unexplainable event #%d: %s" % (upto + 1, json.dumps(bad)))
    print("TLC P3 UidsTrace: %d executions / %d events accepted" % (accepted, nevents))
    nontrivial = len({json.dumps(h, sort_keys=True) for h in allh if len({s["a"] for s in h["steps"]}) >= 2})
    rc = verdict.finish()
    samples = [{"history": allh[0], "trace": projs[0][:12]}, {"history": allh[-1], "trace": projs[-1][:20]}]
    vlib.write_evidence(PROP, tier, "model_checking", dict(
        states=gs["states"], transitions=gs["transitions"], traces_validated_against_impl=accepted,
        samples=samples, evaluations=len(exs), distinct_nontrivial=nontrivial,
        rule="create/seteuid/export histories under each master policy, printed by TLC while it runs the abstract spec Uids (BFS + -simulate); "
             "non-trivial = at least two different kinds of operation; distinct by JSON text",
        exhaustive=False, enumerated_by_tlc=nexh, events_validated=nevents, driver_failures=ncrash),
        time.time() - t0, len(verdict.new), ["scenario master implements the policies; creator_file by top-level directory"])
    return rc


if __name__ == "__main__":
    vlib.main_wrapper(PROP, run)
