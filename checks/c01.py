#!/usr/bin/env python3
"""C01 — running any LPC program is memory-safe; the worst outcome is an LPC error.
Surface.tla enumerates the call surface: every efun of the efun specification (parsed from the preprocessed
lib/efuns/func_spec at check time) x every argument position x 41 value kinds (boundary integers, empty / huge / '%'
/ multibyte strings, empty / nested / self-referencing / shared / large arrays and mappings, floats incl. infinity,
this / other / destructed objects, plain / efun / bound / ownerless function pointers, buffers, class instances,
undefined), the other positions holding a value of the declared type; every binary, unary, index and range operator
form x every combination of kinds; and, by simulation, calls with all positions random.  The generated LPC runs in the
real driver under ASan/UBSan, one forked process per efun / operator; every evaluation is bracketed by Call / Return
events and TLC validates each batch against SurfaceTrace: every Call has its Return (value or LPC error) and the
process is alive and clean at the end."""
import os, sys, json, time, random, re, shutil
sys.path.insert(0, os.path.join(os.path.dirname(os.path.abspath(__file__)), "..", "tools"))
import vlib, build

PROP = "C01"
SPECSRC = os.path.join(vlib.VERIF, "spec", "surface")
KINDS = ["i0", "i1", "im1", "i7", "i31", "im31", "i32", "imax", "imin", "s0", "sa", "spath", "spct", "sbig", "sutf", "snum", "a0", "a3", "anest", "aself",
         "ashared", "abig", "m0", "m3", "mself", "mbig", "f0", "f1", "fbig", "finf", "o", "oother", "odead", "fp", "fpefun", "fpbound", "fpdead", "b0", "b4", "cls", "undef"]
BINOPS = {"add": "+", "sub": "-", "mul": "*", "div": "/", "mod": "%", "and": "&", "or": "|", "xor": "^", "shl": "<<", "shr": ">>", "lt": "<", "le": "<=", "gt": ">", "ge": ">=",
          "eq": "==", "ne": "!=", "addeq": "+=", "subeq": "-=", "muleq": "*=", "diveq": "/=", "modeq": "%=", "andeq": "&=", "oreq": "|=", "xoreq": "^=", "shleq": "<<=", "shreq": ">>="}
UNOPS = {"not": "!%s", "neg": "-%s", "compl": "~%s", "preinc": "++%s", "postinc": "%s++", "predec": "--%s", "postdec": "%s--", "sizeof": "sizeof(%s)",
         "toint": "to_int(%s)", "tofloat": "to_float(%s)", "caststr": "(string)%s", "castint": "(int)%s", "castarr": "(mixed *)%s", "foreach": "FOREACH", "spread": "SPREAD"}
# efuns that would take the harness itself down or need the network / an editor session (not judged)
SKIP = {"shutdown", "exec", "ed", "ed_start", "ed_cmd", "query_ed_mode", "in_edit", "set_malloc_mask", "debugmalloc", "check_memory", "dump_socket_status",
        "time_expression", "trace", "traceprefix", "set_debug_level", "swap"}
TYP = {"int": "i7", "string": "sa", "object": "o", "mapping": "m3", "function": "fp", "float": "f1", "buffer": "b4", "mixed": "i1", "array": "a3"}


def parse_spec(path):
    """-> {name: [arg specs]} with arg spec = (typical kind, optional?) ; '...' marks varargs"""
    txt = re.sub(r"/\*.*?\*/", " ", open(path).read(), flags=re.S)
    txt = "\n".join(l for l in txt.splitlines() if not l.startswith("#"))
    efuns = {}
    for stmt in txt.split(";"):
        stmt = " ".join(stmt.split())
        if not stmt or stmt.startswith("operator"):
            continue
        m = re.match(r"^(?:[a-z]+\s*\*?\s+)+?([a-z_0-9]+)(?:\s+([a-z_0-9]+))?\s*\((.*)\)$", stmt)
        if not m:
            continue
        name = m.group(1)
        args = []
        var = False
        inner = m.group(3).strip()
        if inner and inner != "void":
            for a in inner.split(","):
                a = a.strip()
                if a == "...":
                    var = True
                    continue
                hasdef = "default" in a
                a = a.split("default")[0].strip()
                alts = [x.strip() for x in a.split("|")]
                opt = "void" in alts or hasdef
                alts = [x for x in alts if x != "void"] or ["mixed"]
                t = alts[0]
                kind = TYP["array"] if "*" in t else TYP.get(t.split()[0], "i1")
                args.append((kind, opt))
        efuns[name] = (args, var)
    return efuns


def call_src(c, efuns):
    """LPC statements performing one evaluation; the result goes to r"""
    t = c["t"]
    pre = []
    if t in ("efun", "efunall"):
        args, var = efuns[c["name"]]
        if t == "efun":
            n = c["pos"]
            ks = [args[i][0] if i < len(args) else "i1" for i in range(n)]
            # positions after the varied one that are not optional must be present too
            for i in range(n, len(args)):
                if not args[i][1]:
                    ks.append(args[i][0])
            ks[c["pos"] - 1] = c["kind"]
        else:
            need = sum(1 for a in args if not a[1])
            n = max(need, min(len(args) + (1 if var else 0), 4))
            if not var:
                n = min(n, len(args))
            ks = [c["kinds"][i] if i < 4 else "i1" for i in range(n)]
        names = []
        for i, k in enumerate(ks):
            pre.append('x%d = val("%s");' % (i, k))
            names.append("x%d" % i)
        return pre, "r = %s(%s);" % (c["name"], ", ".join(names))
    if t == "bin":
        pre = ['x0 = val("%s");' % c["a"], 'x1 = val("%s");' % c["b"]]
        sym = BINOPS[c["op"]]
        return pre, ("r = (x0 %s x1);" % sym) if not c["op"].endswith("eq") or c["op"] in ("eq",) else ("x0 %s x1; r = x0;" % sym)
    if t == "un":
        pre = ['x0 = val("%s");' % c["a"]]
        f = UNOPS[c["op"]]
        if f == "FOREACH":
            return pre, "r = 0; foreach (x1 in x0) { r++; if (r > 10) break; }"
        if f == "SPREAD":
            return pre, "r = vcb(x0...);"
        return pre, "r = (%s);" % (f % "x0")
    if t == "idx":
        pre = ['x0 = val("%s");' % c["a"], 'x1 = val("%s");' % c["b"]]
        return pre, {"index": "r = x0[x1];", "rindex": "r = x0[<x1];", "index_lv": "x0[x1] = 65; r = x0;", "rindex_lv": "x0[<x1] = 65; r = x0;"}[c["form"]]
    if t == "rng":
        pre = ['x0 = val("%s");' % c["a"], 'x1 = val("%s");' % c["b"], 'x2 = val("%s");' % c["c"], 'x3 = val("%s");' % c["d"]]
        return pre, {"nn": "r = x0[x1..x2];", "rn": "r = x0[<x1..x2];", "nr": "r = x0[x1..<x2];", "rr": "r = x0[<x1..<x2];", "ne": "r = x0[x1..];", "re": "r = x0[<x1..];",
                     "nn_lv": "x0[x1..x2] = x3; r = x0;", "rr_lv": "x0[<x1..<x2] = x3; r = x0;"}[c["form"]]
    if t == "scan":
        lv = "".join(", a%d" % (i + 1) for i in range(c["nlv"]))
        return ['x0 = %s;' % json.dumps(c["inp"])], "r = sscanf(x0, %s%s); bad = !intp(r) || r < 0 || r > 4;" % (json.dumps(c["fmt"]), lv)
    raise ValueError(c)


def batch_src(calls, efuns):
    out = ['inherit "/obj/c01lib";']
    nf = 0
    for b0 in range(0, len(calls), 30):
        out += ["void run%d() {" % nf, "  mixed x0, x1, x2, x3, r, e, a1, a2, a3; int bad;"]
        for cid, c in calls[b0:b0 + 30]:
            pre, stmt = call_src(c, efuns)
            out.append("  " + " ".join(pre))
            out.append('  vlog("\\"e\\":\\"Call\\",\\"id\\":%d"); bad = 0; e = catch { %s }; vlog("\\"e\\":\\"Return\\",\\"out\\":\\"" + (e ? "error" : bad ? "wrongtype" : "value") + "\\",\\"over\\":\\"" + over(r) + "\\""); r = 0;' % (cid, stmt))
        out.append("}")
        nf += 1
    out += ["void run() {", "  setup();"] + ["  run%d();" % k for k in range(nf)] + ["}"]
    return "\n".join(out) + "\n"


OVER_LIMITS = dict(MaxStringLength=100000, MaxArraySize=8000, MaxMappingSize=3000, MaxBufferSize=1000)


def run(tier, work, over_verdict=None):
    """over_verdict: used by checks/c04.py - the same enumeration with lowered size limits; every value an evaluation
    produced is measured against them and the ones beyond a limit are added to that verdict (nothing else is judged)"""
    t0 = time.time()
    verdict = vlib.Verdict(PROP)
    exe = build.ensure_harness("vdrv", ["vdrv.cpp"])
    bdir = build.ensure_build("asan", quiet=True)
    efuns = parse_spec(os.path.join(bdir, "lib", "efuns", "func_spec.i"))
    efuns = {k: v for k, v in efuns.items() if k not in SKIP and not k.startswith("socket_")}
    # ---- the surface as a TLC model
    sdir = work.path("surface", "x")
    sdir = os.path.dirname(sdir)
    for f in os.listdir(SPECSRC):
        shutil.copy(os.path.join(SPECSRC, f), sdir)
    names = sorted(efuns)
    with open(os.path.join(sdir, "MCSurface.tla"), "w") as fh:
        fh.write("---- MODULE MCSurface ----\n\\* written by checks/c01.py from lib/efuns/func_spec.c (%d efuns)\nEXTENDS Surface\n" % len(names))
        fh.write("TheEfuns == {%s}\n" % ", ".join('"%s"' % n for n in names))
        fh.write("TheMaxArgs == [e \\in TheEfuns |-> CASE %s [] OTHER -> 1]\n" % " [] ".join(
            'e = "%s" -> %d' % (n, min(4, len(efuns[n][0]) + (1 if efuns[n][1] else 0))) for n in names))
        fh.write("TheKinds == {%s}\nTheBin == {%s}\nTheUn == {%s}\n====\n" % (", ".join('"%s"' % k for k in KINDS), ", ".join('"%s"' % k for k in BINOPS), ", ".join('"%s"' % k for k in UNOPS)))
    for cfg, sim in (("Gen.cfg", "FALSE"), ("GenSim.cfg", "TRUE")):
        open(os.path.join(sdir, cfg), "w").write("SPECIFICATION Spec\nCONSTANTS Efuns <- TheEfuns MaxArgs <- TheMaxArgs Kinds <- TheKinds BinOps <- TheBin UnOps <- TheUn Sim = %s\nINVARIANT Emit\nCHECK_DEADLOCK FALSE\n" % sim)
    calls, gs = vlib.generate(sdir, "MCSurface", "Gen.cfg", work, "p2a", timeout=3000, heap="16g")
    rnd = random.Random(vlib.SEED)
    key = lambda c: json.dumps(c, sort_keys=True)
    calls.sort(key=key)
    nsim = 3000 if tier == "quick" else 60000
    sims, _ = vlib.generate(sdir, "MCSurface", "GenSim.cfg", work, "p2b", simulate="num=%d" % nsim, extra=["-depth", "3", "-seed", str(vlib.SEED)], timeout=1500)
    sims.sort(key=key)
    rnd.shuffle(sims)
    if tier == "quick":          # the exhaustive part is large: sample operators, keep every efun x position x kind
        ops_ = [c for c in calls if c["t"] != "efun"]
        rnd.shuffle(ops_)
        calls = [c for c in calls if c["t"] in ("efun", "scan")] + [c for c in ops_ if c["t"] != "scan"][:12000]
    allc = calls + sims[:nsim]
    print("TLC Surface: %d states; %d efuns from the efun specification; %d evaluations (%d exhaustive efun x position x kind / operator x kinds, %d simulated)" % (
        gs["states"], len(names), len(allc), len(calls), len(allc) - len(calls)))
    # ---- batches: one process per efun / operator
    groups = {}
    for cid, c in enumerate(allc):
        g = c.get("name") or c.get("op") or c.get("form") or "sscanf"
        groups.setdefault(c["t"][:4] + "_" + g, []).append((cid, c))
    conf, mdir = work.mudlib(conf_extra="".join("%s %d\n" % kv for kv in OVER_LIMITS.items()) if over_verdict is not None else "")
    os.makedirs(os.path.join(mdir, "c01"), exist_ok=True)
    os.makedirs(os.path.join(mdir, "c01tmp"), exist_ok=True)
    scen, gl = [], []
    for gi, (g, cs) in enumerate(sorted(groups.items())):
        for b in range(0, len(cs), 400):
            fn = "c01/b%d_%d" % (gi, b)
            open(os.path.join(mdir, fn + ".c"), "w").write(batch_src(cs[b:b + 400], efuns))
            scen.append((str(len(scen)), ["call /master set_clog #1", "call /%s run" % fn]))
            gl.append((g, fn, cs[b:b + 400]))
    t1 = time.time()
    exs = vlib.run_vdrv(exe, conf, scen, work, tag="run", timeout=60)
    # an evaluation may end the whole batch without any failure of the driver (an error that no catch can hold - e.g. too
    # many spread arguments -, or the destruction of the calling object): the evaluations after it run in a new batch
    for rnd_ in range(16):
        more = []
        for ex in exs:
            g, fn, cs = gl[int(ex["id"])]
            started = [ev["id"] for ev in ex["events"] if ev.get("e") == "Call"]
            if vlib.crashed(ex) or not started or len(started) == len(cs):
                continue
            rest = [(cid, c) for cid, c in cs if cid > started[-1]]
            if rest:
                gl[int(ex["id"])] = (g, fn, [(cid, c) for cid, c in cs if cid <= started[-1]])
                more.append((g, rest))
        if not more:
            break
        scen2 = []
        for g, rest in more:
            fn = "c01/r%d_%d" % (rnd_, len(scen) + len(scen2))
            open(os.path.join(mdir, fn + ".c"), "w").write(batch_src(rest, efuns))
            scen2.append((str(len(scen) + len(scen2)), ["call /master set_clog #1", "call /%s run" % fn]))
            gl.append((g, fn, rest))
        scen += scen2
        exs += vlib.run_vdrv(exe, conf, scen2, work, tag="run%d" % rnd_, timeout=60)
    print("RUN %d batches (one process per efun / operator) in %.1fs" % (len(exs), time.time() - t1))
    if over_verdict is not None:
        nval = 0
        for ex in exs:
            g, fn, cs = gl[int(ex["id"])]
            cmap = dict(cs)
            last = None
            for ev in ex["events"]:
                if ev.get("e") == "Call":
                    last = ev["id"]
                elif ev.get("e") == "Return":
                    nval += ev["out"] == "value"
                    if ev.get("over", "") not in ("", "0"):
                        c = cmap.get(last)
                        over_verdict.add({"kind": "over-limit", "what": ev["over"].split(":")[0], "group": g},
                                         [json.dumps(c)] + (call_src(c, efuns)[0] + [call_src(c, efuns)[1]] if c else []),
                                         "an evaluation produced a value beyond the configured limit (%s): %s" % (ev["over"], json.dumps(c)))
        return nval
    projs = []
    nret = {"value": 0, "error": 0}
    failing = []
    for ex in exs:
        g, fn, cs = gl[int(ex["id"])]
        out = [{"e": "Reset", "id": ex["id"]}]
        last = None
        for ev in ex["events"]:
            if ev.get("e") == "Call":
                out.append({"e": "Call", "id": ev["id"]})
                last = ev["id"]
            elif ev.get("e") == "Return":
                out.append({"e": "Return", "out": ev["out"]})
                nret[ev["out"]] = nret.get(ev["out"], 0) + 1
                last = None
        sigs = vlib.crashed(ex)
        if last is not None and not sigs:
            # the evaluation ended the batch but not the driver: an LPC error nothing could catch (reported to the master), or
            # the calling object is gone - still one of the two allowed outcomes
            uncaught = any(ev.get("e") == "CallErr" for ev in ex["events"])
            out.append({"e": "Return", "out": "error" if uncaught else "value"})
            nret["error" if uncaught else "value"] += 1
            last = None
        ncalls = sum(1 for p in out if p["e"] == "Call")
        compiled = ncalls > 0 or any(ev.get("e") == "CallRet" and ev.get("fn") == "run" for ev in ex["events"])
        out.append({"e": "Alive", "clean": not sigs and compiled and ncalls == len(cs)})
        if sigs or not compiled or ncalls != len(cs):
            failing.append((ex, g, fn, cs, last, sigs, compiled))
        projs.append(out)
    # repeat before reporting; attribute to the evaluation that was open (or the first one missing)
    ncrash = 0
    for ex, g, fn, cs, last, sigs, compiled in failing[:40]:
        ex2 = vlib.run_vdrv(exe, conf, [scen[int(ex["id"])]], work, tag="rerun", timeout=60)[0]
        sigs2 = vlib.crashed(ex2)
        if not sigs2 and compiled:
            pos = vlib.confirmed_in_position(exe, conf, {str(sid): ops for sid, ops in scen}, ex, work, timeout=60)
            if pos:
                sigs2 = vlib.crashed(pos)
                ex2 = pos
            else:
                print("NOTE failure of batch %s (%s) repeated neither alone nor in its original position: %s" % (fn, g, json.dumps(sigs)[:200]))
                continue
        cmap = dict(cs)
        c = cmap.get(last) if last is not None else None
        if not compiled:
            errs = [ev.get("msg", "") for ev in ex["events"] if ev.get("e") == "CompileErr" and ": Warning: " not in ev.get("msg", "")][:2]
            verdict.add({"kind": "batch-does-not-compile", "group": g}, [open(os.path.join(mdir, fn + ".c")).read()[:6000]], "generated batch %s does not compile: %s" % (g, errs))
            continue
        for sig in sigs2:
            ncrash += 1
            s2 = dict(sig, group=g)
            if c:
                s2["call"] = {k: v for k, v in c.items() if k in ("name", "pos", "kind", "op", "a", "b", "form", "fmt", "nlv", "inp")}
            verdict.add(s2, [json.dumps(c)] + (call_src(c, efuns)[0] + [call_src(c, efuns)[1]] if c else []),
                        "the driver failed during %s" % json.dumps(c), raw=(ex2["end"] or {}).get("raw", ""))
    accepted, nevents, rejects = vlib.validate_executions(SPECSRC, "SurfaceTrace", "SurfaceTrace.cfg", projs, work, max_rejects=60)
    known_bad = {int(ex["id"]) for ex, *_ in failing}
    for badi, upto in rejects:
        if badi in known_bad:
            continue          # already reported with its sanitizer signature
        b = projs[badi][upto] if upto < len(projs[badi]) else {"e": "?"}
        cids = [p["id"] for p in projs[badi][:upto + 1] if p["e"] == "Call"]
        c = dict(gl[badi][2]).get(cids[-1]) if cids else None
        sig = {"kind": "rejected", "event": b.get("e"), "group": gl[badi][0]}
        if c and b.get("out") == "wrongtype":
            sig["call"] = {k: v for k, v in c.items() if k in ("fmt", "nlv", "inp")}
        verdict.add(sig, ([json.dumps(c)] + call_src(c, efuns)[0] + [call_src(c, efuns)[1]] if c else []) + [json.dumps(p) for p in projs[badi][max(0, upto - 3):upto + 1]],
                    "unexplainable event %s in batch %s%s" % (json.dumps(b), gl[badi][0], " during %s" % json.dumps(c) if c else ""))
    print("TLC P3 SurfaceTrace: %d batches / %d events accepted; %d evaluations returned a value, %d raised an LPC error" % (accepted, nevents, nret["value"], nret["error"]))
    if nret["value"] < 1000 or nret["error"] < 1000:
        raise vlib.Broken("vacuity guard: %s" % json.dumps(nret))
    rc = verdict.finish()
    vlib.write_evidence(PROP, tier, "exploration", dict(
        states=gs["states"], transitions=gs["transitions"], traces_validated_against_impl=accepted, evaluations=nret["value"] + nret["error"],
        distinct_nontrivial=len({key(c) for c in allc}),
        samples=[{"call": allc[0], "lpc": call_src(allc[0], efuns)}, {"call": allc[-1], "lpc": call_src(allc[-1], efuns)}],
        rule="evaluations printed by TLC from Surface (every efun x position x kind, every operator form x kinds (sampled in the quick tier), simulated all-random calls); distinct by JSON text",
        exhaustive=False, events_validated=nevents, efuns=len(names), kinds=len(KINDS), outcomes=nret, driver_failures=ncrash, efuns_skipped=sorted(SKIP)),
        time.time() - t0, len(verdict.new),
        ["efuns that stop the harness itself or need the network / an editor session are not called: " + ", ".join(sorted(SKIP)) + ", socket_*",
         "at most four argument positions are varied per efun; values are the 41 kinds of mudlib/base/obj/c01lib.c",
         "memory safety is observed with AddressSanitizer + the UBSan checks for bounds / null / object-size / unreachable / vla / integer-divide-by-zero"])
    return rc


if __name__ == "__main__":
    vlib.main_wrapper(PROP, run)
