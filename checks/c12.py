#!/usr/bin/env python3
"""C12 — buffered commands are served fairly: one per user per cycle, nobody starves.
P1: CmdTurnImpl (slot table with gaps, turn flags, descending static cursor, bounded loop).
P2: CmdTurnGen enumerates user populations / gaps / arrival patterns / error, tick, connect extras.
P3: traces of the real backend() are validated against the abstract spec CmdTurn."""
import os, sys, json, time, random
sys.path.insert(0, os.path.join(os.path.dirname(os.path.abspath(__file__)), "..", "tools"))
import vlib, build

PROP = "C12"
SPEC = os.path.join(vlib.VERIF, "spec", "cmdturn")


def hx(s):
    return s.encode().hex()


def script_of(hist):
    st = hist[0]
    n = st["n"]
    ops = ["backend"]
    for u in range(1, n + 1):
        ops += ["connect u%d" % u, "cycle", "line u%d name u%d" % (u, u), "cycle"]
    if st["drop"]:
        ops += ["hangup u%d" % st["drop"], "cycle"]
    if st["chr"]:
        ops += ["line u%d do me getc" % st["chr"], "cycle"]
    dropped = {st["drop"]} if st["drop"] else set()
    seq = {u: 0 for u in range(1, n + 2)}
    extra_conn = False
    for cy in hist[1:]:
        arr = cy["arr"]
        if isinstance(arr, dict):
            arr = [arr[str(u)] for u in range(1, n + 1)]
        for u in range(1, n + 1):
            k = arr[u - 1]
            if u in dropped or (k == 0 and cy["x"] not in ("aerr%d" % u, "exec%d" % u)) or (k == 0 and u == st["chr"]):
                continue
            if u == st["chr"]:
                data = "".join(chr(ord('a') + (seq[u] + j) % 26) for j in range(k))
                seq[u] += k
            elif cy["x"] == "exec%d" % u:
                # the first command of the burst hands the connection over to a new object (exec); the rest of the
                # burst is already buffered and must still be served, one per cycle
                data = "do me exec\r\n"
                for j in range(max(k, 2)):
                    seq[u] += 1
                    data += "x u%dc%d\r\n" % (u, seq[u])
            elif cy["x"] == "aerr%d" % u:
                # type-ahead of failing commands: every one ends in an uncaught error (at least two of them)
                data = "do me err\r\n" * max(k, 2)
            else:
                data = ""
                for j in range(k):
                    seq[u] += 1
                    data += "x u%dc%d\r\n" % (u, seq[u])
            ops.append("input u%d %s" % (u, hx(data)))
        x = cy["x"]
        if x.startswith("err"):
            u = int(x[3:])
            if u not in dropped and u != st["chr"]:
                ops.append("input u%d %s" % (u, hx("do me err\r\n")))
        elif x == "tick":
            ops.append("tick 2")
        elif x == "conn" and not extra_conn:
            ops.append("connect u%d" % (n + 1))
            extra_conn = True
        elif x.startswith("drop"):
            u = int(x[4:])
            if u <= n and u not in dropped:
                ops.append("hangup u%d" % u)
                dropped.add(u)
        elif x == "force":
            ops.append("input u1 %s" % hx("do me force:3\r\n")) if 1 not in dropped and st["chr"] != 1 else None
        ops.append("cycle")
    ops = [o for o in ops if o]
    ops += ["cycle"] * 6
    return ops


def project(ex):
    out = [{"e": "Reset", "id": ex["id"]}]
    buf = {}
    mode = {}
    for ev in ex["events"]:
        e = ev.get("e")
        if e == "Accepted":
            out.append({"e": "Connect", "u": ev["u"]}); buf[ev["u"]] = b""; mode[ev["u"]] = "line"
        elif e == "Unregistered":
            out.append({"e": "Disconnect", "u": ev["u"]})
        elif e == "GetC":
            out.append({"e": "Mode", "u": ev["u"], "m": "char"}); mode[ev["u"]] = "char"
        elif e == "Read":
            u = ev["u"]
            data = bytes.fromhex(ev["hex"])
            if not data:
                continue
            if mode.get(u) == "char":
                items = [bytes([b]).hex() for b in data]
            else:
                buf[u] = buf.get(u, b"") + data
                items = []
                while b"\r\n" in buf[u]:
                    line, buf[u] = buf[u].split(b"\r\n", 1)
                    items.append(line.hex())
            if items:
                out.append({"e": "Arrive", "u": u, "items": items})
        elif e == "Cmd":
            if ev.get("mode") == "char":
                raw = bytes.fromhex(ev["hex"])
                out.append({"e": "Serve", "u": ev["u"], "items": [bytes([b]).hex() for b in raw]})
            else:
                out.append({"e": "Serve", "u": ev["u"] if ev["u"] != "?" else None, "items": [ev["hex"]]})
        elif e == "Raise" and ev.get("ctx") == "top":
            out.append({"e": "Error"})
        elif e == "Wait":
            out.append({"e": "Poll", "to": ev["to"]})
    # the very first command of a user ("name uX") is logged before the user has a name
    pend = None
    res = []
    for p in out:
        if p["e"] == "Serve" and p["u"] is None:
            # attribute to the user whose first line it is
            name = bytes.fromhex(p["items"][0]).decode(errors="replace").split(" ")[-1]
            p = dict(p, u=name)
        res.append(p)
    return res


def run(tier, work):
    t0 = time.time()
    exe = build.ensure_harness("vdrv", ["vdrv.cpp"])
    verdict = vlib.Verdict(PROP)
    mc = vlib.model_check(SPEC, "CmdTurnImpl", "MCImpl.cfg" if tier == "quick" else "MCImplThorough.cfg", work, "p1", timeout=3000)
    print("TLC P1 CmdTurnImpl: %d states, %d transitions, %s" % (mc["states"], mc["transitions"], "ok" if mc["ok"] else "VIOLATED"))
    if not mc["ok"]:
        raise vlib.Broken("CmdTurnImpl violates its invariants:\n" + mc["out"][-2000:])
    # the same model with one line of the implementation changed must violate them (the invariants are not vacuous)
    for cfg in ("MCImplMutAdvance.cfg", "MCImplMutBound.cfg", "MCImplMutTurn.cfg"):
        mm = vlib.model_check(SPEC, "CmdTurnImpl", cfg, work, "p1m", timeout=900)
        if mm["ok"]:
            raise vlib.Broken("CmdTurnImpl with %s satisfies the invariants: they are vacuous" % cfg)
    print("TLC P1 CmdTurnImpl weakened (cursor stays on the served slot / single call per cycle / no turn test): violated, as required")
    hists, _ = vlib.generate(SPEC, "CmdTurnGen", "GenQuick.cfg" if tier == "quick" else "GenThorough.cfg", work, "p2a")
    hists, nexh = vlib.cap_histories(hists, 150000)
    nsim = 1200 if tier == "quick" else 30000
    sims, _ = vlib.generate(SPEC, "CmdTurnGen", "GenSim.cfg", work, "p2b", workers=4,
                            simulate="num=%d" % nsim, extra=["-depth", "9", "-seed", str(vlib.SEED)], timeout=900)
    rnd = random.Random(vlib.SEED)
    sims.sort(key=lambda h: json.dumps(h, sort_keys=True))
    rnd.shuffle(sims)
    sims = sims[:nsim]
    allh = hists + sims
    print("GEN %d behaviours (exhaustive) + %d simulated (seed %d)" % (len(hists), len(sims), vlib.SEED))
    conf, _ = work.mudlib()
    scen = [(str(i), script_of(h)) for i, h in enumerate(allh)]
    t1 = time.time()
    exs = vlib.run_vdrv(exe, conf, scen, work, tag="run")
    print("RUN %d scenarios in %.1fs" % (len(exs), time.time() - t1))
    ncrash = 0
    for ex, sigs, raw in vlib.confirmed_crashes(exe, conf, scen, exs, work):
        for sig in sigs:
            ncrash += 1
            verdict.add(sig, [json.dumps(allh[int(ex["id"])])] + scen[int(ex["id"])][1], "driver failure in a command-turn scenario", raw=raw)
    projs = [project(ex) for ex in exs]
    accepted, nevents, rejects = vlib.validate_executions(SPEC, "CmdTurnTrace", "CmdTurnTrace.cfg", projs, work)
    for badi, upto in rejects:
        bad = projs[badi][upto] if upto < len(projs[badi]) else {"e": "?"}
        sig = {"kind": "rejected", "event": bad.get("e")}
        verdict.add(sig, [json.dumps(allh[badi])] + [json.dumps(p) for p in projs[badi][:upto + 1]],
                    "first unexplainable event #%d: %s" % (upto + 1, json.dumps(bad)))
    print("TLC P3 CmdTurnTrace: %d executions / %d events accepted" % (accepted, nevents))
    def nontriv(h):
        tot = 0
        for cy in h[1:]:
            a = cy["arr"]
            a = list(a.values()) if isinstance(a, dict) else a
            tot += sum(1 for v in a if v > 0)
        return tot >= 2
    nontrivial = len({json.dumps(h, sort_keys=True) for h in allh if nontriv(h)})
    rc = verdict.finish()
    samples = [{"history": allh[0], "trace": projs[0][:16]}, {"history": allh[-1], "trace": projs[-1][:24]}]
    vlib.write_evidence(PROP, tier, "model_checking", dict(
        states=mc["states"], transitions=mc["transitions"], traces_validated_against_impl=accepted,
        samples=samples, evaluations=len(exs), distinct_nontrivial=nontrivial,
        rule="populations/gaps/arrival patterns printed by TLC from CmdTurnGen (BFS + -simulate); non-trivial = at least two "
             "(user, cycle) pairs receive commands; distinct by JSON text",
        exhaustive=False, enumerated_by_tlc=nexh, events_validated=nevents, driver_failures=ncrash),
        time.time() - t0, len(verdict.new), ["virtual time; scripted reactor and sockets"])
    return rc


if __name__ == "__main__":
    vlib.main_wrapper(PROP, run)
