#!/usr/bin/env python3
"""C06 — reference counts are exact: no leaks, nothing freed while referenced.
P1: TLC checks RefCount (values held by variables of two objects, by containers, by function pointers and by
    pending call_outs; release when the count reaches zero, transitively) for CountsExact / NothingDangling on
    every reachable state.
P2: RefGen prints operation histories (new array / mapping, copy between objects, store into a container - cycles
    included -, bind into a function pointer, hold in a call_out, remove it, failing evaluations that hold extra
    references (arguments, temporaries, efun callbacks; caught and uncaught), destruct).
P3: every history runs in the real driver, one top-level evaluation per operation; after each one the driver's
    statistics (arrays, mappings, mapping nodes) relative to the start must equal what RefCount says is alive, and at
    the end - everything destructed, deferred clean-up run - every counter (also objects, programs, strings,
    sentences) must be back at its starting value and LeakSanitizer must find no allocation made by the scenario that
    nothing points to, unless RefCount says the history left a cycle behind.  ASan watches for use-after-free."""
import os, sys, json, time, random, re
sys.path.insert(0, os.path.join(os.path.dirname(os.path.abspath(__file__)), "..", "tools"))
import vlib, build

PROP = "C06"
SPEC = os.path.join(vlib.VERIF, "spec", "refcount")
OB = {"o1": "/obj/rc1", "o2": "/obj/rc2"}
COUNTERS = ("arrays", "asize", "maps", "nodes", "objs", "progs", "strs", "sent")


def script_of(h):
    ops = ["proj stats", "setcfg MaxEvaluationCost 100000000", "setcfg MaxArraySize 20000", "backend", "connect u1", "cycle", "line u1 name u1", "cycle",
           "line u1 do me xcall2:/obj/rc1:inp:name:0", "cycle", "line u1 warm", "cycle", "call /obj/pd nop", "call /obj/rc1 nop", "call /obj/rc2 nop", "call /obj/rc1 dest", "call /obj/rc2 dest",
           "note B0", "snapshot", "leakcheck base", "call /obj/rc1 nop", "call /obj/rc2 nop", "note Base", "snapshot"]
    alive = {"o1": True, "o2": True}
    pending = False
    for s in h:
        o = OB[s["o"]]
        op = s["op"]
        if op == "new":
            ops.append("call %s newval #%d %s" % (o, s["i"], s["k"]))
        elif op == "copy":
            ops.append("call %s copy_to #%d %s #%d" % (o, s["i"], OB[s["p"]], s["j"]))
        elif op == "clear":
            ops.append("call %s clear #%d" % (o, s["i"]))
        elif op == "put":
            ops.append("call %s put_into #%d %s #%d" % (o, s["i"], OB[s["p"]], s["j"]))
        elif op == "putr":
            ops.append("call %s put_range_into #%d %s #%d #%d" % (o, s["i"], OB[s["p"]], s["j"], s["mode"]))
        elif op == "fp":
            ops.append("call %s newfp #%d #%d" % (o, s["i"], s["j"]))
        elif op == "callout":
            ops.append("call %s callout #%d" % (o, s["i"]))
        elif op == "rmco":
            ops.append("call %s %s" % (o, "rmco_h" if s.get("by") == "handle" else "rmco"))
        elif op == "many":
            ops.append("call %s many #%d #70000" % (o, s["i"]))
        elif op == "clones":
            ops.append("call %s clones #70000" % o)
        elif op == "unmany":
            ops.append("call %s unmany" % o)
        elif op == "inp":
            # while an input_to is pending the next line would go to its callback: the command is escaped with '!'
            ops += ["line u1 %sdo me xcall2:%s:inp:%s:%d" % ("!" if pending else "", o, s["form"], s["i"]), "cycle"]
            pending = True
        elif op == "line":
            ops += ["line u1 %s" % s["res"], "cycle"]
            pending = False
        elif op == "drop":
            ops += ["hangup u1", "cycle"]
            pending = False
        elif op == "err":
            ops.append("call %s err #%d #%d" % (o, s["i"], s["kind"]))
        elif op == "use":
            ops.append("call %s use #%d #%d" % (o, s["i"], s["kind"]))
        elif op == "dest":
            ops.append("call %s dest" % o)
            alive[s["o"]] = False
        ops += ["note Op " + json.dumps(s, separators=(",", ":")), "snapshot"]
    if pending:     # a pending input_to is served before the final comparison
        ops += ["line u1 ok", "cycle", "note Op " + json.dumps({"op": "line", "o": "o1", "res": "ok"}, separators=(",", ":")), "snapshot"]
    for k in ("o1", "o2"):
        if alive[k]:
            ops += ["call %s dest" % OB[k], "note Op " + json.dumps({"op": "dest", "o": k}, separators=(",", ":")), "snapshot"]
    ops += ["expire 2000", "note Op " + json.dumps({"op": "expire"}, separators=(",", ":")), "snapshot"]
    ops += ["note Final", "snapshot", "leakcheck final"]
    return ops


def project(ex):
    out = [{"e": "Reset", "id": ex["id"]}]
    b0 = base = None
    pending = None
    leaks = {"base": set(), "final": set()}
    final_stats = None
    last = None
    for ev in ex["events"]:
        e = ev.get("e")
        if e == "Note":
            t = ev["t"]
            if t in ("B0", "Base", "Final"):
                pending = t
            elif t.startswith("Op "):
                pending = "Op"
                out.append(dict(json.loads(t[3:]), e="Op"))
        elif e == "Stats":
            st = {k: ev[k] for k in COUNTERS}
            if pending == "B0":
                b0 = st
            elif pending == "Base":
                base = st
            elif pending == "Op" and base:
                out.append({"e": "Stats", "arrays": st["arrays"] - base["arrays"], "maps": st["maps"] - base["maps"], "nodes": st["nodes"] - base["nodes"]})
            elif pending == "Final":
                final_stats = st
            last = st
            pending = None
        elif e == "Leak":
            leaks.setdefault(ev["tag"], set()).add((ev["what"].split(" of ")[0], tuple(ev["frames"][:4])))
    newleaks = sorted(leaks["final"] - leaks["base"])
    if final_stats and b0 and base:
        diff = {k: final_stats[k] - b0[k] for k in COUNTERS if final_stats[k] != b0[k]}
        clean = not diff and not newleaks
        out.append({"e": "Final", "arrays": final_stats["arrays"] - b0["arrays"], "maps": final_stats["maps"] - b0["maps"], "clean": clean})
        return out, dict(diff=diff, leaks=[[w, list(f)] for w, f in newleaks])
    return out, dict(diff={"incomplete": 1}, leaks=[])


def run(tier, work):
    t0 = time.time()
    verdict = vlib.Verdict(PROP)
    exe = build.ensure_harness("vdrv", ["vdrv.cpp"])
    cfg = "GenQuick.cfg" if tier == "quick" else "GenThorough.cfg"
    hists, gs = vlib.generate(SPEC, "RefGen", cfg, work, "p2a", timeout=3000, heap="16g", cap=(5000 if tier == "quick" else 60000))
    print("TLC P1 RefCount (CountsExact, NothingDangling) via RefGen: %d states, %d transitions, ok; %d histories" % (gs["states"], gs["transitions"], len(hists)))
    rnd = random.Random(vlib.SEED)
    hists.sort(key=lambda h: json.dumps(h, sort_keys=True))
    cap = 5000 if tier == "quick" else 60000
    if len(hists) > cap:
        rnd.shuffle(hists)
        hists = hists[:cap]
    nsim = 1500 if tier == "quick" else 20000
    sims, _ = vlib.generate(SPEC, "RefGen", "GenSim.cfg", work, "p2b", workers=4, simulate="num=%d" % nsim,
                            extra=["-depth", "20", "-seed", str(vlib.SEED)], timeout=900)
    sims.sort(key=lambda h: json.dumps(h, sort_keys=True))
    rnd.shuffle(sims)
    allh = hists + sims[:nsim]
    # histories with 70000 clones take seconds each: a seeded handful of them
    heavy = [h for h in allh if any(s_["op"] == "clones" for s_ in h)]
    keep = set(id(h) for h in heavy[:(6 if tier == "quick" else 100)])
    allh = [h for h in allh if id(h) in keep or not any(s_["op"] == "clones" for s_ in h)]
    print("GEN %d histories (exhaustive, sampled + simulated, seed %d), %d of them with 70000 clones" % (len(allh), vlib.SEED, len(keep)))
    conf, _ = work.mudlib()
    scen = [(str(i), script_of(h)) for i, h in enumerate(allh)]
    t1 = time.time()
    env = {"ASAN_OPTIONS": vlib.ASAN_ENV["ASAN_OPTIONS"].replace("detect_leaks=0", "detect_leaks=1") + ":leak_check_at_exit=0"}
    exs = vlib.run_vdrv(exe, conf, scen, work, tag="run", env=env, timeout=120)
    print("RUN %d scenarios in %.1fs" % (len(exs), time.time() - t1))
    ncrash = 0
    for ex, sigs, raw in vlib.confirmed_crashes(exe, conf, scen, exs, work, env=env):
        for sig in sigs:
            ncrash += 1
            verdict.add(sig, [json.dumps(allh[int(ex["id"])])] + scen[int(ex["id"])][1], "driver failure (value used after release?) in a reference-count scenario", raw=raw)
    projs, infos = [], []
    for ex in exs:
        p, info = project(ex)
        projs.append(p)
        infos.append(info)
    accepted, nevents, rejects = vlib.validate_executions(SPEC, "RefTrace", "RefTrace.cfg", projs, work, max_rejects=8)
    for badi, upto in rejects:
        b = projs[badi][upto] if upto < len(projs[badi]) else {"e": "?"}
        h = allh[badi]
        prev = projs[badi][upto - 1] if upto > 0 else {}
        sig = {"kind": "rejected", "event": b.get("e"), "after": prev.get("op") if prev.get("e") == "Op" else None}
        if prev.get("op") == "err":
            sig["errkind"] = prev.get("kind")
        if b.get("e") == "Final":
            sig["leak_frames"] = [f[1][:2] for f in infos[badi]["leaks"][:2]]
            sig["counters"] = sorted(infos[badi]["diff"])
        verdict.add(sig, [json.dumps(h)] + [json.dumps(p) for p in projs[badi][:upto + 1]] + [json.dumps(infos[badi])],
                    "first unexplainable event #%d: %s (after %s) %s" % (upto + 1, json.dumps(b), json.dumps(prev), json.dumps(infos[badi])[:300]))
    # the property itself: at the end everything is released.  RefCount (and the driver, as validated above) keep cycles for ever.
    ncycle = 0
    for i, (p, info) in enumerate(zip(projs, infos)):
        fin = p[-1]
        if fin.get("e") == "Final" and not fin["clean"] and not any(b == i for b, _ in rejects):
            ncycle += 1
            verdict.add({"kind": "cycle-leak"}, [json.dumps(allh[i]), json.dumps(info)],
                        "values holding each other in a cycle are never released: %s" % json.dumps(info)[:200])
    print("TLC P3 RefTrace: %d executions / %d events accepted; %d histories end with unreachable cycles" % (accepted, nevents, ncycle))
    ops_seen = sorted({s["op"] for h in allh for s in h})
    rc = verdict.finish()
    vlib.write_evidence(PROP, tier, "model_checking", dict(
        states=gs["states"], transitions=gs["transitions"], traces_validated_against_impl=accepted, evaluations=len(exs),
        distinct_nontrivial=len({json.dumps(h, sort_keys=True) for h in allh if len({s["op"] for s in h}) >= 2}),
        samples=[{"history": allh[0], "trace": projs[0][:10]}, {"history": allh[-1], "trace": projs[-1][:30]}],
        rule="operation histories printed by TLC from RefGen (BFS to the bound, sampled, + -simulate); non-trivial = at least two kinds of operation; distinct by JSON text",
        exhaustive=False, events_validated=nevents, ops_seen=ops_seen, driver_failures=ncrash, histories_with_cycles=ncycle),
        time.time() - t0, len(verdict.new),
        ["values: arrays, mappings, function pointers with one bound argument; holders: object variables, containers, function pointers, call_outs; "
         "class instances, buffers, input_to / add_action callbacks and counts beyond 65535 are not generated",
         "string / object / program / sentence counters are compared only at the end of a scenario (with everything destructed)",
         "LeakSanitizer (on demand, before and after) is used for allocations the driver keeps no counter for (function pointers, call_out records)"])
    return rc


if __name__ == "__main__":
    vlib.main_wrapper(PROP, run)
