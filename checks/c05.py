#!/usr/bin/env python3
"""C05 — after any LPC error the machine state is what it was before the failed call.
P2: ErrCtxGen enumerates nestings of regions (plain call, call_other, function pointer, filter/map/sort
    callbacks, catch, create() of a clone, init() of a move) above each raise kind.
Fault enumeration: for the error-free nestings the H1 hook injects an error at instruction k for EVERY k
    of the evaluation.
P3: every trace is validated against ErrCtx: context at region exit / after catch equals context at entry,
    the innermost catch gets the right value, registers at the poll afterwards equal those before, and a
    fixed probe evaluation still gives its fixed answers."""
import os, sys, json, time, random
sys.path.insert(0, os.path.join(os.path.dirname(os.path.abspath(__file__)), "..", "tools"))
import vlib, build

PROP = "C05"
SPEC = os.path.join(vlib.VERIF, "spec", "errctx")
PRE = ["proj regs", "setcfg MaxEvaluationCost 30000", "setcfg MaxInheritDepth 8", "backend", "connect u1", "cycle", "line u1 name u1", "cycle",
       "line u1 do me ld:eccb:/obj/ecc;mk:ec:/obj/ec", "cycle", "line u1 do me probe", "cycle"]


def script_of(shape, k=None, count=False, nocg=False, ehc=False):
    ops = list(PRE)
    if ehc:       # the master's error_handler() executes catches of its own (one that catches nothing, one that catches an error)
        ops = ["call master set_policy eh_catch #1"] + ops
    if nocg:      # the evaluation starts in a heart beat of a non-living object: no command giver to begin with
        return ops + ["line u1 do me mk:ecd:/obj/ecd", "cycle", "line u1 do me hbshape:%s" % ",".join(shape), "cycle", "tick 2", "cycle",
                      "line u1 do me probe", "cycle", "cycle"]
    if count:
        ops.append("izero")
    if k:
        ops.append("fault %d" % k)
    ops += ["line u1 do me shape:%s" % ",".join(shape), "cycle"]
    if count:
        ops.append("icount")
    if k:
        ops.append("fault 0")
    ops += ["line u1 do me probe", "cycle", "cycle"]
    return ops


def project(ex, armed):
    out = [{"e": "Reset", "id": ex["id"]}]
    started = False
    probe_depth = None
    shape_seen = False
    for ev in ex["events"]:
        e = ev.get("e")
        if e == "Mk" and ev.get("ob") == "ec":
            started = True
        if not started:
            continue
        if e == "Regs":
            # (num_objects_this_thread is a load-depth guard that clone_object() resets; it is not restored even
            #  by error-free evaluations, so it is not part of the compared registers)
            out.append({"e": "Poll", "regs": [ev["sp"], ev["csp"], ev["ctx"], ev["cgd"], ev["inerr"], ev["inmeh"], ev["rd"]]})
        elif e == "Input" and armed and not shape_seen and b"shape:" in bytes.fromhex(ev["hex"]):
            out.append({"e": "Arm"})
            shape_seen = True
        elif e == "Begin":
            out.append({"e": "Begin"})
        elif e in ("Enter", "Leave"):
            out.append({"e": e, "k": ev["k"], "i": ev["i"], "depth": ev["depth"], "tp": ev["tp"], "to": ev["to"]})
        elif e == "RaiseAt":
            out.append({"e": "RaiseAt", "k": ev["k"]})
        elif e == "AfterCatch":
            out.append({"e": "AfterCatch", "i": ev["i"], "caught": ev["caught"], "val": ev["val"], "depth": ev["depth"], "tp": ev["tp"], "to": ev["to"]})
        elif e == "ShapeEnd":
            out.append({"e": "End"})
        elif e == "Reported" and not ev.get("caught"):
            out.append({"e": "Reported", "fault": "verif fault" in ev.get("err", "")})
        elif e == "Log" and ("Too deep recursion" in ev.get("t", "") or "Too long evaluation" in ev.get("t", "")) and "\t*" in ev.get("t", ""):
            out.append({"e": "Reported", "fault": False})      # reported by the driver's own log (the master could not be called)
        elif e == "Probe":
            if probe_depth is None:
                probe_depth = ev["depth"]
            out.append({"e": "Probe", "c1": ev["c1"], "c2": ev["c2"], "sum": ev["sum"], "chain": ev["chain"], "dt": ev["dt"], "ns": ev["ns"], "depthOk": ev["depth"] == probe_depth})
    return out


def run(tier, work):
    t0 = time.time()
    exe = build.ensure_harness("vdrv", ["vdrv.cpp"])
    verdict = vlib.Verdict(PROP)
    shapes, gs = vlib.generate(SPEC, "ErrCtxGen", "GenQuick.cfg" if tier == "quick" else "GenThorough.cfg", work, "p2a", timeout=3000)
    nsim = 400 if tier == "quick" else 6000
    sims, _ = vlib.generate(SPEC, "ErrCtxGen", "GenSim.cfg", work, "p2b", workers=4, simulate="num=%d" % nsim,
                            extra=["-depth", "8", "-seed", str(vlib.SEED)], timeout=900)
    rnd = random.Random(vlib.SEED)
    seen = set()
    allshapes = []
    for s in shapes + sims:
        key = ",".join(s)
        if key not in seen:
            seen.add(key)
            allshapes.append(s)
    conf, _ = work.mudlib()
    # ---- fault enumeration: count instructions of the error-free shapes, then inject at every k
    clean = [s for s in allshapes if s[-1] == "none" and len(s) <= (3 if tier == "quick" else 4)]
    clean.sort(key=lambda s: ",".join(s))
    rnd.shuffle(clean)
    clean = clean[:8 if tier == "quick" else 60]
    cnt = vlib.run_vdrv(exe, conf, [("n%d" % i, script_of(s, count=True)) for i, s in enumerate(clean)], work, tag="count")
    plans = []
    for i, ex in enumerate(cnt):
        n = max([ev["n"] for ev in ex["events"] if ev.get("e") == "ICount"] + [0])
        for k in range(1, n + 1):
            plans.append((clean[i], k))
    scen, meta = [], []
    for i, s in enumerate(allshapes):
        scen.append((str(i), script_of(s))); meta.append((s, None))
    for s, k in plans:
        scen.append((str(len(scen)), script_of(s, k))); meta.append((s, k))
    for s in allshapes:
        if len(s) <= 4:
            scen.append((str(len(scen)), script_of(s, nocg=True))); meta.append((s, None))
    for s in allshapes:
        if len(s) <= 3 and s[-1] != "none":
            scen.append((str(len(scen)), script_of(s, ehc=True))); meta.append((s, None))
    print("GEN %d shapes (%d generator states) + %d fault positions over %d error-free shapes" % (len(allshapes), gs["states"], len(plans), len(clean)))
    t1 = time.time()
    exs = vlib.run_vdrv(exe, conf, scen, work, tag="run")
    print("RUN %d scenarios in %.1fs" % (len(exs), time.time() - t1))
    ncrash = 0
    for ex, sigs, raw in vlib.confirmed_crashes(exe, conf, scen, exs, work):
        for sig in sigs:
            ncrash += 1
            verdict.add(sig, [json.dumps(meta[int(ex["id"])])] + scen[int(ex["id"])][1], "driver failure: " + json.dumps(meta[int(ex["id"])]), raw=raw)
    projs = [project(ex, meta[int(ex["id"])][1] is not None) for ex in exs]
    accepted, nevents, rejects = vlib.validate_executions(SPEC, "ErrCtxTrace", "ErrCtxTrace.cfg", projs, work, max_rejects=8)
    for badi, upto in rejects:
        bad = projs[badi][upto] if upto < len(projs[badi]) else {"e": "?"}
        s, k = meta[badi]
        sig = {"kind": "rejected", "event": bad.get("e"), "raise": s[-1], "fault": k is not None}
        if bad.get("e") == "Poll":
            sig["regions"] = sorted(set(s[:-1]))
        verdict.add(sig, [json.dumps(meta[badi])] + [json.dumps(p) for p in projs[badi][:upto + 1]],
                    "shape %s fault %s: first unexplainable event #%d: %s" % (",".join(s), k, upto + 1, json.dumps(bad)))
    print("TLC P3 ErrCtxTrace: %d executions / %d events accepted" % (accepted, nevents))
    nontrivial = len({(",".join(s), k) for s, k in meta if (k is not None) or (len(s) >= 2 and s[-1] != "none")})
    rc = verdict.finish()
    samples = [{"shape": meta[3][0], "trace": projs[3][:14]}, {"shape": meta[-1][0], "fault_at_instruction": meta[-1][1], "trace": projs[-1][:14]}]
    vlib.write_evidence(PROP, tier, "fault_enumeration", dict(
        evaluations=len(exs), distinct_nontrivial=nontrivial,
        rule="region nestings x raise kinds printed by TLC from ErrCtxGen, plus for the error-free nestings an injected error at EVERY "
             "instruction position k (H1 hook); non-trivial = a fault position, or a nesting of at least one region above a real error; "
             "distinct by (shape, k)",
        samples=samples, traces_validated_against_impl=accepted, fault_positions=len(plans), shapes=len(allshapes),
        events_validated=nevents, driver_failures=ncrash, exhaustive=False),
        time.time() - t0, len(verdict.new), ["H1 hook (NEOLITH_VERIF) raises error(\"*verif fault\") at the k-th executed instruction"])
    return rc


if __name__ == "__main__":
    vlib.main_wrapper(PROP, run)
