#!/usr/bin/env python3
"""C16 — saved values restore to equal values; saves are atomic; restore is robust.
P1: AtomicSave (tmp file, write pieces, close, rename, crash anywhere) never leaves a partial save file.
P2: SaveGen enumerates value trees over a leaf pool (int64 extremes, integral/tiny floats, strings with every
    escape-worthy byte, empty containers); damaged texts = every truncation / single-byte replacement of
    recorded save texts; crash points = every file-system call boundary of a save_object.
P3: round-trip events validated against SaveRestore (equal value, equal tags; statics/object refs not saved;
    damaged text -> value or LPC error), file-system call sequences and post-crash disk contents against AtomicSave."""
import os, sys, json, time, random
sys.path.insert(0, os.path.join(os.path.dirname(os.path.abspath(__file__)), "..", "tools"))
import vlib, build

PROP = "C16"
SPEC = os.path.join(vlib.VERIF, "spec", "saverestore")

LEAVES = ["0", "1", "-1", "2147483647", "-2147483648", "4294967296", "9223372036854775807", "-9223372036854775807",
          "(-9223372036854775807 - 1)",
          "0.0", "1.5", "-0.25", "3.0", "10000000000.0", "0.00001", "123456.789", "-7.0",
          '""', '"a"', '"a\\"b"', '"back\\\\slash"', '"nl\\nx"', '"cr\\rx"', '"({"', '"([1:2])"', '"a,b"', '"x:y"', '"/"', '"#"',
          '"tab\\tx"', 'sprintf("%c%c", 195, 169)', '"ends\\\\"', "({ })", "([ ])",
          '"q\\"x\\ny"', '"b\\\\s\\nz"', '"cr\\rthen\\nlf"', '"\\n\\"\\n"',
          # mappings that grow past the hash-table thresholds while they are restored (7-9 and more entries)
          "mkm(8, 16)", "mkm(9, 1)", "mkm(20, 3)", "mks(8)", "mks(17)", "mkm(7, 128)"]
KEYS = ["1", "-1", '"a"', '"a\\"b"', '"nl\\nx"', "1.5"]


def lpc_of(t):
    if t["k"] == "leaf":
        return LEAVES[t["i"] - 1]
    if t["k"] == "arr":
        return "({ " + ", ".join(lpc_of(x) for x in t["v"]) + " })"
    if t["k"] == "map":
        return "([ " + ", ".join("%s : %s" % (KEYS[k["i"] - 1], lpc_of(v)) for k, v in t["v"]) + " ])"
    raise ValueError(t)


def vals_src(trees):
    src = ["// generated values", "mixed deep(int n) { mixed v = ({ 1 }); while (n--) v = ({ v }); return v; }",
           "mapping mkm(int n, int st) { mapping m = ([ ]); int i; for (i = 0; i < n; i++) m[112 + i * st + st] = i; return m; }",
           "mapping mks(int n) { mapping m = ([ ]); int i; for (i = 0; i < n; i++) m[\"key\" + i] = ({ i }); return m; }",
           "mixed v(int i) {", "  switch (i) {"]
    for i, t in enumerate(trees):
        src.append("  case %d: return %s;" % (i, "deep(30)" if t == "DEEP" else lpc_of(t)))
    src += ["  }", "  return 0;", "}"]
    return "\n".join(src) + "\n"


PRE = ["setcfg MaxEvaluationCost 100000000", "backend", "connect u1", "cycle", "line u1 name u1", "cycle", "line u1 do me mk:sv:/obj/sv", "cycle"]


def run(tier, work):
    t0 = time.time()
    exe = build.ensure_harness("vdrv", ["vdrv.cpp"])
    verdict = vlib.Verdict(PROP)
    mc = vlib.model_check(SPEC, "AtomicSave", "MCAtomic.cfg", work, "p1", timeout=600)
    print("TLC P1 AtomicSave: %d states, %d transitions, %s" % (mc["states"], mc["transitions"], "ok" if mc["ok"] else "VIOLATED"))
    if not mc["ok"]:
        raise vlib.Broken("AtomicSave violates its invariant")
    trees, gs = vlib.generate(SPEC, "SaveGen", "GenQuick.cfg", work, "p2a", timeout=600)
    nsim = 400 if tier == "quick" else 8000
    sims, _ = vlib.generate(SPEC, "SaveGen", "GenSim.cfg", work, "p2b", workers=4, simulate="num=%d" % nsim,
                            extra=["-depth", "3", "-seed", str(vlib.SEED)], timeout=900)
    seen, allt = set(), []
    for t in trees + sims:
        k = json.dumps(t, sort_keys=True)
        if k not in seen:
            seen.add(k); allt.append(t)
    allt.sort(key=lambda t: json.dumps(t, sort_keys=True))
    allt.append("DEEP")
    conf, root = work.mudlib()
    os.makedirs(os.path.join(root, "c16"), exist_ok=True)
    os.makedirs(os.path.join(root, "sv"), exist_ok=True)
    CH = 150      # values per generated file (a program's code must stay below 64 KiB)
    for c in range(0, len(allt), CH):
        src = vals_src(allt[c:c + CH])
        open(os.path.join(root, "c16", "vals%d.c" % (c // CH)), "w").write(src)
    # ---- round trips, 25 values per process
    scen = []
    B = 25
    for b in range(0, len(allt), B):
        ops = list(PRE)
        for i in range(b, min(b + B, len(allt))):
            ops += ["line u1 do me svrt:%d" % i, "cycle"]
        scen.append(("rt%d" % b, ops))
    exs = vlib.run_vdrv(exe, conf, scen, work, tag="rt")
    ncrash = 0
    for ex, sigs, raw in vlib.confirmed_crashes(exe, conf, scen, exs, work):
        # find the value at which the batch died: the first id without an RT event
        got = {ev["id"] for ev in ex["events"] if ev.get("e") == "RT"}
        b = int(ex["id"][2:])
        first = next((i for i in range(b, min(b + B, len(allt))) if i not in got), b)
        for sig in sigs:
            ncrash += 1
            sig = dict(sig, value=(allt[first] if allt[first] == "DEEP" else lpc_of(allt[first]))[:60])
            verdict.add(sig, [json.dumps(allt[first])], "driver failure while saving/restoring value #%d: %s" % (first, sig["value"]), raw=raw)
    projs, texts = [], []
    for ex in exs:
        out = [{"e": "Reset", "id": ex["id"]}]
        for ev in ex["events"]:
            if ev.get("e") != "RT":
                continue
            deep = allt[ev["id"]] == "DEEP"
            if ev["how"] == "var":
                out.append({"e": "RT", "orig": json.dumps(ev["orig"], sort_keys=True), "back": json.dumps(ev.get("back", "none"), sort_keys=True), "err": ev["err"], "toodeep": deep, "wf": ev.get("wf", 1), "id": ev["id"]})
                if ev.get("text") and not deep:
                    texts.append(ev["text"])
            elif not deep:
                out.append({"e": "RTO", "orig": json.dumps(ev["orig"], sort_keys=True), "back": json.dumps(ev.get("back", "none"), sort_keys=True), "err": ev["err"],
                            "static_kept": ev.get("static_kept", 0), "obref_kept": ev.get("obref_kept", 0), "id": ev["id"]})
        projs.append(out)
    # vacuity guard: every generated value must have produced its round-trip events (a scenario-side failure, e.g. in the
    # value encoder, would otherwise silently drop the value from the validated traces)
    seen_var = {p["id"] for pr in projs for p in pr if p.get("e") == "RT"}
    seen_obj = {p["id"] for pr in projs for p in pr if p.get("e") == "RTO"}
    crashed_batches = {ex["id"] for ex in exs if vlib.crashed(ex)}
    missing = [i for i in range(len(allt)) if i not in seen_var and ("rt%d" % (i - i % B)) not in crashed_batches]
    missing_o = [i for i in range(len(allt)) if allt[i] != "DEEP" and i not in seen_obj and ("rt%d" % (i - i % B)) not in crashed_batches]
    # values made of three or more of the large leaves give an event line longer than the scenario log can carry: they are
    # not judged (counted in the evidence), every other value must be there
    def toolong(i):
        t = "" if allt[i] == "DEEP" else lpc_of(allt[i])
        return sum(t.count(b) for b in ("mks(17)", "mkm(7, 128)", "mkm(20, 3)", "mkm(8, 16)")) >= 3
    not_judged = sorted({i for i in missing + missing_o if toolong(i)})
    missing = [i for i in missing if not toolong(i)]
    missing_o = [i for i in missing_o if not toolong(i)]
    if not_judged:
        print("NOTE %d generated values of three or more large leaves produced no event (line too long for the scenario log); not judged" % len(not_judged))
    if missing or missing_o:
        i = (missing or missing_o)[0]
        raise vlib.Broken("no round-trip event for %d + %d generated values, e.g. #%d %s" % (len(missing), len(missing_o), i, allt[i] if allt[i] == "DEEP" else lpc_of(allt[i])))
    # ---- damaged texts
    rnd = random.Random(vlib.SEED)
    texts = sorted(set(texts))
    rnd.shuffle(texts)
    dm = []
    alpha = b'"\\(){}[],:/0a \r\n'
    for tx in texts[:60 if tier == "quick" else 400]:
        raw = bytes.fromhex(tx)
        for cut in range(len(raw)):
            dm.append(raw[:cut])
        for pos in range(min(len(raw), 48)):
            for c in alpha:
                if raw[pos] != c:
                    dm.append(raw[:pos] + bytes([c]) + raw[pos + 1:])
    dm = sorted(set(dm))
    rnd.shuffle(dm)
    dm = dm[:4000 if tier == "quick" else 60000]
    scen_d = []
    DB = 100
    for b in range(0, len(dm), DB):
        ops = list(PRE)
        for i in range(b, min(b + DB, len(dm))):
            if len(dm[i]) < 900:
                ops += ["line u1 do me svdmg:%d:%s" % (i, dm[i].hex()), "cycle"]
        scen_d.append(("dm%d" % b, ops))
    exs_d = vlib.run_vdrv(exe, conf, scen_d, work, tag="dm")
    for ex, sigs, raw in vlib.confirmed_crashes(exe, conf, scen_d, exs_d, work):
        got = {ev["id"] for ev in ex["events"] if ev.get("e") == "Damaged"}
        b = int(ex["id"][2:])
        first = next((i for i in range(b, min(b + DB, len(dm))) if i not in got), b)
        for sig in sigs:
            ncrash += 1
            verdict.add(dict(sig, damaged=True), [dm[first].hex()], "driver failure while restoring damaged text %r" % dm[first][:80], raw=raw)
    for ex in exs_d:
        out = [{"e": "Reset", "id": ex["id"]}]
        out += [{"e": "Damaged", "outcome": ev["outcome"]} for ev in ex["events"] if ev.get("e") == "Damaged"]
        projs.append(out)
    # ---- crash points of save_object
    ref = vlib.run_vdrv(exe, conf, [("ref", PRE + ["line u1 do me svsave:/sv/ref", "cycle", "fslog 1", "line u1 do me svset:3;svsave:/sv/ref", "cycle"])], work, tag="ref")
    fscalls = [ev for ev in ref[0]["events"] if ev.get("e") == "Fs"]
    ncalls = len(fscalls)
    new_content = open(os.path.join(root, "sv", "ref.o"), "rb").read() if os.path.exists(os.path.join(root, "sv", "ref.o")) else b""
    oldrun = vlib.run_vdrv(exe, conf, [("old", PRE + ["line u1 do me svsave:/sv/oldref", "cycle"])], work, tag="old")
    old_content = open(os.path.join(root, "sv", "oldref.o"), "rb").read()
    scen_c = [("c%d" % k, PRE + ["line u1 do me svsave:/sv/c%d" % k, "cycle", "fslog 1", "fscrash %d" % k, "line u1 do me svset:3;svsave:/sv/c%d" % k, "cycle"])
              for k in range(1, ncalls + 2)]
    exs_c = vlib.run_vdrv(exe, conf, scen_c, work, tag="crash")
    # the same boundaries as failure points: the k-th file-system call reports an error instead of a crash
    scen_f = [("f%d" % k, PRE + ["line u1 do me svsave:/sv/f%d" % k, "cycle", "fslog 1", "fsfail %d" % k, "line u1 do me svset:3;svsave:/sv/f%d" % k, "cycle"])
              for k in range(1, ncalls + 1)]
    exs_f = vlib.run_vdrv(exe, conf, scen_f, work, tag="fail")
    aprojs = []
    nfailpoints = 0
    failsum = []
    for ex in exs_f:
        k = ex["id"]
        out = [{"e": "Reset", "id": k}]
        anyfail = False
        for ev in ex["events"]:
            if ev.get("e") == "Fs" and ("/sv/" in ev["path"] or "sv/" in ev["path"]) and ev["fn"] in ("fopen", "fprintf", "fclose", "rename", "unlink"):
                out.append({"e": "Fs", "fn": ev["fn"], "tmp": ev["path"].endswith(".tmp"), "final": ev.get("path2", "").endswith(".o"), "failed": bool(ev.get("failed"))})
                anyfail = anyfail or bool(ev.get("failed"))
        saved = [ev["ok"] for ev in ex["events"] if ev.get("e") == "Saved"]
        fn = os.path.join(root, "sv", "%s.o" % k)
        content = open(fn, "rb").read() if os.path.exists(fn) else None
        final = "old" if content == old_content else "new" if content == new_content else "other"
        if anyfail:
            nfailpoints += 1
            out.append({"e": "AfterFail", "final": final, "ret": saved[-1] if saved else -1})
            failsum.append("%s->ret %s,%s" % ("/".join(e["fn"] for e in out if e.get("failed")), out[-1]["ret"], final))
        else:
            out.append({"e": "AfterCrash", "final": final})
        aprojs.append(out)
    for ex in exs_c + ref:
        k = ex["id"]
        out = [{"e": "Reset", "id": k}]
        for ev in ex["events"]:
            if ev.get("e") == "Fs" and ("/sv/" in ev["path"] or "sv/" in ev["path"]):
                out.append({"e": "Fs", "fn": ev["fn"], "tmp": ev["path"].endswith(".tmp"), "final": ev.get("path2", "").endswith(".o"), "failed": False})
        fn = os.path.join(root, "sv", ("%s.o" % k) if k != "ref" else "ref.o")
        content = open(fn, "rb").read() if os.path.exists(fn) else None
        final = "old" if content == old_content else "new" if content == new_content else "other"
        out.append({"e": "AfterCrash", "final": final})
        aprojs.append(out)
    print("GEN %d values (+%d simulated drawn), %d damaged texts, %d crash points, %d failure points [%s]; RUN %d + %d + %d + %d scenarios" %
          (len(allt), len(sims), len(dm), ncalls + 1, nfailpoints, "; ".join(failsum), len(exs), len(exs_d), len(exs_c), len(exs_f)))
    if nfailpoints < 3:
        raise vlib.Broken("fewer than 3 file-system calls of save_object could be made to fail (%d)" % nfailpoints)
    accepted, nevents, rejects = vlib.validate_executions(SPEC, "SaveRestoreTrace", "SaveRestoreTrace.cfg", projs, work, max_rejects=25, tag="p3a")
    for badi, upto in rejects:
        bad = projs[badi][upto] if upto < len(projs[badi]) else {"e": "?"}
        sig = {"kind": "rejected", "event": bad.get("e")}
        if "id" in bad and bad.get("e") in ("RT", "RTO"):
            t = allt[bad["id"]]
            src = "deep(30)" if t == "DEEP" else lpc_of(t)
            leaves = sorted(set(_leaf_kinds(t)))
            sig.update(err=bad.get("err"), leaf_kinds=leaves)
            what = "value %s: orig %s back %s err %s" % (src[:80], str(bad.get("orig"))[:160], str(bad.get("back"))[:160], bad.get("err"))
        else:
            what = json.dumps(bad)[:200]
        verdict.add(sig, [json.dumps(bad)[:2000]], what)
        # keep validating the rest of this batch: drop the offending event
    acc2, nev2, rej2 = vlib.validate_executions(SPEC, "AtomicSaveTrace", "AtomicSaveTrace.cfg", aprojs, work, max_rejects=10, tag="p3b")
    for badi, upto in rej2:
        bad = aprojs[badi][upto] if upto < len(aprojs[badi]) else {"e": "?"}
        verdict.add({"kind": "rejected", "spec": "AtomicSave", "event": bad.get("e")}, [json.dumps(p) for p in aprojs[badi]],
                    "crash scenario %s: first unexplainable event #%d: %s" % (aprojs[badi][0]["id"], upto + 1, json.dumps(bad)))
    print("TLC P3 SaveRestoreTrace: %d executions / %d events accepted; AtomicSaveTrace: %d / %d" % (accepted, nevents, acc2, nev2))
    rc = verdict.finish()
    samples = [{"value": lpc_of(allt[40]), "events": projs[1][1:3]}, {"crash_trace": aprojs[2]}]
    vlib.write_evidence(PROP, tier, "model_checking", dict(
        states=mc["states"] + gs["states"], transitions=mc["transitions"] + gs["transitions"], traces_validated_against_impl=accepted + acc2,
        samples=samples, evaluations=len(allt) + len(dm) + ncalls + 1, distinct_nontrivial=len(allt) + len(dm) + ncalls + 1,
        rule="value trees printed by TLC from SaveGen (all leaves, all 1-element arrays / 1-entry mappings, simulated depth-2 trees), every truncation and "
             "single-byte replacement of recorded save texts (sampled), every file-system call boundary of a save_object (as a crash point and as a call that fails with ENOSPC); all distinct by construction",
        exhaustive=False, events_validated=nevents + nev2, driver_failures=ncrash, values=len(allt), damaged=len(dm), crash_points=ncalls + 1, failure_points=nfailpoints, failure_outcomes=failsum),
        time.time() - t0, len(verdict.new), ["LPC-side canonical encoding enc() of values (mudlib/base/obj/sv.c) is trusted", "fopen/fprintf/fclose/rename/unlink interposed at link time"])
    return rc


def _leaf_kinds(t):
    if t == "DEEP":
        return ["deep"]
    if t["k"] == "leaf":
        s = LEAVES[t["i"] - 1]
        if s.startswith('"') or s.startswith("sprintf"):
            return ["str:" + s[:12]]
        if "." in s:
            return ["float:" + s]
        if s.startswith("(") and s[1] in "{[":
            return ["empty"]
        return ["int:" + s]
    out = []
    for x in t["v"]:
        if isinstance(x, list):
            out += ["key:" + KEYS[x[0]["i"] - 1]] + _leaf_kinds(x[1])
        else:
            out += _leaf_kinds(x)
    return out


if __name__ == "__main__":
    vlib.main_wrapper(PROP, run)
