#!/bin/bash
# MANIFEST.setup_cmd: verify the tools the checks need and pre-warm the build cache (offline).
set -e
cd /verif
command -v java >/dev/null && command -v cmake >/dev/null && command -v ninja >/dev/null && command -v g++ >/dev/null
test -f /opt/veriftools/tla/tla2tools.jar
python3 tools/build.py asan >/dev/null
python3 - <<'PY'
import sys; sys.path.insert(0, '/verif/tools')
import build
build.ensure_harness("vdrv", ["vdrv.cpp"])
print("setup ok")
PY
