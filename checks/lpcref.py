"""Python transcription of spec/lpcsem/LpcSem.tla (same operator names, same case analysis), with 64-bit integers.
It exists because TLC's integers are 32-bit: expected values for operands beyond that come from here.  The check
binds it to the specification: every (program, expected value) pair that TLC prints from LpcSem is also evaluated
here and must agree (checks/c03.py), so this file can only be wrong where the specification is silent.
Values: ("i", n) | ("s", [codes]) | ("a", [values]) | ("m", [(key, value)..]) | ("e", kind) | ("f", float)"""

M64 = (1 << 64) - 1


def wrap(n):
    n &= M64
    return n - (1 << 64) if n >> 63 else n


def I(n): return ("i", wrap(n))
def S(q): return ("s", list(q))
def A(q): return ("a", list(q))
def E(k): return ("e", k)
def is_err(x): return x[0] == "e"
def truthy(x): return not (x[0] == "i" and x[1] == 0)
def Bool(b): return I(1 if b else 0)


def tdiv(a, b):
    q = abs(a) // abs(b)
    return q if (a < 0) == (b < 0) else -q


def dec(n):
    return [ord(c) for c in str(n)]


def scmp(p, q):
    return (p > q) - (p < q)          # lists of codes compare like strcmp on bytes


def same(x, y):
    return x[0] == y[0] and x[0] in ("i", "s") and x[1] == y[1]


def Mp(q): return ("m", [(k, v) for k, v in q])
def map_has(q, k): return any(same(e[0], k) for e in q)
def map_get(q, k):
    for e in q:
        if same(e[0], k): return e[1]
    return I(0)
def MapAdd(l, r): return Mp([e for e in l if not map_has(r, e[0])] + list(r))
def MapDel(q, k): return Mp([e for e in q if not same(e[0], k)])
def MapPut(q, k, x): return Mp([(e[0], x) if same(e[0], k) else e for e in q]) if map_has(q, k) else Mp(list(q) + [(k, x)])


def Bin(op, x, y):
    if is_err(x): return x
    if is_err(y): return y
    if x[0] == "m" and y[0] == "m":
        return MapAdd(x[1], y[1]) if op == "add" else E("type")
    if x[0] == "i" and y[0] == "i":
        a, b = x[1], y[1]
        if op == "add": return I(a + b)
        if op == "sub": return I(a - b)
        if op == "mul": return I(a * b)
        if op == "div": return E("div0") if b == 0 else I(tdiv(a, b))
        if op == "mod": return E("div0") if b == 0 else I(a - b * tdiv(a, b))
        if op == "and": return I(a & b)
        if op == "or": return I(a | b)
        if op == "xor": return I(a ^ b)
        if op == "shl": return I(a << b) if 0 <= b <= 63 else E("type")
        if op == "shr": return I(a >> b) if 0 <= b <= 63 else E("type")
        if op == "lt": return Bool(a < b)
        if op == "le": return Bool(a <= b)
        if op == "gt": return Bool(a > b)
        if op == "ge": return Bool(a >= b)
        if op == "eq": return Bool(a == b)
        if op == "ne": return Bool(a != b)
        return E("type")
    if x[0] == "s" and y[0] == "s":
        if op == "add": return S(x[1] + y[1])
        if op == "eq": return Bool(x[1] == y[1])
        if op == "ne": return Bool(x[1] != y[1])
        if op == "lt": return Bool(scmp(x[1], y[1]) < 0)
        if op == "le": return Bool(scmp(x[1], y[1]) <= 0)
        if op == "gt": return Bool(scmp(x[1], y[1]) > 0)
        if op == "ge": return Bool(scmp(x[1], y[1]) >= 0)
        return E("type")
    if x[0] == "s" and y[0] == "i" and op == "add": return S(x[1] + dec(y[1]))
    if x[0] == "i" and y[0] == "s" and op == "add": return S(dec(x[1]) + y[1])
    if x[0] == "a" and y[0] == "a":
        if op == "add": return A(x[1] + y[1])
        if op == "sub": return A([e for e in x[1] if not any(same(e, f) for f in y[1])])
        if op == "and": return A([e for e in x[1] if any(same(e, f) for f in y[1])])
        return E("type")
    if op in ("eq", "ne"): return Bool(op == "ne")
    return E("type")


def Un(op, x):
    if is_err(x): return x
    if op == "not": return Bool(not truthy(x))
    if op == "neg": return I(-x[1]) if x[0] == "i" else E("type")
    if op == "compl": return I(-x[1] - 1) if x[0] == "i" else E("type")
    if op == "sizeof": return I(len(x[1])) if x[0] in ("a", "s", "m") else I(0)
    return E("type")


def LAnd(x, y):
    if is_err(x): return x
    if not truthy(x): return I(0)
    return y


def LOr(x, y):
    if is_err(x): return x
    if truthy(x): return x
    return y


def Cond(c, x, y):
    if is_err(c): return c
    return x if truthy(c) else y


def Index(x, i, from_end):
    if is_err(x): return x
    if is_err(i): return i
    if x[0] == "m": return E("type") if from_end else map_get(x[1], i)
    if x[0] not in ("a", "s") or i[0] != "i": return E("type")
    n = len(x[1])
    p = n - i[1] if from_end else i[1]
    if x[0] == "s" and p == n: return I(0)
    if p < 0 or p >= n: return E("index")
    return I(x[1][p]) if x[0] == "s" else x[1][p]


def Range(x, i, ie, j, je):
    if is_err(x): return x
    if is_err(i): return i
    if is_err(j): return j
    if x[0] not in ("a", "s") or i[0] != "i" or j[0] != "i": return E("type")
    n = len(x[1])
    lo = n - i[1] if ie else i[1]
    hi = n - j[1] if je else j[1]
    if x[0] == "s":          # OLD_RANGE_BEHAVIOR: negative (after the <n conversion) counts from the end
        if lo < 0: lo += n
        if hi < 0: hi += n
    lo = max(lo, 0)
    hi = min(hi, n - 1)
    return (x[0], [] if lo > hi else x[1][lo:hi + 1])


def from_json(v):
    """value as printed by TLC (ToJson of a tagged record) -> tagged tuple"""
    t = v["t"]
    if t == "i": return I(v["v"])
    if t == "s": return S(v["v"])
    if t == "a": return A([from_json(e) for e in v["v"]])
    if t == "m": return Mp([(from_json(e[0]), from_json(e[1])) for e in v["v"]])
    return E(v["v"])


def run_postfix(code):
    st = []
    for tk in code:
        k = tk["k"]
        if k == "int": st.append(I(tk["v"]))
        elif k == "str": st.append(S(tk["v"]))
        elif k == "arr": st.append(A([from_json(e) for e in tk["v"]]))
        elif k == "bin":
            y = st.pop(); x = st.pop(); st.append(Bin(tk["v"], x, y))
        elif k == "un":
            st.append(Un(tk["v"], st.pop()))
        elif k == "lazy":
            y = st.pop(); x = st.pop(); st.append(LAnd(x, y) if tk["v"] == "land" else LOr(x, y))
        elif k == "cond":
            y = st.pop(); x = st.pop(); c = st.pop(); st.append(Cond(c, x, y))
        elif k == "index":
            i = st.pop(); x = st.pop(); st.append(Index(x, i, tk["v"]))
        elif k == "range":
            j = st.pop(); i = st.pop(); x = st.pop(); st.append(Range(x, i, tk["ie"], j, tk["je"]))
    assert len(st) == 1
    return st[0]


def canon(x):
    """canonical JSON-able form"""
    if x[0] == "a":
        return ["a", [canon(e) for e in x[1]]]
    if x[0] == "s":
        return ["s", list(x[1])]
    if x[0] == "m":      # the order of entries means nothing
        import json as _j
        return ["m", sorted(([canon(k), canon(v)] for k, v in x[1]), key=lambda e: _j.dumps(e[0]))]
    if x[0] == "f":
        return ["f", repr(float(x[1]))]
    return [x[0], x[1]]
